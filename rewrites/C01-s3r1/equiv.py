#!/usr/bin/env python3
# -*- coding: utf-8 -*-
"""
equiv.py -- C01: "Vertex-link association is symmetric and duplicate-free
after every history".

Standalone checker, public API only.  Exits 0 when every scripted corner case
and every step of the seeded random histories behaves as the property and the
documented behaviour demand; any deviation raises (non-zero exit).

Run from the worktree root:

    PYTHONPATH=<worktree> /venv/bin/python equiv.py [n_seeds] [n_steps]

Parts
-----
A. scripted corner cases: self-loops, parallel edges, half-assigned edges,
   links naming a vertex several times, edges that lost an end, argument
   iterables (generators) that raise part-way, callbacks (overridden public
   methods) that raise -- incl. exceptions that are not ``Exception``s --,
   the exact sequence of public cross-calls between vertex and link, links with
   a user ``__eq__``, ``__slots__`` subclasses, user attributes of odd names,
   pickle / dill / nrpickler / deepcopy round trips followed by mutation,
   NEIGHBOR_CACHING on and off, worker threads, warnings turned into errors.
B. seeded random differential run against an independent model (plain lists
   of integer handles) that predicts, after every call: the exact ``links`` of
   every vertex, the exact ``vertices`` of every link, v1/v2 reads, results of
   ``neighbors`` (with and without the cache), return values / exceptions of
   every call, and the figures printed by ``Vertex.total_cache_stats()``.
   Independently of the model, the property itself (symmetry, no duplicates)
   is re-checked from public observations after every call.
"""

import copy
import pickle
import random
import sys
import threading
import warnings

import dill

from edgegraph.structure import (
    Vertex,
    Link,
    TwoEndedLink,
    DirectedEdge,
    UnDirectedEdge,
    Universe,
)
from edgegraph.builder import explicit
from edgegraph.traversal import helpers
from edgegraph.output import nrpickler

warnings.simplefilter("error")


def check(cond, msg="check failed"):
    if not cond:
        raise AssertionError(msg)


def raises(exc, fn, *a, **kw):
    """Call fn; it must raise exactly an instance of `exc`; return it."""
    try:
        fn(*a, **kw)
    except BaseException as e:  # pylint: disable=broad-except
        check(type(e) is exc, f"expected {exc.__name__}, got {type(e).__name__}: {e}")
        return e
    raise AssertionError(f"expected {exc.__name__}, nothing raised")


def same(seq, expected, msg=""):
    """Identity-wise equality of two sequences."""
    seq = tuple(seq)
    expected = tuple(expected)
    check(
        len(seq) == len(expected)
        and all(a is b for a, b in zip(seq, expected)),
        f"{msg}: got {seq!r}, expected {expected!r}",
    )


# ---------------------------------------------------------------------------
# classes used throughout (module level, so that they pickle by reference)
# ---------------------------------------------------------------------------


class Hyper(Link):
    """A link with any number of ends."""


class SlotV(Vertex):
    __slots__ = ("extra",)


class SlotE(UnDirectedEdge):
    __slots__ = ("w2",)


class Stop(BaseException):
    """Not an Exception subclass."""


def prop_ok(vertices, links):
    """
    The property, straight from its statement: l listed by v  <=>  v listed by
    l; no vertex lists a link twice.  Public observations only.
    """
    for v in vertices:
        ls = v.links
        check(isinstance(ls, tuple), "links is not a tuple")
        for i, a in enumerate(ls):
            for b in ls[i + 1 :]:
                check(a is not b, "a vertex lists the same link twice")
        for l in links:
            in_v = any(x is l for x in ls)
            in_l = any(x is v for x in l.vertices)
            check(in_v == in_l, f"asymmetric association ({in_v} vs {in_l})")
    for l in links:
        check(isinstance(l.vertices, tuple), "vertices is not a tuple")


# ---------------------------------------------------------------------------
# Part A: scripted corner cases
# ---------------------------------------------------------------------------


def a_basic():
    a, b, c = Vertex(), Vertex(), Vertex()
    e = DirectedEdge(a, b)
    same(e.vertices, (a, b))
    same(a.links, (e,))
    same(b.links, (e,))
    check(e.v1 is a and e.v2 is b)
    check(e.vertices is not e.vertices or e.vertices == (), "fresh tuple")
    check(a.links is not a.links)
    check(Vertex().links is Vertex().links, "empty tuple singleton")

    # parallel edges
    f = DirectedEdge(a, b)
    g = UnDirectedEdge(b, a)
    same(a.links, (e, f, g))
    same(b.links, (e, f, g))

    # re-targeting
    f.v2 = c
    same(f.vertices, (a, c))
    same(b.links, (e, g))
    same(c.links, (f,))
    f.v1 = c  # becomes a self loop
    same(f.vertices, (c, c))
    same(a.links, (e, g))
    same(c.links, (f,))
    f.v1 = c  # no-op assignment
    same(f.vertices, (c, c))
    same(c.links, (f,))
    f.v2 = a  # c stays (still v1)
    same(f.vertices, (c, a))
    same(c.links, (f,))
    same(a.links, (e, g, f))
    f.v1 = None
    same(f.vertices, (None, a))
    same(c.links, ())
    f.v2 = None
    same(f.vertices, (None, None))
    same(a.links, (e, g))
    f.v2 = b
    f.v1 = b
    same(f.vertices, (b, b))
    same(b.links, (e, g, f))
    prop_ok([a, b, c], [e, f, g])

    # self loop from the constructor
    s = UnDirectedEdge(c, c)
    same(s.vertices, (c, c))
    same(c.links, (s,))
    check(s.other(c) is c)
    s.unlink_from(c)
    same(s.vertices, ())
    same(c.links, ())
    raises(IndexError, lambda: s.v1)
    raises(IndexError, lambda: s.v2)
    raises(IndexError, setattr, s, "v1", a)
    raises(IndexError, setattr, s, "v2", a)
    same(s.vertices, ())
    same(a.links, (e, g))
    s.add_vertex(a)
    same(s.vertices, (a,))
    same(a.links, (e, g, s))
    check(s.v1 is a)
    raises(IndexError, lambda: s.v2)
    raises(IndexError, setattr, s, "v1", b)
    raises(IndexError, setattr, s, "v2", b)
    same(s.vertices, (a,))
    same(b.links, (e, g, f))
    s.add_vertex(None)
    same(s.vertices, (a, None))
    s.v2 = a
    same(s.vertices, (a, a))
    same(a.links, (e, g, s))
    s.v1 = b
    same(s.vertices, (b, a))
    same(a.links, (e, g, s))
    same(b.links, (e, g, f, s))
    prop_ok([a, b, c], [e, f, g, s])

    # half assigned
    h = DirectedEdge()
    same(h.vertices, (None, None))
    h2 = DirectedEdge(v2=a)
    same(h2.vertices, (None, a))
    check(h2.other(a) is None and h2.other(None) is a)
    h2.unlink_from(None)
    same(h2.vertices, (a,))
    h.unlink_from(None)
    same(h.vertices, (None,))
    h.unlink_from(None)
    same(h.vertices, ())
    h.unlink_from(None)
    same(h.vertices, ())
    h.unlink_from(a)
    same(h.vertices, ())

    # type checks of the constructors
    for cls in (TwoEndedLink, DirectedEdge, UnDirectedEdge):
        e1 = raises(TypeError, cls, 5, a)
        check(str(e1) == "v1 is not a Vertex object!  got 5", str(e1))
        e2 = raises(TypeError, cls, a, "x")
        check(str(e2) == "v2 is not a Vertex object!  got x", str(e2))
        e3 = raises(TypeError, cls, 5, "x")
        check(str(e3) == "v1 is not a Vertex object!  got 5", str(e3))
        raises(TypeError, cls, object(), a)
        raises(TypeError, cls, a, cls())
    e4 = raises(TypeError, Link)
    check(str(e4) == "Base class <Link> may not be instantiated directly!")
    same(a.links, (e, g, s, h2))

    # an edge given its own end attributes before it has ends
    raises(AttributeError, DirectedEdge, a, b, attributes={"v1": c})
    raises(AttributeError, UnDirectedEdge, a, b, attributes={"v2": c})
    same(c.links, ())


def a_hyper():
    a, b, c = Vertex(), SlotV(), Vertex()
    h = Hyper(vertices=[a, a, b, None, a, None, b])
    same(h.vertices, (a, a, b, None, a, None, b))
    same(a.links, (h,))
    same(b.links, (h,))
    h.unlink_from(c)
    same(h.vertices, (a, a, b, None, a, None, b))
    h.unlink_from(None)
    same(h.vertices, (a, a, b, a, None, b))
    h.unlink_from(a)
    same(h.vertices, (b, None, b))
    same(a.links, ())
    a.add_to_link(h)
    same(h.vertices, (b, None, b, a))
    a.add_to_link(h)
    same(h.vertices, (b, None, b, a))
    same(a.links, (h,))
    h.add_vertex(a)
    same(h.vertices, (b, None, b, a, a))
    same(a.links, (h,))
    b.remove_from_link(h)
    same(h.vertices, (None, a, a))
    same(b.links, ())
    b.remove_from_link(h)
    same(h.vertices, (None, a, a))
    h.add_vertex(None)
    same(h.vertices, (None, a, a, None))
    h.unlink_from(None)
    same(h.vertices, (a, a, None))
    prop_ok([a, b, c], [h])

    # the same link several times / generators / empty inputs
    h2 = Hyper(vertices=(x for x in (c, c)))
    v = Vertex(links=(x for x in (h, h2, h, h2)))
    same(v.links, (h, h2))
    same(h.vertices, (a, a, None, v))
    same(h2.vertices, (c, c, v))
    v0 = Vertex(links=iter(()))
    same(v0.links, ())
    same(Hyper(vertices=[]).vertices, ())
    same(Hyper().vertices, ())
    raises(TypeError, Vertex, links=0)
    raises(TypeError, Hyper, vertices=0)

    # a two-ended link may be grown, too
    e = DirectedEdge(a, b)
    e.add_vertex(c)
    same(e.vertices, (a, b, c))
    same(c.links, (h2, e))
    e.v1 = c
    same(e.vertices, (c, b, c))
    same(a.links, (h,))
    same(c.links, (h2, e))
    e.v1 = a
    same(e.vertices, (a, b, c))
    same(c.links, (h2, e))
    same(a.links, (h, e))
    e.unlink_from(b)
    same(e.vertices, (a, c))
    check(e.v2 is c)
    prop_ok([a, b, c, v, v0], [h, h2, e])


def a_iterables_that_raise():
    a, b = Vertex(), Vertex()

    def gen_v():
        yield a
        yield b
        yield a
        raise Stop("part-way")

    raises(Stop, Hyper, vertices=gen_v())
    check(len(a.links) == 1 and a.links[0] is b.links[0])
    half = a.links[0]
    check(type(half) is Hyper)
    same(half.vertices, (a, b, a))
    same(b.links, (half,))
    # the half-built link keeps working
    half.unlink_from(a)
    same(half.vertices, (b,))
    same(a.links, ())

    l1, l2 = Hyper(), Hyper(vertices=[a])

    def gen_l():
        yield l1
        yield l2
        yield l1
        raise KeyboardInterrupt()

    raises(KeyboardInterrupt, Vertex, links=gen_l())
    check(len(l1.vertices) == 1)
    nv = l1.vertices[0]
    same(nv.links, (l1, l2))
    same(l2.vertices, (a, nv))
    nv.remove_from_link(l1)
    same(l1.vertices, ())
    same(nv.links, (l2,))

    # an item of the wrong type part-way: the earlier ones stay attached
    raises(AttributeError, Vertex, links=[l1, 5])
    check(len(l1.vertices) == 1)
    same(l1.vertices[0].links, (l1, 5))
    raises(AttributeError, Hyper, vertices=[a, 5])
    check(a.links[-1].vertices == (a, 5))


class BoomV(Vertex):
    armed_add = False
    armed_remove = False

    def add_to_link(self, link):
        if self.armed_add:
            raise Stop("add")
        return super().add_to_link(link)

    def remove_from_link(self, link):
        if self.armed_remove:
            raise Stop("remove")
        return super().remove_from_link(link)


class BoomL(DirectedEdge):
    armed_add = False
    armed_unlink = False

    def add_vertex(self, new):
        if self.armed_add:
            raise Stop("addv")
        return super().add_vertex(new)

    def unlink_from(self, kill):
        if self.armed_unlink:
            raise Stop("unl")
        return super().unlink_from(kill)


def a_callbacks_that_raise():
    a, b, c = Vertex(), Vertex(), Vertex()
    boom = BoomV()
    boom.armed_add = True

    # constructor
    raises(Stop, DirectedEdge, a, boom)
    check(len(a.links) == 1)
    e0 = a.links[0]
    same(e0.vertices, (a, boom))
    same(boom.links, ())

    # end assignment: the old end is detached before the new one is attached
    e = DirectedEdge(a, b)
    raises(Stop, setattr, e, "v2", boom)
    same(e.vertices, (a, boom))
    same(b.links, ())
    same(boom.links, ())
    same(a.links, (e0, e))
    # ... and the edge can be repaired
    boom.armed_add = False
    boom.add_to_link(e)
    same(e.vertices, (a, boom))
    same(boom.links, (e,))
    boom.add_to_link(e0)
    same(boom.links, (e, e0))
    same(e0.vertices, (a, boom))

    # add_vertex
    boom2 = BoomV()
    boom2.armed_add = True
    raises(Stop, e.add_vertex, boom2)
    same(e.vertices, (a, boom, boom2))
    same(boom2.links, ())
    e.unlink_from(boom2)  # remove_from_link is a no-op on the vertex side
    same(e.vertices, (a, boom))

    # remove_from_link that raises
    boom.armed_remove = True
    raises(Stop, setattr, e, "v2", c)
    same(e.vertices, (a, c))
    same(boom.links, (e, e0))
    same(c.links, ())
    raises(Stop, e0.unlink_from, boom)
    same(e0.vertices, (a,))
    same(boom.links, (e, e0))
    boom.armed_remove = False
    boom.remove_from_link(e)
    boom.remove_from_link(e0)
    same(boom.links, ())
    same(e.vertices, (a, c))
    same(e0.vertices, (a,))
    c.add_to_link(e)
    same(c.links, (e,))
    same(e.vertices, (a, c))

    # links that raise
    p, q = Vertex(), Vertex()
    bl = BoomL(p, q)
    bl.armed_unlink = True
    raises(Stop, p.remove_from_link, bl)
    same(p.links, ())  # dropped on the vertex side before the link is told
    same(bl.vertices, (p, q))
    check(explicit.unlink(p, q) is None)  # p lists nothing
    raises(Stop, explicit.unlink, q, p)
    same(bl.vertices, (p, q))
    same(q.links, (bl,))
    bl.armed_unlink = False
    bl.armed_add = True
    p.add_to_link(bl)  # p is still listed by bl: add_vertex is not called
    same(p.links, (bl,))
    same(bl.vertices, (p, q))
    bl2 = BoomL()
    bl2.armed_add = True
    raises(Stop, c.add_to_link, bl2)
    same(c.links, (e, bl2))
    same(bl2.vertices, (None, None))
    raises(Stop, Vertex, links=[bl2])
    same(bl2.vertices, (None, None))


LOG = []
NAMES = {}


def nm(o):
    return NAMES.get(id(o), "?") if o is not None else None


class LogV(Vertex):
    def add_to_link(self, link):
        LOG.append(("add_to_link", nm(self), nm(link)))
        return super().add_to_link(link)

    def remove_from_link(self, link):
        LOG.append(("remove_from_link", nm(self), nm(link)))
        return super().remove_from_link(link)

    @property
    def links(self):
        LOG.append(("links", nm(self)))
        return Vertex.links.fget(self)


class LogE(DirectedEdge):
    def add_vertex(self, new):
        LOG.append(("add_vertex", nm(self), nm(new)))
        return super().add_vertex(new)

    def unlink_from(self, kill):
        LOG.append(("unlink_from", nm(self), nm(kill)))
        return super().unlink_from(kill)

    @property
    def vertices(self):
        LOG.append(("vertices", nm(self)))
        return Link.vertices.fget(self)


def take():
    out = list(LOG)
    del LOG[:]
    return out


# The public cross-calls, in order, for a handful of operations.  (Recorded
# with the library as shipped; a refactoring must not change what an overriding
# subclass gets to see.)
EXPECTED_LOGS = {
    "ctor": [
        ("add_vertex", "?", "a"),
        ("links", "a"),
        ("add_to_link", "a", "?"),
        ("vertices", "?"),
        ("add_vertex", "?", "b"),
        ("links", "b"),
        ("add_to_link", "b", "?"),
        ("vertices", "?"),
    ],
    "set_v2": [
        ("vertices", "e"),
        ("remove_from_link", "b", "e"),
        ("unlink_from", "e", "b"),
        ("links", "c"),
        ("add_to_link", "c", "e"),
        ("vertices", "e"),
    ],
    "set_v1_loop": [
        ("vertices", "e"),
        ("remove_from_link", "a", "e"),
        ("unlink_from", "e", "a"),
        ("links", "c"),
    ],
    "set_v1_none": [
        ("vertices", "e"),
    ],
    "set_v1_back": [
        ("vertices", "e"),
        ("links", "a"),
        ("add_to_link", "a", "e"),
        ("vertices", "e"),
    ],
    "v_add_again": [
        ("add_to_link", "a", "e"),
    ],
    "l_add_again": [
        ("add_vertex", "e", "a"),
        ("links", "a"),
    ],
    "unlink_from": [
        ("unlink_from", "e", "a"),
        ("remove_from_link", "a", "e"),
        ("unlink_from", "e", "a"),
    ],
    "unlink_from_absent": [
        ("unlink_from", "e", "b"),
    ],
    "v_add": [
        ("add_to_link", "b", "e"),
        ("vertices", "e"),
        ("add_vertex", "e", "b"),
        ("links", "b"),
    ],
    "v_remove": [
        ("remove_from_link", "c", "e"),
        ("unlink_from", "e", "c"),
        ("remove_from_link", "c", "e"),
    ],
    "v_remove_absent": [
        ("remove_from_link", "c", "e"),
    ],
    "probe_fails": [
        ("vertices", "e"),
    ],
}


def a_call_sequences(record=False):
    got = {}
    a, b, c = LogV(), LogV(), LogV()
    for n, o in (("a", a), ("b", b), ("c", c)):
        NAMES[id(o)] = n
    take()
    e = LogE(a, b)
    got["ctor"] = take()
    NAMES[id(e)] = "e"
    e.v2 = c
    got["set_v2"] = take()
    same(Link.vertices.fget(e), (a, c))
    e.v1 = c
    got["set_v1_loop"] = take()
    same(Link.vertices.fget(e), (c, c))
    e.v1 = None
    got["set_v1_none"] = take()
    same(Link.vertices.fget(e), (None, c))
    e.v1 = a
    got["set_v1_back"] = take()
    a.add_to_link(e)
    got["v_add_again"] = take()
    e.add_vertex(a)
    got["l_add_again"] = take()
    same(Link.vertices.fget(e), (a, c, a))
    e.unlink_from(a)
    got["unlink_from"] = take()
    same(Link.vertices.fget(e), (c,))
    e.unlink_from(b)
    got["unlink_from_absent"] = take()
    b.add_to_link(e)
    got["v_add"] = take()
    same(Link.vertices.fget(e), (c, b))
    c.remove_from_link(e)
    got["v_remove"] = take()
    same(Link.vertices.fget(e), (b,))
    c.remove_from_link(e)
    got["v_remove_absent"] = take()
    raises(IndexError, setattr, e, "v1", a)
    got["probe_fails"] = take()
    same(Link.vertices.fget(e), (b,))
    if record:
        import pprint

        pprint.pprint(got)
        return
    for key, exp in EXPECTED_LOGS.items():
        check(got[key] == exp, f"call sequence {key}: {got[key]!r} != {exp!r}")
    check(set(got) == set(EXPECTED_LOGS))


EQ_CALLS = []


class KeyedEdge(UnDirectedEdge):
    """Edges that compare equal when their ``key`` attributes do."""

    def __eq__(self, other):
        EQ_CALLS.append(1)
        return isinstance(other, KeyedEdge) and self.key == other.key

    def __hash__(self):
        return hash(self.key)


class NoHashEdge(DirectedEdge):
    """Has __eq__ but no __hash__."""

    def __eq__(self, other):
        return self is other


class KeyedV(Vertex):
    def __eq__(self, other):
        return isinstance(other, KeyedV) and self.key == other.key

    def __hash__(self):
        return hash(self.key)


def a_user_eq():
    # ``==``-equal links count as "the same link" for a vertex (documented as
    # is-comparison, implemented -- and kept -- as list membership)
    a, b = Vertex(), Vertex()
    e1 = KeyedEdge(a, b, attributes={"key": 1})
    del EQ_CALLS[:]
    e2 = KeyedEdge(a, b, attributes={"key": 1})
    n_ctor = len(EQ_CALLS)
    same(a.links, (e1,))
    same(e2.vertices, (a, b))
    e3 = KeyedEdge(a, b, attributes={"key": 3})
    same(a.links, (e1, e3))
    del EQ_CALLS[:]
    a.remove_from_link(e2)  # removes e1 (equal), then talks to e2
    n_rm = len(EQ_CALLS)
    same(a.links, (e3,))
    same(e2.vertices, (b,))
    same(e1.vertices, (a, b))
    del EQ_CALLS[:]
    a.remove_from_link(KeyedEdge(None, None, attributes={"key": 3}))
    same(a.links, ())
    check((n_ctor, n_rm) == EXPECTED_EQ_CALLS, f"__eq__ calls {(n_ctor, n_rm)}")

    # unhashable links work with everything but explicit.unlink
    n = NoHashEdge(a, b)
    same(a.links, (n,))
    n.v1 = b
    same(n.vertices, (b, b))
    same(a.links, ())
    raises(TypeError, explicit.unlink, b, b)
    same(n.vertices, (b, b))
    b.remove_from_link(n)
    same(n.vertices, ())

    # ==-equal vertices
    k1 = KeyedV(attributes={"key": 1})
    k1b = KeyedV(attributes={"key": 1})
    u = UnDirectedEdge(k1, b)
    u.unlink_from(k1b)  # "in" says yes, identity filter keeps k1
    same(u.vertices, (k1, b))
    same(k1.links, (u,))
    same(k1b.links, ())
    k1b.add_to_link(u)  # k1b "is in" u.vertices already: not appended
    same(u.vertices, (k1, b))
    same(k1b.links, (u,))
    u.v1 = k1b
    same(u.vertices, (k1b, b))
    same(k1.links, ())
    same(k1b.links, (u,))


EXPECTED_EQ_CALLS = (2, 3)


def a_attrs_and_slots():
    nan = float("nan")
    v = SlotV(
        attributes={
            "tag": 1,
            "weight": nan,
            "_hidden": 2,
            "v1": "x",
            "vertices": 3,
            "add_vertex": 4,
            "Ünï": 5,
        }
    )
    v.extra = 7
    v["class"] = 8
    e = SlotE(v, v, attributes={"w": nan, "links": 9, "_private": 10})
    e.w2 = 11
    pub = {k for k in vars(v) if not k.startswith("_")}
    check(
        pub == {"tag", "weight", "v1", "vertices", "add_vertex", "Ünï", "class"},
        f"public names of a vertex: {pub}",
    )
    check(vars(v)["_hidden"] == 2)
    pub = {k for k in vars(e) if not k.startswith("_")}
    check(pub == {"w", "links"}, f"public names of a link: {pub}")
    check(vars(e)["_private"] == 10 and e.links == 9 and v.vertices == 3)
    check(v.weight != v.weight and e["w"] != e["w"])
    same(v.links, (e,))
    same(e.vertices, (v, v))
    raises(AttributeError, Vertex, attributes={"links": 1})
    raises(AttributeError, DirectedEdge, attributes={"vertices": 1})
    for how in ROUNDTRIPS:
        v2, e2 = how((v, e))
        check(v2 is not v and e2 is not e)
        same(v2.links, (e2,))
        same(e2.vertices, (v2, v2))
        check(v2.extra == 7 and e2.w2 == 11 and v2["class"] == 8)
        check(
            {k for k in vars(v2) if not k.startswith("_")}
            == {"tag", "weight", "v1", "vertices", "add_vertex", "Ünï", "class"}
        )
        w = Vertex()
        e2.v1 = w
        same(e2.vertices, (w, v2))
        same(w.links, (e2,))
        same(v2.links, (e2,))
        e2.v2 = None
        same(v2.links, ())
        same(e2.vertices, (w, None))
        # the original is untouched
        same(v.links, (e,))
        same(e.vertices, (v, v))


def rt_pickle(obj):
    return pickle.loads(pickle.dumps(obj))


def rt_pickle2(obj):
    return pickle.loads(pickle.dumps(obj, protocol=2))


def rt_dill(obj):
    return dill.loads(dill.dumps(obj))


def rt_nr(obj):
    return pickle.loads(nrpickler.dumps(obj))


ROUNDTRIPS = (copy.deepcopy, rt_pickle, rt_pickle2, rt_dill, rt_nr)


def a_caching():
    FWD, ANY, BACK = (
        helpers.DIR_SENS_FORWARD,
        helpers.DIR_SENS_ANY,
        helpers.DIR_SENS_BACKWARD,
    )
    old = Vertex.NEIGHBOR_CACHING
    try:
        for caching in (True, False, True):
            Vertex.NEIGHBOR_CACHING = caching
            a, b, c, d = Vertex(), Vertex(), Vertex(), Vertex()
            e = DirectedEdge(a, b)
            same(helpers.neighbors(a), (b,))
            same(helpers.neighbors(a), (b,))
            same(helpers.neighbors(b, BACK), (a,))
            same(helpers.neighbors(b, BACK), (a,))
            e.v2 = c  # a's neighbours change although a's links do not
            same(helpers.neighbors(a), (c,))
            same(helpers.neighbors(b, BACK), ())
            same(helpers.neighbors(c, BACK), (a,))
            e.v1 = d
            same(helpers.neighbors(c, BACK), (d,))
            same(helpers.neighbors(a), ())
            same(helpers.neighbors(d), (c,))
            e.add_vertex(a)
            same(helpers.neighbors(a, ANY), (None,))
            e.unlink_from(d)
            same(e.vertices, (c, a))
            same(helpers.neighbors(a, ANY), (c,))
            same(helpers.neighbors(c), (a,))
            same(helpers.neighbors(c), (a,))
            got = helpers.neighbors(c)
            got.append(5)  # the caller owns the answer
            same(helpers.neighbors(c), (a,))
            u = UnDirectedEdge(c, c)
            same(helpers.neighbors(c), (a, c))
            u.v2 = None
            same(helpers.neighbors(c), (a, None))
            explicit.unlink(c, None)
            same(u.vertices, ())
            same(helpers.neighbors(c), (a,))
            explicit.unlink(a, c)
            same(helpers.neighbors(c), ())
            same(helpers.neighbors(a, ANY), ())
            # answers cached while enabled must not come back stale
            Vertex.NEIGHBOR_CACHING = True
            x, y, z = Vertex(), Vertex(), Vertex()
            f = DirectedEdge(x, y)
            same(helpers.neighbors(x), (y,))
            Vertex.NEIGHBOR_CACHING = False
            f.v2 = z
            Vertex.NEIGHBOR_CACHING = True
            same(helpers.neighbors(x), (z,))
            for how in ROUNDTRIPS:
                x2, y2, z2, f2 = how((x, y, z, f))
                same(helpers.neighbors(x2), (z2,))
                f2.v2 = y2
                same(helpers.neighbors(x2), (y2,))
                same(helpers.neighbors(x), (z,))
    finally:
        Vertex.NEIGHBOR_CACHING = old


def a_explicit():
    a, b, c = Vertex(), Vertex(), Vertex()
    e1 = explicit.link_directed(a, b)
    e2 = explicit.link_undirected(b, a)
    e3 = explicit.link_from_to(a, SlotE, b)
    check(type(e1) is DirectedEdge and type(e2) is UnDirectedEdge)
    check(explicit.link_directed(b, a, dontdup=True) is e1)
    check(explicit.link_undirected(a, b, dontdup=True) is e1)
    e4 = explicit.link_directed(a, a, dontdup=True)
    check(explicit.link_directed(a, a, dontdup=True) is e4)
    e5 = explicit.link_directed(a, c, dontdup=True)
    e6 = explicit.link_directed(c, None)
    same(a.links, (e1, e2, e3, e4, e5))
    got = explicit.unlink(b, a, destroy=False)
    check(type(got) is set and got == {e1, e2, e3})
    same(a.links, (e4, e5))
    same(b.links, ())
    for e in (e1, e2, e3):
        same(e.vertices, ())
    check(explicit.unlink(b, a, destroy=False) == set())
    check(explicit.unlink(a, a) is None)
    same(e4.vertices, ())
    same(a.links, (e5,))
    check(explicit.unlink(c, None, destroy=0) == {e6})
    same(e6.vertices, ())
    same(c.links, (e5,))
    # an edge that lost an end stops unlink before anything is changed
    e7 = explicit.link_directed(a, b)
    e5.unlink_from(c)
    same(a.links, (e5, e7))
    raises(IndexError, explicit.unlink, a, b)
    same(a.links, (e5, e7))
    same(e7.vertices, (a, b))
    check(explicit.unlink(b, a) is None)
    same(a.links, (e5,))
    raises(AttributeError, explicit.unlink, None, a)
    h = Hyper(vertices=[a])
    raises(IndexError, explicit.unlink, a, b)
    a.remove_from_link(e5)
    raises(AttributeError, explicit.unlink, a, b)
    same(a.links, (h,))
    prop_ok([a, b, c], [e1, e2, e3, e4, e5, e6, e7, h])


def a_long_lists():
    rng = random.Random(77)
    vs = [Vertex(attributes={"tag": i}) for i in range(7)]
    pattern = [rng.choice(vs + [None]) for _ in range(1500)]
    h = Hyper(vertices=iter(pattern))
    model = list(pattern)
    same(h.vertices, model)
    for v in vs:
        same(v.links, (h,))
    order = vs + [None] * 5
    rng.shuffle(order)
    for kill in order:
        h.unlink_from(kill)
        if kill is None:
            if None in model:
                model.remove(None)
        else:
            model = [x for x in model if x is not kill]
            same(kill.links, ())
        same(h.vertices, model)
        prop_ok(vs, [h])
        # put it back at the end, twice
        if kill is not None and rng.random() < 0.5:
            kill.add_to_link(h)
            h.add_vertex(kill)
            model += [kill, kill]
            same(h.vertices, model)
            same(kill.links, (h,))

    # a vertex whose number of links goes up and down past a few hundred
    hub, far = Vertex(), Vertex()
    edges = []
    for rnd in range(3):
        for i in range(600):
            cls = (DirectedEdge, UnDirectedEdge)[i % 2]
            edges.append(cls(hub, far) if i % 3 else cls(far, hub))
        same(hub.links, edges)
        same(far.links, edges)
        doomed = edges[rnd::2]
        for e in doomed:
            if rng.random() < 0.5:
                hub.remove_from_link(e)
                same(e.vertices, (far,))
            else:
                e.unlink_from(hub)
            e.unlink_from(far)
            same(e.vertices, ())
        gone = {id(d) for d in doomed}
        edges = [e for e in edges if id(e) not in gone]
        same(hub.links, edges)
        same(far.links, edges)
    check(explicit.unlink(far, hub) is None)
    same(hub.links, ())
    same(far.links, ())
    for e in edges:
        same(e.vertices, ())


def a_universe():
    u = Universe()
    a = Vertex(universes=[u])
    b = Vertex(universes=[u, u])
    e = DirectedEdge(a, b)
    for how in ROUNDTRIPS:
        u2 = how(u)
        a2, b2 = u2.vertices
        check(a2 is not a)
        (e2,) = a2.links
        same(e2.vertices, (a2, b2))
        c2 = Vertex(universes=[u2], links=[e2])
        same(e2.vertices, (a2, b2, c2))
        e2.v1 = c2
        same(e2.vertices, (c2, b2, c2))
        same(a2.links, ())
        same(c2.links, (e2,))
        explicit.unlink(c2, b2)
        same(e2.vertices, ())
        same(e.vertices, (a, b))
        same(a.links, (e,))
        check(len(u.vertices) == 2 and len(u2.vertices) == 3)


# ---------------------------------------------------------------------------
# Part B: seeded random differential run
# ---------------------------------------------------------------------------

FWD, ANY, BACK = (
    helpers.DIR_SENS_FORWARD,
    helpers.DIR_SENS_ANY,
    helpers.DIR_SENS_BACKWARD,
)
U_NON, U_NB, U_ERR = (
    helpers.LNK_UNKNOWN_NONNEIGHBOR,
    helpers.LNK_UNKNOWN_NEIGHBOR,
    helpers.LNK_UNKNOWN_ERROR,
)


def ff_true(e, v2):
    return True


def ff_even(e, v2):
    return v2 is not None and v2.tag % 2 == 0


def ff_obj(e, v2):
    # an arbitrary object as a verdict
    return [] if v2 is None else [v2]


FILTERS = (None, ff_true, ff_even, ff_obj)

LINK_CLASSES = {
    "D": DirectedEdge,
    "U": UnDirectedEdge,
    "S": SlotE,
    "T": TwoEndedLink,
    "B": BoomL,  # never armed here: a plain DirectedEdge subclass
}


class Model:
    """
    The documented behaviour on integer handles.  ``links[v]`` is the ordered
    list of link handles of vertex ``v``; ``ends[l]`` the ordered list of
    vertex handles (or None) of link ``l``.
    """

    def __init__(self):
        self.links = []
        self.ends = []
        self.kind = []
        self.cache = []  # per vertex: {key: answer}
        self.caching = False
        self.size = 0
        self.hits = 0
        self.misses = 0
        self.inv = 0
        self.ins = 0

    # -- neighbour cache bookkeeping --------------------------------------
    def touch(self, v):
        self.cache[v] = {}
        if self.caching:
            self.inv += 1

    def touch_ends(self, l):
        for x in self.ends[l]:
            if x is not None:
                self.touch(x)

    # -- construction ------------------------------------------------------
    def new_vertex(self, links=()):
        v = len(self.links)
        self.links.append([])
        self.cache.append({})
        self.size += 1
        for l in links:
            self.add_to_link(v, l)
        return v

    def new_link(self, kind, ends):
        l = len(self.ends)
        self.ends.append([])
        self.kind.append(kind)
        for x in ends:
            self.add_vertex(l, x)
        return l

    # -- the four primitives -------------------------------------------------
    def add_vertex(self, l, x):
        self.ends[l].append(x)
        self.touch_ends(l)
        if x is not None and l not in self.links[x]:
            self.links[x].append(l)
            self.touch(x)

    def add_to_link(self, v, l):
        if l not in self.links[v]:
            self.links[v].append(l)
            if v not in self.ends[l]:
                self.ends[l].append(v)
                self.touch_ends(l)
        self.touch(v)

    def unlink_from(self, l, x):
        if x not in self.ends[l]:
            return
        self.touch_ends(l)
        if x is None:
            self.ends[l].remove(None)
            return
        self.ends[l] = [y for y in self.ends[l] if y != x]
        if l in self.links[x]:
            self.links[x].remove(l)
        self.touch(x)

    def remove_from_link(self, v, l):
        if l in self.links[v]:
            self.links[v].remove(l)
            if v in self.ends[l]:
                self.touch_ends(l)
                self.ends[l] = [y for y in self.ends[l] if y != v]
                self.touch(v)
        self.touch(v)

    # -- two-ended links ------------------------------------------------------
    def get_end(self, l, idx):
        return self.ends[l][idx]  # IndexError just like the library

    def set_end(self, l, idx, new):
        if len(self.ends[l]) < 2:
            raise IndexError
        old = self.ends[l][idx]
        self.touch_ends(l)
        self.ends[l][idx] = new
        self.touch_ends(l)
        if old is not None and old not in self.ends[l]:
            if l in self.links[old]:
                self.links[old].remove(l)
            self.touch(old)
        if new is not None and l not in self.links[new]:
            self.links[new].append(l)
            self.touch(new)

    def other(self, l, v):
        if self.kind[l] == "H":
            raise AttributeError
        ends = self.ends[l]
        if len(ends) < 2:
            raise IndexError
        if ends[0] == v:
            return ends[1]
        if ends[1] == v:
            return ends[0]
        return None

    # -- builder.explicit -----------------------------------------------------
    def find_between(self, a, b):
        if a is None:
            raise AttributeError
        return [l for l in list(self.links[a]) if self.other(l, a) == b]

    def unlink(self, a, b):
        found = self.find_between(a, b)
        for l in found:
            self.unlink_from(l, a)
            self.unlink_from(l, b)
        return found

    def link_from_to(self, a, kind, b, dontdup):
        if dontdup:
            for l in self.links[a]:
                if self.other(l, a) == b:
                    return l, False
        return self.new_link(kind, [a, b]), True

    # -- traversal.helpers.neighbors -----------------------------------------
    def neighbors(self, v, ds, uh, ff):
        key = (ds, uh, ff)
        if self.caching:
            if key in self.cache[v]:
                self.hits += 1
                return list(self.cache[v][key])
            self.misses += 1
        out = []
        for l in self.links[v]:
            w = self.other(l, v)
            kind = self.kind[l]
            ends = self.ends[l]
            undirected = kind in ("U", "S")
            directed = kind in ("D", "B")
            if ds == ANY:
                take_it = True
            else:
                near, far = (0, 1) if ds == FWD else (1, 0)
                if undirected:
                    take_it = True
                elif directed and ends[near] == v:
                    take_it = True
                elif directed and ends[far] == v:
                    take_it = False
                elif uh == U_NON:
                    take_it = False
                elif uh == U_NB:
                    take_it = True
                else:
                    raise NotImplementedError
            if take_it and (ff is None or self.verdict(ff, w)):
                out.append(w)
        if self.caching:
            self.cache[v][key] = list(out)
            self.ins += 1
        return out

    @staticmethod
    def verdict(ff, w):
        if ff is ff_true:
            return True
        if ff is ff_even:
            return w is not None and w % 2 == 0
        return w is not None  # ff_obj: [] is falsy, [v2] truthy


def parse_stats():
    text = Vertex.total_cache_stats()
    if not Vertex.NEIGHBOR_CACHING:
        check(text == "Neighbor caching is DISABLED", text)
        return None
    lines = text.split("\n")
    check(lines[0] == "=== CACHE STATISTICS OVERALL ===", text)
    names = [ln.split(":")[0] for ln in lines[1:]]
    check(
        names == ["Size", "Hits", "Misses", "Invalidations", "Insertions"], text
    )
    return [int(ln.split(":")[1]) for ln in lines[1:]]


class World:
    V_CLASSES = (Vertex, SlotV)
    HYPER = Hyper

    def __init__(self, rng):
        self.rng = rng
        self.m = Model()
        self.V = []
        self.L = []
        self.uni = Universe()
        Vertex.NEIGHBOR_CACHING = True
        self.base = parse_stats()
        self.m.caching = True

    # -- helpers --------------------------------------------------------------
    def vid(self, obj):
        if obj is None:
            return None
        for i, v in enumerate(self.V):
            if v is obj:
                return i
        raise AssertionError(f"foreign vertex {obj!r}")

    def lid(self, obj):
        for i, l in enumerate(self.L):
            if l is obj:
                return i
        raise AssertionError(f"foreign link {obj!r}")

    def rv(self, none_ok=True):
        if none_ok and self.rng.random() < 0.15:
            return None
        return self.rng.randrange(len(self.V))

    def rl(self, kinds=None):
        cand = [
            i
            for i in range(len(self.L))
            if kinds is None or self.m.kind[i] in kinds
        ]
        return self.rng.choice(cand) if cand else None

    def obj_v(self, i):
        return None if i is None else self.V[i]

    def both(self, real, model):
        """Run both; results / exception classes must agree."""
        r_exc = m_exc = None
        r_val = m_val = None
        try:
            m_val = model()
        except (IndexError, AttributeError, NotImplementedError, TypeError) as e:
            m_exc = type(e)
        try:
            r_val = real()
        except BaseException as e:  # pylint: disable=broad-except
            r_exc = type(e)
        check(r_exc is m_exc, f"exception {r_exc} vs model {m_exc}")
        return r_val, m_val, r_exc

    # -- full comparison ------------------------------------------------------
    def compare(self):
        m = self.m
        check(len(self.V) == len(m.links) and len(self.L) == len(m.ends))
        for i, v in enumerate(self.V):
            got = [self.lid(x) for x in v.links]
            check(got == m.links[i], f"links of v{i}: {got} != {m.links[i]}")
            check(v.tag == i)
        for j, l in enumerate(self.L):
            got = [self.vid(x) for x in l.vertices]
            check(got == m.ends[j], f"ends of l{j}: {got} != {m.ends[j]}")
            if m.kind[j] != "H":
                for idx, name in ((0, "v1"), (1, "v2")):
                    r, mm, exc = self.both(
                        lambda l=l, name=name: getattr(l, name),
                        lambda j=j, idx=idx: m.get_end(j, idx),
                    )
                    if exc is None:
                        check(self.vid(r) == mm, f"{name} of l{j}")
        prop_ok(self.V, self.L)
        stats = parse_stats()
        if stats is not None:
            delta = [a - b for a, b in zip(stats, self.base)]
            exp = [m.size, m.hits, m.misses, m.inv, m.ins]
            check(delta == exp, f"cache statistics {delta} != {exp}")
        check(sorted(self.vid(x) for x in self.uni.vertices) == self.in_uni())

    def in_uni(self):
        return [i for i in range(len(self.V)) if i % 3 == 0]

    # -- operations -----------------------------------------------------------
    def op_new_vertex(self):
        n = self.rng.randrange(0, 4)
        ls = [self.rl() for _ in range(n)] if self.L else []
        ls = [x for x in ls if x is not None]
        i = len(self.V)
        cls = self.V_CLASSES[self.rng.random() < 0.3]
        arg = [self.L[x] for x in ls]
        if self.rng.random() < 0.5:
            arg = (x for x in arg)
        kw = {"links": arg} if (ls or self.rng.random() < 0.5) else {}
        if i % 3 == 0:
            kw["universes"] = [self.uni]
        v = cls(attributes={"tag": i, "w": float("nan")}, **kw)
        self.V.append(v)
        check(self.m.new_vertex(ls) == i)

    def op_new_edge(self):
        kind = self.rng.choice("DDUUSTB")
        a, b = self.rv(), self.rv()
        how = self.rng.randrange(3)
        cls = LINK_CLASSES[kind]
        if how == 0 or a is None:
            e = cls(self.obj_v(a), self.obj_v(b), attributes={"w": len(self.L)})
        elif how == 1:
            e = explicit.link_from_to(self.V[a], cls, self.obj_v(b))
        else:
            dd = self.rng.random() < 0.6
            fn = {
                "D": explicit.link_directed,
                "U": explicit.link_undirected,
            }.get(kind)
            if fn is None:
                real = lambda: explicit.link_from_to(
                    self.V[a], cls, self.obj_v(b), dontdup=dd
                )
            else:
                real = lambda: fn(self.V[a], self.obj_v(b), dontdup=dd)
            n_before = len(self.m.ends)
            r, mm, exc = self.both(
                real, lambda: self.m.link_from_to(a, kind, b, dd)
            )
            if exc is not None:
                return
            l, fresh = mm
            if fresh:
                check(type(r) is cls)
                self.L.append(r)
                check(l == n_before)
            else:
                check(r is self.L[l], "dontdup returned another link")
            return
        self.L.append(e)
        self.m.new_link(kind, [a, b])

    def op_new_hyper(self):
        n = self.rng.randrange(0, 6)
        ends = [self.rv() for _ in range(n)]
        arg = [self.obj_v(x) for x in ends]
        if self.rng.random() < 0.5:
            arg = iter(arg)
        kw = {"vertices": arg} if (n or self.rng.random() < 0.5) else {}
        self.L.append(self.HYPER(**kw))
        self.m.new_link("H", ends)

    def op_set_end(self):
        j = self.rl("DUSTB")
        if j is None:
            return
        idx = self.rng.randrange(2)
        new = self.rv()
        if self.rng.random() < 0.3 and self.m.ends[j]:
            new = self.rng.choice(self.m.ends[j])  # aliasing
        name = ("v1", "v2")[idx]
        self.both(
            lambda: setattr(self.L[j], name, self.obj_v(new)),
            lambda: self.m.set_end(j, idx, new),
        )

    def op_add_vertex(self):
        j = self.rl()
        if j is None:
            return
        x = self.rv()
        check(self.L[j].add_vertex(self.obj_v(x)) is None)
        self.m.add_vertex(j, x)

    def op_unlink_from(self):
        j = self.rl()
        if j is None:
            return
        x = self.rv()
        if self.rng.random() < 0.6 and self.m.ends[j]:
            x = self.rng.choice(self.m.ends[j])
        check(self.L[j].unlink_from(self.obj_v(x)) is None)
        self.m.unlink_from(j, x)

    def op_add_to_link(self):
        j = self.rl()
        if j is None:
            return
        v = self.rv(False)
        check(self.V[v].add_to_link(self.L[j]) is None)
        self.m.add_to_link(v, j)

    def op_remove_from_link(self):
        j = self.rl()
        if j is None:
            return
        v = self.rv(False)
        if self.rng.random() < 0.6 and self.m.links[v]:
            j = self.rng.choice(self.m.links[v])
        check(self.V[v].remove_from_link(self.L[j]) is None)
        self.m.remove_from_link(v, j)

    def op_unlink(self):
        a = self.rv(self.rng.random() < 0.1)
        b = self.rv()
        if a is not None and self.rng.random() < 0.6 and self.m.links[a]:
            ends = self.m.ends[self.rng.choice(self.m.links[a])]
            if ends:
                b = self.rng.choice(ends)
        destroy = self.rng.choice([True, False, True, 0, 1, None, "yes"])
        kw = {} if destroy is True and self.rng.random() < 0.5 else {"destroy": destroy}
        r, mm, exc = self.both(
            lambda: explicit.unlink(self.obj_v(a), self.obj_v(b), **kw),
            lambda: self.m.unlink(a, b),
        )
        if exc is None:
            if destroy:
                check(r is None)
            else:
                check(type(r) is set)
                check(sorted(self.lid(x) for x in r) == sorted(mm))

    def op_neighbors(self):
        v = self.rv(False)
        ds = self.rng.choice([FWD, ANY, BACK])
        uh = self.rng.choice([U_NON, U_NB, U_ERR])
        ff = self.rng.choice(FILTERS)
        args = [ds, uh, ff]
        while args and self.rng.random() < 0.3:
            args.pop()
        full = args + [FWD, U_ERR, None][len(args) :]
        r, mm, exc = self.both(
            lambda: helpers.neighbors(self.V[v], *args),
            lambda: self.m.neighbors(v, *full),
        )
        if exc is None:
            check(type(r) is list)
            got = [self.vid(x) for x in r]
            check(got == mm, f"neighbors of v{v} {full}: {got} != {mm}")

    def op_toggle(self):
        new = not Vertex.NEIGHBOR_CACHING
        Vertex.NEIGHBOR_CACHING = new
        self.m.caching = new

    def op_roundtrip(self):
        how = self.rng.choice(ROUNDTRIPS)
        old_v, old_l = list(self.V), list(self.L)
        before_v = [v.links for v in old_v]
        before_l = [l.vertices for l in old_l]
        self.uni, self.V, self.L = how((self.uni, self.V, self.L))
        for o, n in zip(old_v + old_l, self.V + self.L):
            check(o is not n and type(o) is type(n))
        # the originals are left alone by the round trip ...
        for v, was in zip(old_v, before_v):
            same(v.links, was)
        for l, was in zip(old_l, before_l):
            same(l.vertices, was)
        # ... and by whatever happens to the copy afterwards (checked at the
        # end of the run)
        self.graveyard.append((old_v, before_v, old_l, before_l))

    graveyard = None

    OPS = (
        (op_new_vertex, 4),
        (op_new_edge, 10),
        (op_new_hyper, 3),
        (op_set_end, 14),
        (op_add_vertex, 6),
        (op_unlink_from, 8),
        (op_add_to_link, 6),
        (op_remove_from_link, 8),
        (op_unlink, 7),
        (op_neighbors, 16),
        (op_toggle, 2),
        (op_roundtrip, 1),
    )

    def run(self, steps):
        self.graveyard = []
        ops = [op for op, w in self.OPS for _ in range(w)]
        for _ in range(3):
            self.op_new_vertex()
        self.compare()
        for _ in range(steps):
            op = self.rng.choice(ops)
            if len(self.V) > 9 and op is World.op_new_vertex:
                continue
            if len(self.L) > 14 and op in (
                World.op_new_edge,
                World.op_new_hyper,
            ):
                op = World.op_unlink
            op(self)
            self.compare()
        for old_v, before_v, old_l, before_l in self.graveyard:
            for v, was in zip(old_v, before_v):
                same(v.links, was)
            for l, was in zip(old_l, before_l):
                same(l.vertices, was)


def part_b(n_seeds, n_steps):
    old = Vertex.NEIGHBOR_CACHING
    try:
        for seed in range(n_seeds):
            World(random.Random(1000 + seed)).run(n_steps)
    finally:
        Vertex.NEIGHBOR_CACHING = old


# ---------------------------------------------------------------------------


SCRIPTED = (
    a_basic,
    a_hyper,
    a_iterables_that_raise,
    a_callbacks_that_raise,
    a_call_sequences,
    a_user_eq,
    a_attrs_and_slots,
    a_caching,
    a_explicit,
    a_long_lists,
    a_universe,
)


def in_thread(fn, *args):
    box = []

    def runner():
        try:
            fn(*args)
        except BaseException as e:  # pylint: disable=broad-except
            box.append(e)

    t = threading.Thread(target=runner)
    t.start()
    t.join()
    if box:
        raise box[0]


def main(argv):
    if "--record" in argv:
        a_call_sequences(record=True)
        return 0
    n_seeds = int(argv[1]) if len(argv) > 1 else 40
    n_steps = int(argv[2]) if len(argv) > 2 else 220
    for caching in (False, True):
        Vertex.NEIGHBOR_CACHING = caching
        for fn in SCRIPTED:
            fn()
            in_thread(fn)
    Vertex.NEIGHBOR_CACHING = False
    part_b(n_seeds, n_steps)
    in_thread(part_b, 3, 120)
    check(Vertex.NEIGHBOR_CACHING is False)
    print(f"equiv.py: OK ({len(SCRIPTED)} scripted groups x2x2, "
          f"{n_seeds} seeds x {n_steps} steps)")
    return 0


if __name__ == "__main__":
    # Run under a proper module name: dill (and hence nrpickler) pickles
    # classes and functions of ``__main__`` by value, which would hand back
    # *copies* of the helper classes above after a round trip.
    import importlib.util
    import os

    _spec = importlib.util.spec_from_file_location(
        "c01_equiv", os.path.abspath(__file__)
    )
    _mod = importlib.util.module_from_spec(_spec)
    sys.modules["c01_equiv"] = _mod
    _spec.loader.exec_module(_mod)
    sys.exit(_mod.main(sys.argv))
