#!/usr/bin/env python3
# -*- coding: utf-8 -*-
"""
Equivalence / conformance check for edgegraph.traversal.helpers.neighbors()
(property C04: neighbors() follows exactly the documented direction /
unknown-type / filter rules) and TwoEndedLink.other().

Only the public API is used.  Exit status 0 <=> everything is as the property
statement and the documented behaviour demand.

  PYTHONPATH=<worktree> python equiv.py
"""

import pickle
import random
import sys

from edgegraph.structure import (
    Vertex,
    Link,
    TwoEndedLink,
    DirectedEdge,
    UnDirectedEdge,
    Universe,
)
from edgegraph.builder import explicit
from edgegraph.traversal import helpers, breadthfirst, depthfirst
from edgegraph.traversal.helpers import (
    neighbors,
    DIR_SENS_FORWARD as FWD,
    DIR_SENS_ANY as ANY,
    DIR_SENS_BACKWARD as BWD,
    LNK_UNKNOWN_NONNEIGHBOR as U_NON,
    LNK_UNKNOWN_NEIGHBOR as U_NB,
    LNK_UNKNOWN_ERROR as U_ERR,
)

SEED = 40401
CHECKS = 0


def check(cond, msg):
    global CHECKS
    CHECKS += 1
    if not cond:
        raise AssertionError(msg)


# --------------------------------------------------------------------------
# classes used by the scenarios (module level so that they pickle)
# --------------------------------------------------------------------------


class SubVertex(Vertex):
    pass


class SubDir(DirectedEdge):
    pass


class SubSubDir(SubDir):
    pass


class SubUnd(UnDirectedEdge):
    pass


class SubTwo(TwoEndedLink):
    pass


class BothUD(UnDirectedEdge, DirectedEdge):
    """undirected wins: that test comes first"""


class BothDU(DirectedEdge, UnDirectedEdge):
    """undirected still wins"""


class Liar(TwoEndedLink):
    """claims (via __class__) to be a DirectedEdge; its type says otherwise"""

    @property
    def __class__(self):
        return DirectedEdge


class Reversed(DirectedEdge):
    """a directed edge whose public v1/v2 are swapped"""

    @property
    def v1(self):
        return self.vertices[1]

    @property
    def v2(self):
        return self.vertices[0]


TRACE = []


class TracedDir(DirectedEdge):
    """records every public access neighbors() makes on it"""

    def _g1(self):
        TRACE.append("v1")
        return DirectedEdge.v1.fget(self)

    def _g2(self):
        TRACE.append("v2")
        return DirectedEdge.v2.fget(self)

    v1 = property(_g1, DirectedEdge.v1.fset)
    v2 = property(_g2, DirectedEdge.v2.fset)

    def other(self, end):
        TRACE.append("other")
        return super().other(end)


class TracedUnd(UnDirectedEdge):
    def _g1(self):
        TRACE.append("v1")
        return UnDirectedEdge.v1.fget(self)

    def _g2(self):
        TRACE.append("v2")
        return UnDirectedEdge.v2.fget(self)

    v1 = property(_g1, UnDirectedEdge.v1.fset)
    v2 = property(_g2, UnDirectedEdge.v2.fset)

    def other(self, end):
        TRACE.append("other")
        return super().other(end)


class TracedTwo(TwoEndedLink):
    def _g1(self):
        TRACE.append("v1")
        return TwoEndedLink.v1.fget(self)

    def _g2(self):
        TRACE.append("v2")
        return TwoEndedLink.v2.fget(self)

    v1 = property(_g1, TwoEndedLink.v1.fset)
    v2 = property(_g2, TwoEndedLink.v2.fset)

    def other(self, end):
        TRACE.append("other")
        return super().other(end)


class Boom(Exception):
    pass


class CountingTruth:
    """filter verdict whose truth value is asked for exactly once"""

    def __init__(self, val):
        self.val = val
        self.asked = 0

    def __bool__(self):
        self.asked += 1
        return self.val


# --------------------------------------------------------------------------
# the oracle: written from the property statement, on Link.vertices only
# --------------------------------------------------------------------------


def eq_or(value, *consts):
    """first constant that ``value`` equals (documented ints; == semantics)"""
    for c in consts:
        try:
            if value == c:
                return c
        except Exception:  # pragma: no cover
            raise
    return None


def oracle(v, direction=FWD, unknown=U_ERR, filterfunc=None):
    out = []
    for e in v.links:
        ends = e.vertices
        if len(ends) < 2:
            # a "two-ended" link that lost an end has no opposite end
            raise IndexError("missing end")
        # opposite end, by identity
        if v is ends[0]:
            far = ends[1]
        elif v is ends[1]:
            far = ends[0]
        else:
            far = None

        d = eq_or(direction, FWD, BWD, ANY)
        if d is None:
            raise ValueError("direction")

        cls = type(e)
        if d == ANY:
            take = True
        elif issubclass(cls, UnDirectedEdge):
            take = True
        elif issubclass(cls, DirectedEdge) and (
            (d == FWD and ends[0] is v) or (d == BWD and ends[1] is v)
        ):
            # leaves v (forward) / enters v (backward); self-loops do both
            take = True
        elif issubclass(cls, DirectedEdge) and (ends[0] is v or ends[1] is v):
            take = False
        else:
            u = eq_or(unknown, U_NON, U_NB)
            if u is None:
                raise NotImplementedError("unknown link class")
            take = u == U_NB

        if take and (filterfunc is None or filterfunc(e, far)):
            out.append(far)
    return out


def same_list(a, b):
    return (
        isinstance(a, list)
        and isinstance(b, list)
        and len(a) == len(b)
        and all(x is y for x, y in zip(a, b))
    )


TALLY = {}


def attempt(fn, *args, **kw):
    try:
        out = ("ok", fn(*args, **kw))
    except Exception as exc:  # noqa
        out = ("exc", type(exc))
    if fn is neighbors:
        key = out[1].__name__ if out[0] == "exc" else "ok"
        TALLY[key] = TALLY.get(key, 0) + 1
    return out


def same_outcome(real, want):
    if real[0] != want[0]:
        return False
    if real[0] == "exc":
        return real[1] is want[1]
    return same_list(real[1], want[1])


def cache_stats():
    txt = Vertex.total_cache_stats()
    if "DISABLED" in txt:
        return None
    out = {}
    for line in txt.splitlines()[1:]:
        key, val = line.split(":")
        out[key.strip()] = int(val)
    return out


def delta(before, after):
    return tuple(
        after[k] - before[k] for k in ("Hits", "Misses", "Insertions")
    )


def both_modes(fn):
    """run a scenario with NEIGHBOR_CACHING off and on"""
    old = Vertex.NEIGHBOR_CACHING
    try:
        for mode in (False, True):
            Vertex.NEIGHBOR_CACHING = mode
            fn(mode)
    finally:
        Vertex.NEIGHBOR_CACHING = old


def agree(v, direction=FWD, unknown=U_ERR, decide=None, msg=""):
    """
    compare neighbors() with the oracle, including the exact sequence of
    filter calls.  ``decide`` is a pure (edge, far) -> verdict function; a
    fresh wrapper is used per call so the cache can never answer.
    """
    if decide is None:
        real = attempt(neighbors, v, direction, unknown, None)
        want = attempt(oracle, v, direction, unknown, None)
        check(same_outcome(real, want), f"{msg}: {real} != {want}")
        return real
    rlog, wlog = [], []

    def rf(e, w):
        rlog.append((e, w))
        return decide(e, w)

    def wf(e, w):
        wlog.append((e, w))
        return decide(e, w)

    real = attempt(neighbors, v, direction, unknown, rf)
    want = attempt(oracle, v, direction, unknown, wf)
    check(same_outcome(real, want), f"{msg}: {real} != {want}")
    check(
        len(rlog) == len(wlog)
        and all(a[0] is b[0] and a[1] is b[1] for a, b in zip(rlog, wlog)),
        f"{msg}: filter calls differ {rlog} {wlog}",
    )
    return real


DIRS = [FWD, ANY, BWD]
UNKS = [U_NON, U_NB, U_ERR]


def sweep(verts, msg, decide=None):
    for v in verts:
        for d in DIRS + [True, False, 2.0, 1.0, 3, -1, None, "0"]:
            for u in UNKS + [True, False, 1.0, 7, None]:
                agree(v, d, u, decide, f"{msg} d={d!r} u={u!r}")


# --------------------------------------------------------------------------
# scripted corner cases
# --------------------------------------------------------------------------


def sc_docs_example(mode):
    v1, v2, v3, v4 = (Vertex(attributes={"i": i}) for i in (1, 2, 3, 4))
    explicit.link_directed(v1, v2)
    explicit.link_directed(v1, v3)
    explicit.link_directed(v2, v3)
    explicit.link_directed(v3, v4)
    explicit.link_directed(v4, v1)
    check(same_list(neighbors(v1), [v2, v3]), "doc 1")
    check(same_list(neighbors(v1, direction_sensitive=ANY), [v2, v3, v4]), "doc 2")
    check(same_list(neighbors(v4), [v1]), "doc 3")
    check(same_list(neighbors(v4, direction_sensitive=ANY), [v3, v1]), "doc 4")
    check(same_list(neighbors(v4, BWD), [v3]), "doc 5")
    check(
        same_list(neighbors(v1, filterfunc=lambda e, v2: v2.i >= 3), [v3]),
        "doc 6",
    )
    # keyword spelling of every argument
    check(
        same_list(
            neighbors(
                vert=v3,
                direction_sensitive=BWD,
                unknown_handling=U_NON,
                filterfunc=None,
            ),
            [v1, v2],
        ),
        "doc 7",
    )
    sweep([v1, v2, v3, v4], "docs")


def sc_empty(mode):
    v = Vertex()
    for d in DIRS + [99, None, "x", -1, 2.5]:
        for u in UNKS + [99, None]:
            r = neighbors(v, d, u)
            check(r == [] and isinstance(r, list), "empty vertex gives []")
            r2 = neighbors(v, d, u, lambda e, w: 1 / 0)
            check(r2 == [], "empty vertex never calls the filter")
    if not mode:
        # unhashable options are only a problem for the cache
        check(neighbors(v, [0]) == [], "unhashable direction, no links")
        check(neighbors(v, FWD, [0]) == [], "unhashable unknown, no links")
    else:
        check(attempt(neighbors, v, [0]) == ("exc", TypeError), "unhashable/cache")


def sc_kinds(mode):
    a, b, c, d, e_, f = (Vertex() for _ in range(6))
    s = SubVertex()
    l1 = DirectedEdge(a, b)
    l2 = DirectedEdge(c, a)
    l3 = UnDirectedEdge(a, d)
    l4 = UnDirectedEdge(e_, a)
    l5 = TwoEndedLink(a, f)
    l6 = TwoEndedLink(f, a)
    l7 = SubDir(a, s)
    l8 = SubSubDir(s, a)
    l9 = SubUnd(s, a)
    l10 = SubTwo(a, s)
    l11 = BothUD(b, a)
    l12 = BothDU(b, a)
    l13 = DirectedEdge(a, b)  # parallel to l1
    l14 = DirectedEdge(a, a)  # self loops
    l15 = UnDirectedEdge(a, a)
    l16 = TwoEndedLink(a, a)
    l17 = Liar(a, c)
    check(
        a.links
        == (l1, l2, l3, l4, l5, l6, l7, l8, l9, l10, l11, l12, l13, l14, l15, l16, l17),
        "links order",
    )
    # pinned expectations (from the statement), besides the oracle
    check(
        same_list(neighbors(a, FWD, U_NON), [b, d, e_, s, s, b, b, b, a, a]),
        "kinds fwd/non",
    )
    check(
        same_list(
            neighbors(a, FWD, U_NB),
            [b, d, e_, f, f, s, s, s, b, b, b, a, a, a, c],
        ),
        "kinds fwd/nb",
    )
    check(
        same_list(neighbors(a, BWD, U_NON), [c, d, e_, s, s, b, b, a, a]),
        "kinds bwd/non",
    )
    check(
        same_list(
            neighbors(a, ANY, U_ERR),
            [b, c, d, e_, f, f, s, s, s, s, b, b, b, a, a, a, c],
        ),
        "kinds any/err",
    )
    check(attempt(neighbors, a) == ("exc", NotImplementedError), "default raises")
    check(attempt(neighbors, a, BWD) == ("exc", NotImplementedError), "bwd raises")
    check(attempt(neighbors, a, FWD, 7) == ("exc", NotImplementedError), "garbage")
    check(attempt(neighbors, a, FWD, None) == ("exc", NotImplementedError), "None")
    # Liar: isinstance() says DirectedEdge, its type does not -> unknown class
    z = Vertex()
    lz = Liar(z, a)
    check(isinstance(lz, DirectedEdge), "liar lies")
    check(attempt(neighbors, z) == ("exc", NotImplementedError), "liar unknown")
    check(neighbors(z, FWD, U_NON) == [], "liar non")
    check(same_list(neighbors(z, BWD, U_NB), [a]), "liar nb")
    allv = [a, b, c, d, e_, f, s, z]
    sweep(allv, "kinds")
    sweep(allv, "kinds+filter", lambda e, w: (id(e) // 16 + id(w) // 16) % 3 != 0)
    sweep(allv, "kinds+never", lambda e, w: False)
    sweep(allv, "kinds+always", lambda e, w: True)
    # duality
    for u in (U_NON, U_NB):
        for x in allv:
            fx = neighbors(x, FWD, u)
            for y in allv:
                by = neighbors(y, BWD, u)
                check(
                    sum(1 for t in fx if t is y) == sum(1 for t in by if t is x),
                    "forward/backward duality",
                )


def sc_none_ends(mode):
    a = Vertex()
    e1 = DirectedEdge(a, None)
    e2 = DirectedEdge(None, a)
    e3 = UnDirectedEdge(a, None)
    e4 = TwoEndedLink(None, a)
    check(a.links == (e1, e2, e3, e4), "none ends links")
    check(neighbors(a, FWD, U_NON) == [None, None], "None is reported, fwd")
    check(neighbors(a, BWD, U_NB) == [None, None, None], "None reported, bwd")
    check(neighbors(a, ANY) == [None] * 4, "None reported, any")
    seen = []
    neighbors(a, ANY, U_ERR, lambda e, w: seen.append((e, w)))
    check(
        [x[0] for x in seen] == [e1, e2, e3, e4] and all(x[1] is None for x in seen),
        "filter sees None",
    )
    check(e1.other(None) is a and e1.other(a) is None, "other with None")
    e5 = DirectedEdge(None, None)
    check(e5.other(None) is None and e5.other(a) is None, "other none/none")
    sweep([a], "none ends")
    sweep([a], "none ends+f", lambda e, w: w is None)


def sc_other(mode):
    a, b, c = Vertex(), Vertex(), Vertex()
    for cls in (TwoEndedLink, DirectedEdge, UnDirectedEdge, SubDir, SubUnd, SubTwo):
        e = cls(a, b)
        check(e.other(a) is b and e.other(b) is a, "other basic")
        check(e.other(c) is None and e.other(None) is None, "other stranger")
        check(e.other(e) is None and e.other(0) is None, "other junk")
        loop = cls(c, c)
        check(loop.other(c) is c and loop.other(a) is None, "other self loop")
        e.v1 = c
        check(e.other(c) is b and e.other(b) is c and e.other(a) is None, "moved")
        e.v2 = c
        check(e.other(c) is c and e.other(b) is None, "moved to loop")
    # identity, not equality

    class EqV(Vertex):
        def __eq__(self, o):
            return True

        __hash__ = Vertex.__hash__

    p, q, r = EqV(), EqV(), EqV()
    e = DirectedEdge(p, q)
    check(e.other(r) is None and e.other(q) is p and e.other(p) is q, "identity")
    # fewer than two ends: no opposite end
    x, y = Vertex(), Vertex()
    e = DirectedEdge(x, y)
    x.remove_from_link(e)
    check(e.vertices == (y,), "one end left")
    check(attempt(e.other, y) == ("exc", IndexError), "other on 1 end (is v1)")
    check(attempt(e.other, x) == ("exc", IndexError), "other on 1 end (not v1)")
    check(attempt(neighbors, y, ANY) == ("exc", IndexError), "neighbors 1 end")
    y.remove_from_link(e)
    check(attempt(e.other, y) == ("exc", IndexError), "other on 0 ends")
    # traced access order of other()
    u, w, z = Vertex(), Vertex(), Vertex()
    t = TracedTwo(u, w)
    for arg, want in (
        (u, ["other", "v1", "v2"]),
        (w, ["other", "v1", "v2", "v1"]),
        (z, ["other", "v1", "v2"]),
    ):
        del TRACE[:]
        t.other(arg)
        check(TRACE == want, f"other() access order {TRACE} {want}")


def sc_three_ended(mode):
    # a vertex that is attached to a directed edge without being v1 or v2
    a, b, c = Vertex(), Vertex(), Vertex()
    e = DirectedEdge(a, b)
    c.add_to_link(e)
    check(e.vertices == (a, b, c) and c.links == (e,), "3 ends")
    check(attempt(neighbors, c) == ("exc", NotImplementedError), "3 ends err")
    check(attempt(neighbors, c, BWD) == ("exc", NotImplementedError), "3 ends err")
    check(neighbors(c, FWD, U_NON) == [], "3 ends non")
    check(neighbors(c, BWD, U_NB) == [None], "3 ends nb")
    check(neighbors(c, ANY) == [None], "3 ends any")
    u = UnDirectedEdge(a, b)
    c.add_to_link(u)
    check(neighbors(c, FWD, U_NB) == [None, None], "3 ends undirected")
    sweep([a, b, c], "3 ends")
    sweep([a, b, c], "3 ends+f", lambda e, w: w is not None)


def sc_plain_link(mode):
    # other() is consulted before any option is looked at
    a, b = Vertex(), Vertex()
    und = UnDirectedEdge(a, b)
    raw = Link(vertices=[a, b], _force_creation=True)
    check(a.links == (und, raw), "plain link attached")
    for d in DIRS + [99]:
        for u in UNKS:
            log = []
            r = attempt(neighbors, a, d, u, lambda e, w: log.append(e) or True)
            if d == 99:
                check(r == ("exc", ValueError) and log == [], "bad dir first link")
            else:
                check(r == ("exc", AttributeError), f"plain link {d} {u}: {r}")
                check(log == [und], "first link was filtered before the failure")
    c, d_ = Vertex(), Vertex()
    raw2 = Link(vertices=[c, d_], _force_creation=True)
    check(attempt(neighbors, c, 99) == ("exc", AttributeError), "other before dir")
    # ... and it is looked up on the instance
    g, h = Vertex(), Vertex()
    calls = []
    raw3 = Link(
        vertices=[g, h],
        _force_creation=True,
        attributes={"other": lambda end: calls.append(end) or h},
    )
    check(attempt(neighbors, g) == ("exc", NotImplementedError), "inst other err")
    check(same_list(neighbors(g, FWD, U_NB), [h]), "inst other nb")
    check(neighbors(g, BWD, U_NON) == [], "inst other non")
    check(same_list(neighbors(g, ANY), [h]), "inst other any")
    check(len(calls) == 4 and all(x is g for x in calls), "inst other called")
    marker = Vertex()
    de = DirectedEdge(g, h, attributes={"other": lambda end: marker})
    check(same_list(neighbors(g, FWD, U_NON), [marker]), "shadowed other honoured")
    check(same_list(neighbors(h, BWD, U_NB), [h, marker]), "shadowed other bwd")

    def stop(end):
        raise StopIteration("from other")

    k, m = Vertex(), Vertex()
    DirectedEdge(k, m, attributes={"other": stop})
    check(attempt(neighbors, k) == ("exc", StopIteration), "StopIteration/other")


def sc_bad_options(mode):
    a, b, c, d = Vertex(), Vertex(), Vertex(), Vertex()
    e1 = DirectedEdge(a, b)
    e2 = TwoEndedLink(a, c)
    e3 = DirectedEdge(a, d)
    for bad in (3, -1, None, "0", 0.5, (0,)):
        log = []
        r = attempt(neighbors, a, bad, U_NB, lambda e, w: log.append(e) or True)
        check(r == ("exc", ValueError) and log == [], f"bad direction {bad!r}")
    if not mode:
        check(attempt(neighbors, a, [0]) == ("exc", ValueError), "list direction")
        check(
            attempt(neighbors, a, FWD, [1]) == ("exc", NotImplementedError),
            "list unknown",
        )
    for bad in (U_ERR, 3, -1, None, "1", 0.5):
        log = []
        r = attempt(neighbors, a, FWD, bad, lambda e, w: log.append(e) or True)
        check(
            r == ("exc", NotImplementedError) and log == [e1],
            f"bad unknown {bad!r}: the links before the unknown one were done",
        )
        r = attempt(neighbors, a, BWD, bad, lambda e, w: log.append(e) or True)
        check(r == ("exc", NotImplementedError) and log == [e1], "bwd: none before")
        r = neighbors(a, ANY, bad)
        check(same_list(r, [b, c, d]), "ANY never looks at unknown_handling")
        # unknown link never reached -> no complaint
        check(same_list(neighbors(b, BWD, bad), [a]), "no unknown link, no error")
    for d_, want in ((True, [b, c, d]), (False, [b, d]), (0.0, [b, d]), (2.0, [])):
        check(same_list(neighbors(a, d_, U_NON), want), f"direction {d_!r} by ==")
    for u_, want in ((True, [b, c, d]), (False, [b, d]), (1.0, [b, c, d]), (0.0, [b, d])):
        check(same_list(neighbors(a, FWD, u_), want), f"unknown {u_!r} by ==")


def sc_filter(mode):
    a, b, c, d = Vertex(), Vertex(), Vertex(), Vertex()
    e1 = DirectedEdge(a, b)
    e2 = DirectedEdge(c, a)
    e3 = UnDirectedEdge(a, d)
    e4 = TwoEndedLink(a, c)
    e5 = DirectedEdge(a, a)
    # exact calls, in order, only for qualifying links
    for dr, un, want in (
        (FWD, U_NON, [(e1, b), (e3, d), (e5, a)]),
        (FWD, U_NB, [(e1, b), (e3, d), (e4, c), (e5, a)]),
        (BWD, U_NON, [(e2, c), (e3, d), (e5, a)]),
        (BWD, U_NB, [(e2, c), (e3, d), (e4, c), (e5, a)]),
        (ANY, U_ERR, [(e1, b), (e2, c), (e3, d), (e4, c), (e5, a)]),
    ):
        log = []
        r = neighbors(a, dr, un, lambda e, w: log.append((e, w)) or True)
        check(log == want and same_list(r, [w for _, w in want]), "filter calls")
        log = []
        r = neighbors(a, dr, un, lambda e, w: log.append((e, w)))
        check(log == want and r == [], "rejecting filter: same calls, no result")
    # verdicts are judged by truth value, asked once
    for verdict, keep in (
        (1, True), (0, False), ("x", True), ("", False), ([0], True), ([], False),
        (None, False), (0.0, False), (object(), True),
    ):
        r = neighbors(a, ANY, U_ERR, lambda e, w: verdict)
        check(len(r) == (5 if keep else 0), f"truthiness of {verdict!r}")
    made = []

    def counting(e, w):
        made.append(CountingTruth(w is not c))
        return made[-1]

    r = neighbors(a, ANY, U_ERR, counting)
    check(same_list(r, [b, d, a]) and [m.asked for m in made] == [1] * 5, "bool once")

    # callable objects, bound methods, partial keyword use
    class F:
        def __init__(self):
            self.n = 0

        def __call__(self, e, w):
            self.n += 1
            return w is not a

        def meth(self, e, w):
            self.n += 1
            return w is a

    f = F()
    check(same_list(neighbors(a, FWD, U_NB, f), [b, d, c]) and f.n == 4, "callable")
    check(same_list(neighbors(a, filterfunc=f.meth, unknown_handling=U_NON), [a]), "m")
    # a filter that raises, at every possible position
    for n_ok in range(6):
        for exc in (Boom, StopIteration, KeyboardInterrupt, NotImplementedError, ValueError):
            log = []

            def raising(e, w, log=log, n_ok=n_ok, exc=exc):
                log.append(e)
                if len(log) > n_ok:
                    raise exc("filter")
                return True

            before = cache_stats()
            try:
                r = neighbors(a, ANY, U_ERR, raising)
                outcome = ("ok", r)
            except BaseException as got:  # noqa
                outcome = ("exc", type(got))
            after = cache_stats()
            if n_ok >= 5:
                check(outcome[0] == "ok" and same_list(outcome[1], [b, c, d, c, a]), "fin")
                if mode:
                    check(delta(before, after) == (0, 1, 1), "stored")
            else:
                check(outcome == ("exc", exc), f"filter exception passes {outcome}")
                check(log == [e1, e2, e3, e4, e5][: n_ok + 1], "stopped right there")
                if mode:
                    check(delta(before, after) == (0, 1, 0), "nothing stored")
    # state after a failed call is usable and unchanged
    check(a.links == (e1, e2, e3, e4, e5), "links intact")
    check(same_list(neighbors(a, FWD, U_NON), [b, d, a]), "still fine")
    # wrong arity / not callable: only noticed when first used
    check(attempt(neighbors, a, ANY, U_ERR, 5) == ("exc", TypeError), "not callable")
    check(attempt(neighbors, a, ANY, U_ERR, lambda e: True) == ("exc", TypeError), "ar")
    lonely = Vertex()
    check(neighbors(lonely, ANY, U_ERR, 5) == [], "never used, never noticed")
    only_in = Vertex()
    DirectedEdge(a, only_in)
    check(neighbors(only_in, FWD, U_ERR, 5) == [], "no qualifying link, no call")


def sc_filter_mutates(mode):
    # the links are a snapshot; the far end is resolved link by link
    a, b, c, d, x = (Vertex() for _ in range(5))
    e1 = DirectedEdge(a, b)
    e2 = DirectedEdge(a, c)
    e3 = DirectedEdge(a, d)

    def retarget(e, w):
        if e is e1:
            e3.v2 = x
        return True

    check(same_list(neighbors(a, FWD, U_ERR, retarget), [b, c, x]), "live far end")
    check(same_list(neighbors(a), [b, c, x]), "after retarget")

    def flip(e, w):
        if e is e1:
            # e2 now enters a instead of leaving it
            e2.v1 = c
            e2.v2 = a
        return True

    check(same_list(neighbors(a, FWD, U_ERR, flip), [b, x]), "live direction")
    check(same_list(neighbors(a, BWD), [c]), "after flip")

    a, b, c, d = (Vertex() for _ in range(4))
    e1 = DirectedEdge(a, b)
    e2 = DirectedEdge(a, c)
    e3 = DirectedEdge(a, d)
    log = []

    def detach(e, w):
        log.append(e)
        if e is e1:
            a.remove_from_link(e2)
        return True

    r = attempt(neighbors, a, FWD, U_ERR, detach)
    check(r == ("exc", IndexError) and log == [e1], f"snapshot of links: {r}")
    check(a.links == (e1, e3) and e2.vertices == (c,), "state after")
    check(same_list(neighbors(a), [b, d]), "fine afterwards")

    a, b, c = (Vertex() for _ in range(3))
    e1 = DirectedEdge(a, b)

    def grow(e, w):
        DirectedEdge(a, c)
        return True

    check(same_list(neighbors(a, FWD, U_ERR, grow), [b]), "links added meanwhile")
    check(len(a.links) == 2 and same_list(neighbors(a), [b, c]), "seen next time")


def sc_reentrant(mode):
    a, b, c = Vertex(), Vertex(), Vertex()
    DirectedEdge(a, b)
    DirectedEdge(a, c)
    DirectedEdge(a, b)
    inner = []

    def again(e, w):
        inner.append(neighbors(a))
        return w is b

    before = cache_stats()
    r = neighbors(a, FWD, U_ERR, again)
    after = cache_stats()
    check(same_list(r, [b, b]), "re-entrant result")
    check(len(inner) == 3 and all(same_list(i, [b, c, b]) for i in inner), "inner")
    check(len({id(i) for i in inner}) == 3, "inner results are separate lists")
    if mode:
        check(delta(before, after) == (2, 2, 2), f"re-entrant stats {delta(before, after)}")
        before = cache_stats()
        r2 = neighbors(a, FWD, U_ERR, again)
        check(same_list(r2, [b, b]) and r2 is not r and len(inner) == 3, "cached")
        check(delta(before, cache_stats()) == (1, 0, 0), "hit")


def sc_result_ownership(mode):
    a, b, c = Vertex(), Vertex(), Vertex()
    e1 = DirectedEdge(a, b)
    keys = set(vars(a))
    r1 = neighbors(a)
    r2 = neighbors(a)
    check(r1 is not r2 and same_list(r1, r2) and same_list(r1, [b]), "fresh list")
    r1.append(c)
    r2.clear()
    check(same_list(neighbors(a), [b]), "caller's edits stay with the caller")
    check(set(vars(a)) == keys, "no attribute appears on the vertex")
    check(type(neighbors(a)) is list and type(neighbors(Vertex())) is list, "list")
    before = cache_stats()
    e2 = DirectedEdge(a, c)
    check(same_list(neighbors(a), [b, c]), "new link seen")
    e1.v2 = c
    check(same_list(neighbors(a), [c, c]), "moved end seen")
    check(same_list(neighbors(c, BWD), [a, a]) and neighbors(b, BWD) == [], "bwd seen")
    explicit.unlink(a, c)
    check(neighbors(a) == [] and neighbors(c, BWD) == [], "unlink seen")
    if mode:
        # same key, no change in between: answered from the cache
        a2, b2 = Vertex(), Vertex()
        DirectedEdge(a2, b2)
        neighbors(a2, ANY, U_NON)
        s0 = cache_stats()
        neighbors(a2, ANY, U_NON)
        neighbors(a2, True, False)  # equal key
        check(delta(s0, cache_stats()) == (2, 0, 0), "cache hits")
        neighbors(a2, ANY, U_NB)
        check(delta(s0, cache_stats()) == (2, 1, 1), "other key misses")
    # caching switched on / off between calls
    Vertex.NEIGHBOR_CACHING = True
    p, q, r_ = Vertex(), Vertex(), Vertex()
    DirectedEdge(p, q)
    check(same_list(neighbors(p), [q]), "on")
    Vertex.NEIGHBOR_CACHING = False
    DirectedEdge(p, r_)
    check(same_list(neighbors(p), [q, r_]), "off")
    Vertex.NEIGHBOR_CACHING = True
    check(same_list(neighbors(p), [q, r_]), "on again: nothing stale")
    Vertex.NEIGHBOR_CACHING = mode


def trace_oracle(kind, direction, position):
    """accesses neighbors() makes on one traced link (documented order:
    resolve the far end, then look at the end that has to be ``vert``)"""
    t = ["other", "v1", "v2"]
    if position == "v2":
        t.append("v1")
    if kind == "dir" and direction != ANY:
        first, second = ("v1", "v2") if direction == FWD else ("v2", "v1")
        t.append(first)
        if position not in (first, "both"):
            t.append(second)
    return t


def sc_traced(mode):
    a, b, c = Vertex(), Vertex(), Vertex()
    cases = [
        ("dir", TracedDir(a, b), "v1"),
        ("dir", TracedDir(b, a), "v2"),
        ("dir", TracedDir(a, a), "both"),
        ("und", TracedUnd(a, b), "v1"),
        ("und", TracedUnd(b, a), "v2"),
        ("two", TracedTwo(a, b), "v1"),
        ("two", TracedTwo(b, a), "v2"),
    ]
    extra = TracedDir(b, c)
    a.add_to_link(extra)
    cases.append(("dir", extra, "none"))
    for d in DIRS:
        for u in (U_NON, U_NB):
            for ff in (None, lambda e, w: TRACE.append("filter") or True):
                want = []
                for kind, lnk, pos in cases:
                    want += trace_oracle(kind, d, pos)
                    if ff is not None:
                        # does this link qualify?
                        if d == ANY or kind == "und":
                            q = True
                        elif kind == "two" or pos == "none":
                            q = u == U_NB
                        else:
                            q = pos == "both" or (pos == "v1") == (d == FWD)
                        if q:
                            want.append("filter")
                del TRACE[:]
                # a fresh filter object each time: no cache hit
                fresh = (lambda f: (lambda e, w: f(e, w)))(ff) if ff else None
                got = neighbors(a, d, u, fresh)
                if mode and ff is None and TRACE == []:
                    # answered by the cache; nothing to compare
                    continue
                check(TRACE == want, f"access order d={d} u={u}: {TRACE} != {want}")
                check(same_list(got, oracle(a, d, u, None)), "traced result")
    # swapped public ends are what counts
    p, q = Vertex(), Vertex()
    Reversed(p, q)
    check(neighbors(p) == [] and same_list(neighbors(p, BWD), [q]), "reversed p")
    check(same_list(neighbors(q), [p]) and neighbors(q, BWD) == [], "reversed q")


def sc_pickle(mode):
    a, b, c = SubVertex(), Vertex(), Vertex()
    uni = Universe(vertices=[a, b, c])
    SubDir(a, b)
    UnDirectedEdge(c, a)
    SubTwo(a, c)
    DirectedEdge(a, a)
    DirectedEdge(b, a)
    neighbors(a, ANY)
    verts = [a, b, c]
    verts2 = pickle.loads(pickle.dumps(verts))
    for d in DIRS:
        for u in UNKS:
            for i in range(3):
                r1 = attempt(neighbors, verts[i], d, u)
                r2 = attempt(neighbors, verts2[i], d, u)
                w2 = attempt(oracle, verts2[i], d, u)
                check(same_outcome(r2, w2), "unpickled copy obeys the rules")
                check(r1[0] == r2[0], "same kind of outcome")
                if r1[0] == "ok":
                    check(
                        [verts.index(x) for x in r1[1]]
                        == [verts2.index(x) for x in r2[1]],
                        "same shape after the round trip",
                    )
                else:
                    check(r1[1] is r2[1], "same exception after the round trip")
    check(set(vars(verts2[0])) == set(vars(a)), "same attributes")


def sc_traversals(mode):
    vs = [Vertex(attributes={"i": i}) for i in range(6)]
    uni = Universe(vertices=vs)
    explicit.link_directed(vs[0], vs[1])
    explicit.link_directed(vs[0], vs[2])
    explicit.link_undirected(vs[3], vs[1])
    explicit.link_directed(vs[4], vs[2])
    explicit.link_directed(vs[2], vs[5])
    explicit.link_directed(vs[5], vs[0])
    check(breadthfirst.bft(uni, vs[0]) == [vs[0], vs[1], vs[2], vs[3], vs[5]], "bft")
    check(
        breadthfirst.bft(uni, vs[2], direction_sensitive=BWD)
        == [vs[2], vs[0], vs[4], vs[5]],
        "bft bwd",
    )
    check(
        breadthfirst.bft(uni, vs[4], direction_sensitive=ANY)
        == [vs[4], vs[2], vs[0], vs[5], vs[1], vs[3]],
        "bft any",
    )
    check(
        depthfirst.dft_iterative(uni, vs[0]) == [vs[i] for i in (0, 2, 5, 1, 3)],
        "dft iterative",
    )
    check(
        depthfirst.dft_recursive(uni, vs[0]) == [vs[i] for i in (0, 1, 3, 2, 5)],
        "dft recursive",
    )
    check(
        depthfirst.dft_iterative(uni, vs[4], direction_sensitive=ANY)
        == [vs[i] for i in (4, 2, 5, 0, 1, 3)],
        "dft any",
    )
    check(
        depthfirst.dft_recursive(uni, vs[4], direction_sensitive=BWD) == [vs[4]],
        "dft bwd",
    )
    check(breadthfirst.bfs(uni, vs[0], "i", 5) is vs[5], "bfs")
    check(depthfirst.dfs_iterative(uni, vs[0], "i", 4) is None, "dfs")


SCENARIOS = [
    sc_docs_example,
    sc_empty,
    sc_kinds,
    sc_none_ends,
    sc_other,
    sc_three_ended,
    sc_plain_link,
    sc_bad_options,
    sc_filter,
    sc_filter_mutates,
    sc_reentrant,
    sc_result_ownership,
    sc_traced,
    sc_pickle,
    sc_traversals,
]


# --------------------------------------------------------------------------
# seeded random differential part
# --------------------------------------------------------------------------

LINK_CLASSES = [
    DirectedEdge,
    DirectedEdge,
    DirectedEdge,
    UnDirectedEdge,
    UnDirectedEdge,
    TwoEndedLink,
    SubDir,
    SubSubDir,
    SubUnd,
    SubTwo,
    BothUD,
    BothDU,
    Liar,
]
DIR_POOL = [FWD, FWD, FWD, ANY, ANY, BWD, BWD, BWD, True, False, 2.0, 3, -1, None]
UNK_POOL = [U_NON, U_NON, U_NB, U_NB, U_ERR, U_ERR, True, False, 1.0, 5, None]


def random_round(rng, round_no):
    Vertex.NEIGHBOR_CACHING = rng.random() < 0.5
    n = rng.randint(1, 7)
    verts = [(SubVertex if rng.random() < 0.2 else Vertex)() for _ in range(n)]
    links = []
    vidx = {id(v): i for i, v in enumerate(verts)}

    def pick_end():
        if rng.random() < 0.04:
            return None
        return rng.choice(verts)

    # (an object that lies about its __class__ cannot be pickled)
    classes = LINK_CLASSES if round_no % 5 else [c for c in LINK_CLASSES if c is not Liar]

    def new_link():
        cls = rng.choice(classes)
        links.append(cls(pick_end(), pick_end()))

    for _ in range(rng.randint(0, 12)):
        new_link()

    lidx = {}

    def reindex():
        lidx.clear()
        lidx.update({id(e): i for i, e in enumerate(links)})

    # persistent pure filters (may be answered by the cache)
    salt = rng.randrange(1 << 30)

    def pure_decide(e, w):
        wi = -1 if w is None else vidx[id(w)]
        return (lidx[id(e)] * 7 + wi * 3 + salt) % 3 != 0

    plog = []

    def persistent(e, w):
        plog.append((e, w))
        return pure_decide(e, w)

    steps = rng.randint(10, 60)
    for step in range(steps):
        reindex()
        op = rng.random()
        tag = f"round {round_no} step {step}"
        if op < 0.62:
            v = rng.choice(verts)
            d = rng.choice(DIR_POOL)
            u = rng.choice(UNK_POOL)
            fk = rng.random()
            state = random.getstate()
            keys = set(vars(v))
            before = cache_stats()
            if fk < 0.35:
                real = attempt(neighbors, v, d, u)
                want = attempt(oracle, v, d, u)
                check(same_outcome(real, want), f"{tag}: {real} != {want}")
                fresh_filter = False
            elif fk < 0.65:
                real = agree(v, d, u, pure_decide, tag)
                fresh_filter = True
            elif fk < 0.85:
                # raising filter, at a random call
                k = rng.randint(1, 4)
                rlog, wlog = [], []

                def mk(log):
                    def f(e, w):
                        log.append((e, w))
                        if len(log) == k:
                            raise Boom()
                        return pure_decide(e, w)

                    return f

                real = attempt(neighbors, v, d, u, mk(rlog))
                want = attempt(oracle, v, d, u, mk(wlog))
                check(same_outcome(real, want), f"{tag}: {real} != {want}")
                check(
                    len(rlog) == len(wlog)
                    and all(x[0] is y[0] and x[1] is y[1] for x, y in zip(rlog, wlog)),
                    f"{tag}: calls before the exception",
                )
            else:
                del plog[:]
                wlog = []

                def wf(e, w):
                    wlog.append((e, w))
                    return pure_decide(e, w)

                real = attempt(neighbors, v, d, u, persistent)
                want = attempt(oracle, v, d, u, wf)
                check(same_outcome(real, want), f"{tag}: {real} != {want}")
                after = cache_stats()
                if after is not None and delta(before, after) == (1, 0, 0):
                    check(plog == [], f"{tag}: cache hit calls no filter")
                else:
                    check(
                        len(plog) == len(wlog)
                        and all(
                            x[0] is y[0] and x[1] is y[1] for x, y in zip(plog, wlog)
                        ),
                        f"{tag}: persistent filter calls",
                    )
            after = cache_stats()
            if after is not None:
                dl = delta(before, after)
                if real[0] == "ok":
                    check(dl in ((1, 0, 0), (0, 1, 1)), f"{tag}: stats {dl}")
                else:
                    check(dl == (0, 1, 0), f"{tag}: stats on failure {dl}")
            check(random.getstate() == state, f"{tag}: random untouched")
            check(set(vars(v)) == keys, f"{tag}: attributes untouched")
            # other() against the statement
            if links:
                e = rng.choice(links)
                probe = rng.choice(verts + [None])
                ends = e.vertices
                if len(ends) < 2:
                    check(attempt(e.other, probe) == ("exc", IndexError), "other short")
                else:
                    want_o = (
                        ends[1] if probe is ends[0]
                        else ends[0] if probe is ends[1]
                        else None
                    )
                    check(e.other(probe) is want_o, f"{tag}: other()")
        elif op < 0.72:
            new_link()
        elif op < 0.84 and links:
            e = rng.choice(links)
            new = pick_end()
            try:
                if rng.random() < 0.5:
                    e.v1 = new
                else:
                    e.v2 = new
            except IndexError:
                pass
        elif op < 0.89 and links:
            e = rng.choice(links)
            v = rng.choice(verts)
            v.remove_from_link(e)
        elif op < 0.93 and links:
            e = rng.choice(links)
            v = rng.choice(verts)
            v.add_to_link(e)
        elif op < 0.97:
            try:
                explicit.unlink(rng.choice(verts), rng.choice(verts))
            except IndexError:
                pass
        else:
            Vertex.NEIGHBOR_CACHING = not Vertex.NEIGHBOR_CACHING

    # closing sweep over the final graph, both caching modes, plus duality and
    # a pickling round trip
    reindex()
    for mode in (Vertex.NEIGHBOR_CACHING, not Vertex.NEIGHBOR_CACHING):
        Vertex.NEIGHBOR_CACHING = mode
        table = {}
        for i, v in enumerate(verts):
            for d in DIRS:
                for u in UNKS:
                    real = attempt(neighbors, v, d, u)
                    want = attempt(oracle, v, d, u)
                    check(same_outcome(real, want), f"round {round_no} final sweep")
                    table[(i, d, u)] = real
        for u in (U_NON, U_NB):
            for i, v in enumerate(verts):
                f = table[(i, FWD, u)]
                if f[0] != "ok":
                    continue
                for j, w in enumerate(verts):
                    b = table[(j, BWD, u)]
                    if b[0] != "ok":
                        continue
                    check(
                        sum(1 for t in f[1] if t is w)
                        == sum(1 for t in b[1] if t is v),
                        f"round {round_no}: duality",
                    )
    if round_no % 5 == 0:
        # cached answers are keyed by the filter objects, and local functions
        # do not pickle: drop them (any change of links does), then store a
        # few picklable answers again
        for v in verts:
            scratch = UnDirectedEdge(v, None)
            v.remove_from_link(scratch)
            attempt(neighbors, v, ANY)
            attempt(neighbors, v, FWD, U_NB)
        verts2 = pickle.loads(pickle.dumps(verts))
        for i in range(len(verts)):
            for d in DIRS:
                for u in UNKS:
                    r1 = attempt(neighbors, verts[i], d, u)
                    r2 = attempt(neighbors, verts2[i], d, u)
                    check(same_outcome(r2, attempt(oracle, verts2[i], d, u)), "pickled")
                    check(r1[0] == r2[0], "pickled outcome kind")
                    if r1[0] == "ok":
                        ix1 = [None if x is None else verts.index(x) for x in r1[1]]
                        ix2 = [None if x is None else verts2.index(x) for x in r2[1]]
                        check(ix1 == ix2, f"round {round_no}: pickled shape")


def main():
    random.seed(SEED)
    for sc in SCENARIOS:
        both_modes(sc)
    rng = random.Random(SEED)
    old = Vertex.NEIGHBOR_CACHING
    try:
        for round_no in range(400):
            random_round(rng, round_no)
    finally:
        Vertex.NEIGHBOR_CACHING = old
    # the random part must have met every kind of outcome
    for key in ("ok", "NotImplementedError", "ValueError", "IndexError", "Boom"):
        check(TALLY.get(key, 0) > 50, f"outcome {key} hardly exercised: {TALLY}")
    print(f"equiv.py: all {CHECKS} checks passed; outcomes {sorted(TALLY.items())}")
    return 0


if __name__ == "__main__":
    sys.exit(main())
