#!/usr/bin/env python3
"""
equiv.py for C13 / rewrite 2 (internal containers: the work queue of the
non-recursive pickler; the "already visited" bookkeeping and the stack of the
depth-first traversals / searches).

Checks, with neighbor caching off and on:

* nrpickler.dumps / dump produce byte-for-byte what a reference copy of the
  queue algorithm (kept in this file, built directly on dill.Pickler) produces,
  for all protocols, on graphs with self-loops, parallel edges, None ends,
  nested universes, shared / self-referential attribute values, a populated
  neighbor cache and a chain far deeper than the recursion limit; the bytes
  load (here and in a fresh interpreter) into an isomorphic graph; dumping
  leaves the graph as it was -- also when a value's __reduce_ex__ fails at its
  k-th invocation, for every k, or when a value cannot be pickled at all;
* dft_recursive / idft_recursive / dft_iterative / idft_iterative /
  dfs_recursive / dfs_iterative agree with independent oracles, also for vertex
  subclasses that are equal-but-not-identical or unhashable, for vertices
  outside the universe and None ends; a ff_via / ff_result failing at its k-th
  invocation (every k) leaves the graph as it was, what was yielded up to then
  is a prefix of the normal answer, and the repeated call gives the normal
  answer.

Exit status 0 = everything as expected.
"""

import io
import os
import pickle
import random
import subprocess
import sys

import dill

import edgegraph
from edgegraph.structure import (
    Vertex,
    Universe,
    DirectedEdge,
    UnDirectedEdge,
    TwoEndedLink,
)
from edgegraph.traversal import helpers, depthfirst, breadthfirst
from edgegraph.output import nrpickler

FAILS = []


def check(cond, what):
    if not cond:
        FAILS.append(what)
        print("FAIL:", what)


class Boom(Exception):
    pass


FWD, ANY, BWD = (
    helpers.DIR_SENS_FORWARD,
    helpers.DIR_SENS_ANY,
    helpers.DIR_SENS_BACKWARD,
)
U_NON, U_NB, U_ERR = (
    helpers.LNK_UNKNOWN_NONNEIGHBOR,
    helpers.LNK_UNKNOWN_NEIGHBOR,
    helpers.LNK_UNKNOWN_ERROR,
)


# ---------------------------------------------------------------- snapshots


def public_attrs(obj):
    return tuple(
        sorted(
            (k, repr(val)) for k, val in vars(obj).items() if not k.startswith("_")
        )
    )


def snapshot(verts, links, unis):
    snap = []
    for v in verts:
        snap.append(
            (
                "V",
                id(v),
                v.uid,
                tuple(id(l) for l in v.links),
                tuple(id(u) for u in v.universes),
                public_attrs(v),
            )
        )
    for l in links:
        snap.append(
            (
                "L",
                id(l),
                l.uid,
                tuple(id(x) for x in l.vertices),
                tuple(id(u) for u in l.universes),
                public_attrs(l),
            )
        )
    for u in unis:
        snap.append(
            ("U", id(u), tuple(id(x) for x in u.vertices), id(u.laws), id(u.laws.applies_to))
        )
    return snap


# ------------------------------------------------- reference pickler (queue)


class _RefSave:
    def __init__(self, obj):
        self.obj = obj


class _RefMemo:
    def __init__(self, obj):
        self.obj = obj


class RefPickler(dill.Pickler):
    """The queue algorithm, spelled out with a plain list and marker objects."""

    def __init__(self, file, **kwargs):
        dill.Pickler.__init__(self, file, **kwargs)
        self.ref_queue = []
        self.ref_out = file.write
        self.write = self.ref_write

    def ref_write(self, *args):
        if self.ref_queue:
            self.ref_queue.append(args)
        else:
            self.ref_out(*args)

    def save(self, obj, save_persistent_id=None):
        assert save_persistent_id is None
        self.ref_queue.append(_RefSave(obj))

    ref_save = dill.Pickler.save

    def memoize(self, obj):
        if self.ref_queue:
            self.ref_queue.append(_RefMemo(obj))
        else:
            self.ref_memoize(obj)

    ref_memoize = dill.Pickler.memoize

    def dump(self, obj):
        if self.proto >= 2:
            self.write(pickle.PROTO + bytes([self.proto]))
        self.ref_save(obj)
        while self.ref_queue:
            todo = self.ref_queue
            self.ref_queue = []
            pos = 0
            while pos < len(todo):
                item = todo[pos]
                pos += 1
                if isinstance(item, _RefSave):
                    self.ref_save(item.obj)
                    if self.ref_queue:
                        self.ref_queue.extend(todo[pos:])
                        break
                elif isinstance(item, _RefMemo):
                    if id(item.obj) in self.memo:
                        self.ref_out(
                            pickle.POP + self.get(self.memo[id(item.obj)][0])
                        )
                    else:
                        self.ref_memoize(item.obj)
                else:
                    self.ref_out(*item)
        self.ref_out(pickle.STOP)


def ref_dumps(obj, **kwargs):
    f = io.BytesIO()
    kw = dict(protocol=pickle.DEFAULT_PROTOCOL, byref=None, fmode=None, recurse=None)
    kw.update(kwargs)
    RefPickler(f, **kw).dump(obj)
    return f.getvalue()


def attempt(fn, *args, **kwargs):
    try:
        return ("ok", fn(*args, **kwargs))
    except Boom:
        return ("exc", Boom)
    except Exception as exc:  # pylint: disable=broad-except
        return ("exc", type(exc))


# ------------------------------------------------------------ pickle worlds


class OddLink(TwoEndedLink):
    """neither directed nor undirected"""


def pickle_world(seed, n=7):
    rng = random.Random(seed)
    uid = iter(range(seed * 100000 + 1, seed * 100000 + 100000))
    uni = Universe(uid=next(uid))
    inner = Universe(uid=next(uid))
    shared = {"k": [1, 2, 3]}
    shared["me"] = shared  # self-referential value
    vs = []
    for i in range(n):
        v = Vertex(uid=next(uid), universes=[uni], attributes={"i": i})
        vs.append(v)
    vs[0].payload = shared
    vs[1].payload = shared
    vs[2].friend = vs[0]  # an attribute that is itself a vertex
    vs[3].add_to_universe(inner)
    vs[3].empty = ""
    uni.add_vertex(inner)
    outsider = Vertex(uid=next(uid), attributes={"i": -1})
    pool = vs + [outsider, inner]
    links = [
        DirectedEdge(vs[0], vs[1], uid=next(uid)),
        DirectedEdge(vs[0], vs[1], uid=next(uid), attributes={"w": 2.5}),
        DirectedEdge(vs[1], vs[0], uid=next(uid)),
        DirectedEdge(vs[2], vs[2], uid=next(uid)),
        UnDirectedEdge(vs[2], vs[2], uid=next(uid)),
        UnDirectedEdge(vs[1], None, uid=next(uid)),
        DirectedEdge(None, vs[4 % n], uid=next(uid)),
        OddLink(vs[4 % n], outsider, uid=next(uid)),
        DirectedEdge(outsider, inner, uid=next(uid)),
    ]
    for _ in range(2 * n):
        cls = rng.choice([DirectedEdge, UnDirectedEdge])
        links.append(cls(rng.choice(pool), rng.choice(pool), uid=next(uid)))
    return uni, pool, links, [uni, inner]


def chain_world(n):
    uni = Universe(uid=77)
    prev = None
    verts, links = [], []
    for i in range(n):
        v = Vertex(uid=1000 + i, universes=[uni], attributes={"i": i})
        if prev is not None:
            links.append(DirectedEdge(prev, v, uid=100000 + i))
        verts.append(v)
        prev = v
    return uni, verts, links, [uni]


def describe(uni):
    """an identity-free description of what hangs off a universe"""
    seen = {}
    order = []

    # (iterative, so that long chains are no problem)
    stack = [uni]
    while stack:
        obj = stack.pop()
        if obj is None or id(obj) in seen:
            continue
        seen[id(obj)] = obj
        order.append(obj)
        kids = []
        if isinstance(obj, Universe):
            kids += obj.vertices
        if isinstance(obj, Vertex):
            kids += list(obj.links) + obj.universes
        if isinstance(obj, TwoEndedLink):
            kids += list(obj.vertices)
        stack.extend(reversed(kids))

    def uid_of(x):
        return None if x is None else x.uid

    out = []
    for obj in order:
        row = [type(obj).__name__, obj.uid]
        if isinstance(obj, Universe):
            row.append(("members", [uid_of(x) for x in obj.vertices]))
            row.append(("laws_back", obj.laws.applies_to is obj))
        if isinstance(obj, Vertex):
            row.append(("links", [uid_of(x) for x in obj.links]))
            row.append(("unis", [uid_of(x) for x in obj.universes]))
        if isinstance(obj, TwoEndedLink):
            row.append(("ends", [uid_of(x) for x in obj.vertices]))
        plain = {}
        for k, val in vars(obj).items():
            if k.startswith("_"):
                continue
            if isinstance(val, (int, float, str)):
                plain[k] = val
            elif isinstance(val, Vertex):
                plain[k] = ("vertex", val.uid)
            elif isinstance(val, dict):
                plain[k] = ("dict", sorted(val), val.get("me") is val)
            else:
                plain[k] = type(val).__name__
        row.append(sorted(plain.items()))
        out.append(row)
    return repr(out)


LOADER = r"""
import sys, pickle
sys.setrecursionlimit(1000)
src = sys.stdin.buffer.read()
exec(src[: src.index(b"\0")].decode("utf-8"))
obj = pickle.loads(src[src.index(b"\0") + 1 :])
sys.stdout.write(describe(obj))
"""


def describe_in_fresh_interpreter(data):
    import inspect

    helper = (
        "from edgegraph.structure import Vertex, Universe, TwoEndedLink\n"
        + inspect.getsource(describe)
    )
    env = dict(os.environ)
    root = os.path.dirname(os.path.dirname(os.path.abspath(edgegraph.__file__)))
    env["PYTHONPATH"] = root + os.pathsep + env.get("PYTHONPATH", "")
    proc = subprocess.run(
        [sys.executable, "-c", LOADER],
        input=helper.encode("utf-8") + b"\0" + data,
        capture_output=True,
        env=env,
        check=False,
    )
    if proc.returncode != 0:
        return "subprocess failed: " + proc.stderr.decode("utf-8", "replace")[-500:]
    return proc.stdout.decode("utf-8")


class _TouchyState:
    calls = 0
    fail_at = None


def make_touchy(tag):
    return Touchy(tag)


class Touchy:
    """a value whose pickling hook fails at its k-th invocation, process-wide"""

    def __init__(self, tag):
        self.tag = tag

    def __reduce_ex__(self, proto):
        _TouchyState.calls += 1
        if _TouchyState.fail_at is not None and _TouchyState.calls == _TouchyState.fail_at:
            raise Boom()
        return (make_touchy, (self.tag,))


def check_pickling(tag, caching):
    for seed in (1, 2, 3):
        uni, pool, links, unis = pickle_world(seed)
        if caching:
            # populate the caches, filters included in the keys
            keep = _keep_all
            for v in pool:
                helpers.neighbors(v, unknown_handling=U_NB)
                helpers.neighbors(v, ANY, U_NON, keep)
        before = snapshot(pool, links, unis)
        want_desc = describe(uni)
        for target_name, target in (("uni", uni), ("vertex", pool[0]), ("link", links[1]), ("list", [pool[2], links[3], pool[2]])):
            for proto in (0, 1, 2, 3, 4, 5, None, -1):
                got = attempt(nrpickler.dumps, target, protocol=proto)
                want = attempt(ref_dumps, target, protocol=proto)
                check(
                    got == want,
                    f"{tag}: seed {seed} dumps({target_name}, protocol={proto}) differs "
                    f"from the reference ({got[0]}/{want[0]})",
                )
                buf = io.BytesIO()
                got2 = attempt(nrpickler.dump, target, buf, protocol=proto)
                check(
                    got2[0] == want[0] and (got2[0] == "exc" or buf.getvalue() == want[1]),
                    f"{tag}: seed {seed} dump({target_name}, protocol={proto}) differs",
                )
            check(
                snapshot(pool, links, unis) == before,
                f"{tag}: seed {seed} dumping {target_name} changed the graph",
            )
        data = nrpickler.dumps(uni)
        check(data == nrpickler.dumps(uni), f"{tag}: seed {seed} dumps not repeatable")
        for loader in (pickle.loads, dill.loads):
            clone = loader(data)
            check(clone is not uni, f"{tag}: clone is the original")
            check(
                describe(clone) == want_desc,
                f"{tag}: seed {seed} {loader.__module__}.loads gives a different graph",
            )
            # the clone is usable: traversals on it give the same uids
            a = [x.uid for x in depthfirst.dft_recursive(clone, clone.vertices[0], unknown_handling=U_NON, ff_via=_not_none)]
            b = [x.uid for x in depthfirst.dft_recursive(uni, uni.vertices[0], unknown_handling=U_NON, ff_via=_not_none)]
            check(a == b, f"{tag}: seed {seed} clone traverses differently")
        if seed == 1:
            check(
                describe_in_fresh_interpreter(data) == want_desc,
                f"{tag}: fresh interpreter loads a different graph",
            )
        check(snapshot(pool, links, unis) == before, f"{tag}: seed {seed} graph changed")

    # far deeper than the recursion limit
    uni, verts, links, unis = chain_world(3000)
    if caching:
        for v in verts:
            helpers.neighbors(v)
    before = snapshot(verts, links, unis)
    got = attempt(nrpickler.dumps, uni)
    want = attempt(ref_dumps, uni)
    check(got[0] == "ok" and got == want, f"{tag}: deep chain differs from the reference")
    check(attempt(dill.dumps, uni)[0] == "exc", f"{tag}: chain is not deep enough")
    clone = pickle.loads(got[1])
    check(
        [v.uid for v in clone.vertices] == [v.uid for v in verts]
        and [v.i for v in clone.vertices] == list(range(3000))
        and all(
            len(v.links) == (1 if i in (0, 2999) else 2)
            for i, v in enumerate(clone.vertices)
        )
        and depthfirst.dfs_iterative(clone, clone.vertices[0], "i", 2999) is clone.vertices[-1],
        f"{tag}: deep chain clone is wrong",
    )
    check(snapshot(verts, links, unis) == before, f"{tag}: deep chain changed")

    # values that fail while being pickled
    uni, pool, links, unis = pickle_world(4, n=5)
    pool[0].t = Touchy("a")
    pool[3].t = Touchy("b")
    links[2].t = pool[0].t
    links[5].t = Touchy("c")
    before = snapshot(pool, links, unis)
    _TouchyState.calls, _TouchyState.fail_at = 0, None
    normal = attempt(nrpickler.dumps, uni)
    total = _TouchyState.calls
    check(normal[0] == "ok" and total == 3, f"{tag}: touchy clean run ({normal[0]}, {total})")
    _TouchyState.calls = 0
    check(attempt(ref_dumps, uni) == normal, f"{tag}: touchy differs from the reference")
    for k in range(1, total + 2):
        _TouchyState.calls, _TouchyState.fail_at = 0, k
        got = attempt(nrpickler.dumps, uni)
        if k <= total:
            check(got == ("exc", Boom), f"{tag}: touchy k={k} expected Boom, got {got[:1]}")
        else:
            check(got == normal, f"{tag}: touchy k={k} past the end differs")
        check(snapshot(pool, links, unis) == before, f"{tag}: touchy k={k} changed the graph")
        _TouchyState.calls, _TouchyState.fail_at = 0, None
        check(attempt(nrpickler.dumps, uni) == normal, f"{tag}: touchy k={k} repeat differs")
        check(snapshot(pool, links, unis) == before, f"{tag}: touchy k={k} repeat changed the graph")
    clone = pickle.loads(normal[1])
    check(
        clone.vertices[0].t.tag == "a" and clone.vertices[3].t.tag == "b",
        f"{tag}: touchy clone",
    )

    pool[1].lock = (x for x in range(3))
    before = snapshot(pool, links, unis)
    got = attempt(nrpickler.dumps, uni)
    check(got == ("exc", TypeError), f"{tag}: unpicklable value: {got[:1] if got[0] == 'ok' else got}")
    check(attempt(ref_dumps, uni) == got, f"{tag}: unpicklable value differs from the reference")
    check(snapshot(pool, links, unis) == before, f"{tag}: unpicklable value changed the graph")
    del pool[1].lock
    check(attempt(nrpickler.dumps, uni) == normal, f"{tag}: after removing the lock")


# ------------------------------------------------------------- DFS oracles


def _keep_all(e, v):
    return True


def _not_none(e, v):
    return v is not None


def nbs(v, d=FWD, u=U_ERR, ff=None):
    return helpers.neighbors(v, direction_sensitive=d, unknown_handling=u, filterfunc=ff)


def member(uni, v):
    return uni is None or any(v == x for x in uni.vertices)


def preflight(uni, start):
    if uni is not None and not uni.vertices:
        raise ValueError
    if uni is not None and not member(uni, start):
        raise ValueError


def known(v, seen):
    return any(v is x or v == x for x in seen)


def oracle_dft_recursive(uni, start, d, u, via, res):
    preflight(uni, start)
    order, seen = [], []

    def go(v):
        hash(v)
        seen.append(v)
        if not res or res(v):
            order.append(v)
        for w in nbs(v, d, u, via):
            if not member(uni, w):
                continue
            if not known(w, seen):
                go(w)

    go(start)
    return order


def oracle_dft_iterative(uni, start, d, u, via, res):
    preflight(uni, start)
    order, seen, todo = [], [], [start]
    while todo:
        v = todo.pop()
        if known(v, seen) or not member(uni, v):
            continue
        seen.append(v)
        if not res or res(v):
            order.append(v)
        todo += nbs(v, d, u, via)
    return order


def matches(v, attrib, val):
    return hasattr(v, attrib) and getattr(v, attrib) == val


def oracle_dfs_recursive(uni, start, attrib, val):
    preflight(uni, start)
    if matches(start, attrib, val):
        return start
    seen = []

    def go(v):
        hash(v)
        seen.append(v)
        for w in nbs(v):
            if not member(uni, w) or known(w, seen):
                continue
            if matches(w, attrib, val):
                return w
            hit = go(w)
            if hit is not None:
                return hit
        return None

    return go(start)


def oracle_dfs_iterative(uni, start, attrib, val):
    preflight(uni, start)
    seen, todo = [], [start]
    while todo:
        v = todo.pop()
        if not member(uni, v) or known(v, seen):
            continue
        if matches(v, attrib, val):
            return v
        seen.append(v)
        todo += nbs(v)
    return None


class Twin(Vertex):
    """equal-but-not-identical: all twins with the same tag are equal"""

    def __init__(self, tag, **kw):
        self.tag_ = tag
        super().__init__(**kw)

    def __eq__(self, other):
        return isinstance(other, Twin) and other.tag_ == self.tag_

    def __hash__(self):
        return hash(("twin", self.tag_))


class Loose(Vertex):
    """comparable, but not hashable"""

    def __eq__(self, other):
        return self is other

    __hash__ = None


def same_list(a, b):
    return (
        isinstance(a, list)
        and isinstance(b, list)
        and len(a) == len(b)
        and all(x is y for x, y in zip(a, b))
    )


def cmp_outcome(a, b):
    if a[0] != b[0]:
        return False
    if a[0] == "exc":
        return a[1] is b[1]
    if isinstance(b[1], list):
        return same_list(a[1], b[1])
    return a[1] is b[1]


def dfs_world(rng, with_odd):
    uni = Universe()
    n = rng.randint(1, 7)
    vs = []
    for i in range(n):
        roll = rng.random()
        if with_odd and roll < 0.25:
            v = Twin(rng.choice("ab"), universes=[uni], attributes={"i": i})
        else:
            v = Vertex(universes=[uni], attributes={"i": i})
        if rng.random() < 0.3:
            v.colour = rng.choice(["red", "blue"])
        vs.append(v)
    outside = [Vertex(attributes={"i": 50 + j, "colour": "red"}) for j in range(rng.randint(0, 2))]
    pool = vs + outside
    links = []
    for _ in range(rng.randint(0, 14)):
        cls = rng.choice([DirectedEdge, DirectedEdge, UnDirectedEdge])
        x, y = rng.choice(pool), rng.choice(pool + ([None] if with_odd else []))
        links.append(cls(x, y))
    return uni, pool, links, [uni]


class Faulty:
    def __init__(self, inner, k=None):
        self.inner, self.k, self.calls = inner, k, 0

    def __call__(self, *args):
        self.calls += 1
        if self.k is not None and self.calls == self.k:
            raise Boom()
        return self.inner(*args)


def drain(gen):
    """-> (items yielded, None or the exception class that ended it)"""
    got = []
    try:
        for x in gen:
            got.append(x)
    except Boom:
        return got, Boom
    except Exception as exc:  # pylint: disable=broad-except
        return got, type(exc)
    return got, None


TRAVS = [
    ("dft_recursive", depthfirst.dft_recursive, depthfirst.idft_recursive, oracle_dft_recursive),
    ("dft_iterative", depthfirst.dft_iterative, depthfirst.idft_iterative, oracle_dft_iterative),
]


def check_dfs_world(tag, world, rng, sweep):
    uni, pool, links, unis = world
    before = snapshot(pool, links, unis)
    via_inner = _not_none
    res_inner = lambda v: getattr(v, "i", 0) % 3 != 1  # noqa: E731
    starts = pool[:4]
    for start in starts:
        for scope in (uni, None):
            for d in (FWD, ANY, BWD):
                for name, eager, lazy, oracle in TRAVS:
                    for via, res in ((via_inner, None), (via_inner, res_inner)):
                        want = attempt(oracle, scope, start, d, U_ERR, via, res)
                        got = attempt(eager, scope, start, direction_sensitive=d, ff_via=via, ff_result=res)
                        check(cmp_outcome(got, want), f"{tag}: {name} differs from oracle: {got} / {want}")
                        items, err = drain(lazy(scope, start, direction_sensitive=d, ff_via=via, ff_result=res))
                        if want[0] == "ok":
                            check(err is None and same_list(items, want[1]), f"{tag}: i{name} differs")
                        else:
                            check(err is want[1], f"{tag}: i{name} error differs: {err} / {want[1]}")
                    if not sweep:
                        continue
                    normal = attempt(oracle, scope, start, d, U_ERR, via_inner, res_inner)
                    if normal[0] != "ok":
                        continue
                    for which in ("via", "res"):
                        probe = Faulty(via_inner if which == "via" else res_inner)
                        kw = dict(direction_sensitive=d, ff_via=via_inner, ff_result=res_inner)
                        kw["ff_" + ("via" if which == "via" else "result")] = probe
                        check(cmp_outcome(attempt(eager, scope, start, **kw), normal), f"{tag}: {name} probe run")
                        for k in range(1, probe.calls + 2):
                            kw["ff_" + ("via" if which == "via" else "result")] = Faulty(probe.inner, k)
                            got = attempt(eager, scope, start, **kw)
                            if k <= probe.calls:
                                check(got == ("exc", Boom), f"{tag}: {name} {which} k={k}: {got}")
                            else:
                                check(cmp_outcome(got, normal), f"{tag}: {name} {which} k={k} past end")
                            kw["ff_" + ("via" if which == "via" else "result")] = Faulty(probe.inner, k)
                            items, err = drain(lazy(scope, start, **kw))
                            check(err is (Boom if k <= probe.calls else None), f"{tag}: i{name} {which} k={k} ending {err}")
                            check(same_list(items, normal[1][: len(items)]), f"{tag}: i{name} {which} k={k} no prefix")
                            check(snapshot(pool, links, unis) == before, f"{tag}: {name} {which} k={k} changed the graph")
                            kw["ff_" + ("via" if which == "via" else "result")] = probe.inner
                            check(cmp_outcome(attempt(eager, scope, start, **kw), normal), f"{tag}: {name} {which} k={k} repeat")
            # searches (no callbacks; default neighbors, so None ends must be
            # unreachable or the library and the oracle fail alike)
            for attrib, val in (("colour", "red"), ("colour", "green"), ("i", 3.0), ("i", 50), ("nope", 1)):
                for fn, oracle in (
                    (depthfirst.dfs_recursive, oracle_dfs_recursive),
                    (depthfirst.dfs_iterative, oracle_dfs_iterative),
                ):
                    want = attempt(oracle, scope, start, attrib, val)
                    got = attempt(fn, scope, start, attrib, val)
                    check(cmp_outcome(got, want), f"{tag}: {fn.__name__}({attrib}={val!r}) {got} / {want}")
    check(snapshot(pool, links, unis) == before, f"{tag}: graph changed")


def check_special(tag):
    # unhashable vertices: the recursive variants need hashing, the iterative
    # ones do not
    uni = Universe()
    a, b, c = Loose(universes=[uni]), Loose(universes=[uni]), Loose(universes=[uni])
    b.i = 1
    DirectedEdge(a, b)
    DirectedEdge(b, c)
    DirectedEdge(c, a)
    check(attempt(depthfirst.dft_recursive, uni, a) == ("exc", TypeError), f"{tag}: loose dft_recursive")
    items, err = drain(depthfirst.idft_recursive(uni, a))
    check(items == [] and err is TypeError, f"{tag}: loose idft_recursive")
    check(attempt(depthfirst.dfs_recursive, uni, a, "i", 1) == ("exc", TypeError), f"{tag}: loose dfs_recursive")
    check(depthfirst.dfs_recursive(uni, b, "i", 1) is b, f"{tag}: loose dfs_recursive at start")
    check(same_list(depthfirst.dft_iterative(uni, a), [a, b, c]), f"{tag}: loose dft_iterative")
    check(depthfirst.dfs_iterative(uni, a, "i", 1) is b, f"{tag}: loose dfs_iterative")
    # preflight
    empty = Universe()
    for fn in (depthfirst.dft_recursive, depthfirst.dft_iterative):
        check(attempt(fn, empty, a) == ("exc", ValueError), f"{tag}: empty universe")
        check(attempt(fn, Universe(vertices=[b]), a) == ("exc", ValueError), f"{tag}: start outside")
    # generators do nothing before the first next()
    gen = depthfirst.idft_iterative(empty, a)
    check(attempt(next, gen) == ("exc", ValueError), f"{tag}: lazy preflight")
    # the graph may change between two next() calls; what is seen is what is
    # there when a vertex is expanded
    uni2 = Universe()
    p, q, r = (Vertex(universes=[uni2], attributes={"i": i}) for i in range(3))
    DirectedEdge(p, q)
    for maker, expect in (
        (depthfirst.idft_iterative, [r, q]),
        (depthfirst.idft_recursive, [q, r]),
    ):
        gen = maker(uni2, p)
        first = next(gen)
        extra = DirectedEdge(p, r)
        rest = list(gen)
        check(
            first is p and same_list(rest, expect),
            f"{tag}: {maker.__name__} sees late edge: {[x.i for x in rest]}",
        )
        p.remove_from_link(extra)
        r.remove_from_link(extra)
    # twins
    t1, t2, t3 = Twin("x"), Twin("x"), Twin("y")
    DirectedEdge(t1, t2)
    DirectedEdge(t1, t3)
    DirectedEdge(t3, t2)
    for fn in (depthfirst.dft_recursive, depthfirst.dft_iterative):
        check(same_list(fn(None, t1), [t1, t3]), f"{tag}: twins {fn.__name__}")
    check(same_list(breadthfirst.bft(None, t1), [t1, t3]), f"{tag}: twins bft")


def main():
    sys.setrecursionlimit(1000)
    for caching in (False, True):
        Vertex.NEIGHBOR_CACHING = caching
        tag = "cache" if caching else "nocache"
        check_special(tag)
        rng = random.Random(2626)
        for n in range(30):
            world = dfs_world(rng, with_odd=(n % 2 == 1))
            check_dfs_world(f"{tag}/dfs{n}", world, rng, sweep=(n < 10))
        check_pickling(tag, caching)
    Vertex.NEIGHBOR_CACHING = False
    if FAILS:
        print(f"{len(FAILS)} check(s) failed")
        return 1
    print("equiv r2: all checks passed")
    return 0


if __name__ == "__main__":
    sys.exit(main())
