#!/usr/bin/env python3
"""
equiv.py -- behavioural check for C02 (universe membership is symmetric,
ordered and duplicate-free after every history).

Drives seeded random histories of the four membership calls and the two
constructors over pools of vertices and (nested, self-containing) universes,
checks the C02 invariants after EVERY call, and records a transcript made only
of publicly observable facts (labels, list contents, exception classes).  The
transcript digest was recorded on the unchanged library; a behaviour-preserving
rewrite must reproduce it bit for bit.

Exit status 0 = everything as expected.
"""

import hashlib
import pickle
import random
import sys

from edgegraph.structure import base
from edgegraph.structure.universe import Universe
from edgegraph.structure.vertex import Vertex
from edgegraph.output import nrpickler

EXPECTED_DIGEST = "1945e975a00f829a2f02cb5c168c6130853e3a1ef95a4e162ce53613673a3dcb"

LOG = []
FAILURES = []


def log(*parts):
    LOG.append(" ".join(str(p) for p in parts))


def check(cond, msg):
    if not cond:
        FAILURES.append(msg)
        log("FAIL", msg)


class KeyVertex(Vertex):
    """Equal-but-not-identical vertices: compare / hash by ``key``."""

    def __init__(self, key, **kwargs):
        self.key = key
        super().__init__(**kwargs)

    def __eq__(self, other):
        return isinstance(other, KeyVertex) and other.key == self.key

    def __hash__(self):
        return hash(("KeyVertex", self.key))


class FalsyVertex(Vertex):
    """A vertex that is falsy and has length 0."""

    def __bool__(self):
        return False

    def __len__(self):
        return 0


class SpyUniverse(Universe):
    """Records which public calls reach it from the other side."""

    calls = []

    def add_vertex(self, vert):
        SpyUniverse.calls.append(("add_vertex", id(self), id(vert)))
        return super().add_vertex(vert)

    def remove_vertex(self, vert):
        SpyUniverse.calls.append(("remove_vertex", id(self), id(vert)))
        return super().remove_vertex(vert)

    @property
    def vertices(self):
        SpyUniverse.calls.append(("vertices", id(self)))
        return super().vertices


class SpyVertex(Vertex):
    """Records which public calls reach it from the universe side."""

    calls = []

    def add_to_universe(self, universe):
        SpyVertex.calls.append(("add_to_universe", id(self), id(universe)))
        return super().add_to_universe(universe)

    def remove_from_universe(self, universe):
        SpyVertex.calls.append(("remove_from_universe", id(self), id(universe)))
        return super().remove_from_universe(universe)

    @property
    def universes(self):
        SpyVertex.calls.append(("universes", id(self)))
        return super().universes


# --------------------------------------------------------------------------
# invariants


def names(objs, label):
    return [label[id(o)] for o in objs]


def identity_dupes(objs):
    seen = set()
    for o in objs:
        if id(o) in seen:
            return True
        seen.add(id(o))
    return False


def check_invariants(pool, unis, label, where):
    """C02: symmetric, duplicate free; fresh list objects on every read."""
    for u in unis:
        verts = u.vertices
        check(type(verts) is list, f"{where}: vertices is not a list")
        check(verts is not u.vertices, f"{where}: vertices not a fresh copy")
        check(not identity_dupes(verts), f"{where}: dup in {label[id(u)]}.vertices")
        for v in verts:
            if isinstance(v, Vertex):
                check(
                    any(x is u for x in v.universes),
                    f"{where}: {label[id(v)]} in {label[id(u)]}.vertices "
                    "but not the other way round",
                )
    for v in pool:
        mine = v.universes
        check(type(mine) is list, f"{where}: universes is not a list")
        check(mine is not v.universes, f"{where}: universes not a fresh copy")
        check(not identity_dupes(mine), f"{where}: dup in {label[id(v)]}.universes")
        if isinstance(v, Vertex):
            for u in mine:
                check(
                    any(x is v for x in u.vertices),
                    f"{where}: {label[id(u)]} in {label[id(v)]}.universes "
                    "but not the other way round",
                )


def snapshot(pool, unis, label):
    out = []
    for u in unis:
        out.append(f"{label[id(u)]}.V={names(u.vertices, label)}")
    for v in pool:
        out.append(f"{label[id(v)]}.U={names(v.universes, label)}")
    return " ".join(out)


# --------------------------------------------------------------------------
# random histories


def run_history(seed, steps):
    rng = random.Random(seed)
    label = {}
    unis = []
    pool = []

    def register(obj, prefix):
        label[id(obj)] = f"{prefix}{len(pool)}"
        pool.append(obj)
        if isinstance(obj, Universe):
            unis.append(obj)
        return obj

    # a start pool: three universes, three vertices, one falsy vertex
    for _ in range(3):
        register(Universe(), "U")
    for _ in range(3):
        register(Vertex(), "V")
    register(FalsyVertex(), "F")

    expected_order = {id(u): [] for u in unis}

    for step in range(steps):
        where = f"seed {seed} step {step}"
        op = rng.choice(
            [
                "u.add",
                "u.add",
                "u.rem",
                "v.add",
                "v.add",
                "v.rem",
                "new.vertex",
                "new.universe",
            ]
        )
        if op == "new.vertex" and len(pool) < 14:
            # duplicates in universes= on purpose
            chosen = [rng.choice(unis) for _ in range(rng.randint(0, 4))]
            kind = rng.choice(["list", "tuple", "gen", "none"])
            arg = {
                "list": lambda: list(chosen),
                "tuple": lambda: tuple(chosen),
                "gen": lambda: (c for c in chosen),
                "none": lambda: None,
            }[kind]()
            new = register(Vertex(universes=arg), "V")
            log(step, op, kind, names(chosen, label), "->", label[id(new)])
        elif op == "new.universe" and len(pool) < 14:
            chosen = [rng.choice(pool) for _ in range(rng.randint(0, 4))]
            kind = rng.choice(["list", "tuple", "gen", "none"])
            arg = {
                "list": lambda: list(chosen),
                "tuple": lambda: tuple(chosen),
                "gen": lambda: (c for c in chosen),
                "none": lambda: None,
            }[kind]()
            new = register(Universe(vertices=arg), "U")
            expected_order[id(new)] = []
            log(step, op, kind, names(chosen, label), "->", label[id(new)])
        else:
            u = rng.choice(unis)
            v = rng.choice(pool)  # may be a universe, may be u itself
            before = snapshot(pool, unis, label)
            try:
                if op == "u.add":
                    res = u.add_vertex(v)
                elif op == "u.rem":
                    res = u.remove_vertex(v)
                elif op == "v.add":
                    res = v.add_to_universe(u)
                elif op == "v.rem":
                    res = v.remove_from_universe(u)
                else:
                    res = None
                log(step, op, label[id(u)], label[id(v)], "->", repr(res))
            except Exception as exc:  # pylint: disable=broad-except
                log(step, op, label[id(u)], label[id(v)], "raised", type(exc).__name__)
                check(
                    type(exc) is ValueError,
                    f"{where}: unexpected exception class {type(exc).__name__}",
                )
                check(
                    op in ("u.rem", "v.rem"),
                    f"{where}: only removals of non-members may raise",
                )
                check(
                    snapshot(pool, unis, label) == before,
                    f"{where}: a failed removal changed something",
                )

        # insertion order: every universe's list is the previous list with
        # things taken out, plus (possibly) new things at the END
        for u in unis:
            prev = expected_order[id(u)]
            now = [id(x) for x in u.vertices]
            kept = [i for i in prev if i in now]
            check(
                now[: len(kept)] == kept,
                f"{where}: {label[id(u)]}.vertices not in insertion order",
            )
            expected_order[id(u)] = now

        check_invariants(pool, unis, label, where)
        log("   ", snapshot(pool, unis, label))

    # pickles (both picklers) keep the membership, in order, on both sides
    for dumper in (pickle.dumps, nrpickler.dumps):
        clone_pool = pickle.loads(dumper(pool))
        clone_label = {id(c): label[id(o)] for c, o in zip(clone_pool, pool)}
        clone_unis = [c for c in clone_pool if isinstance(c, Universe)]
        check(
            snapshot(clone_pool, clone_unis, clone_label)
            == snapshot(pool, unis, label),
            f"seed {seed}: pickle round trip changed the membership",
        )
        check_invariants(clone_pool, clone_unis, clone_label, f"seed {seed} unpickled")
        # and the copies are still usable
        fresh = Vertex()
        clone_label[id(fresh)] = "fresh"
        clone_unis[0].add_vertex(fresh)
        check(clone_unis[0].vertices[-1] is fresh, "unpickled universe unusable")
        check(fresh.universes == [clone_unis[0]], "unpickled universe unusable (2)")
        fresh.remove_from_universe(clone_unis[0])
        check(fresh.universes == [], "unpickled universe unusable (3)")
        check(all(x is not fresh for x in clone_unis[0].vertices), "unusable (4)")


# --------------------------------------------------------------------------
# hand-written corner cases


def corner_cases():
    # --- a universe inside itself, from both sides
    u = Universe()
    u.add_vertex(u)
    check(u.vertices == [u] and u.universes == [u], "self membership (add_vertex)")
    u.add_vertex(u)
    u.add_to_universe(u)
    check(u.vertices == [u] and u.universes == [u], "self membership twice")
    u.remove_from_universe(u)
    check(u.vertices == [] and u.universes == [], "self membership removed")
    for remover in (u.remove_vertex, u.remove_from_universe):
        try:
            remover(u)
        except ValueError:
            log("self non-member removal: ValueError")
        else:
            check(False, "removing a non member (self) did not raise")
        check(u.vertices == [] and u.universes == [], "failed removal changed state")
    u.add_to_universe(u)
    check(u.vertices == [u] and u.universes == [u], "self membership (vertex side)")

    # --- two universes in each other
    a, b = Universe(), Universe()
    a.add_vertex(b)
    b.add_vertex(a)
    check(a.vertices == [b] and b.vertices == [a], "mutual membership")
    check(a.universes == [b] and b.universes == [a], "mutual membership (2)")
    c = Universe(vertices=[a, b, a])
    check(c.vertices == [a, b], "vertices= with a duplicate")
    check(a.universes == [b, c] and b.universes == [a, c], "vertices= back refs")

    # --- constructors: duplicates, generators, sets, empty, falsy containers
    v = Vertex(universes=[a, b, a, a, b])
    check(v.universes == [a, b], "universes= dedup keeps first-seen order")
    check(a.vertices[-1] is v and b.vertices[-1] is v, "universes= back refs")
    v2 = Vertex(universes=(x for x in [b, a, b]))
    check(v2.universes == [b, a], "universes= from a generator")
    v3 = Vertex(universes=[])
    v4 = Vertex(universes=None)
    check(v3.universes == [] and v4.universes == [], "empty universes=")
    u2 = Universe(vertices=(x for x in [v3, v4, v3]))
    check(u2.vertices == [v3, v4], "vertices= from a generator")
    u3 = Universe(vertices=frozenset([v3]))
    check(u3.vertices == [v3] and v3.universes == [u2, u3], "vertices= from a set")
    u4 = Universe(vertices=())
    check(u4.vertices == [], "vertices=()")
    for bad in (5, object()):
        for ctor in (
            lambda bad=bad: Universe(vertices=bad),
            lambda bad=bad: Vertex(universes=bad),
        ):
            try:
                ctor()
            except TypeError:
                log("non-iterable constructor argument: TypeError")
            else:
                check(False, "non-iterable constructor argument accepted")
    try:
        Vertex(universes=[[]])
    except TypeError:
        log("unhashable universe in universes=: TypeError")
    else:
        check(False, "unhashable universe accepted")

    # --- the copies handed out are independent of the internal state
    got = a.vertices
    got.append("junk")
    got2 = v.universes
    got2.clear()
    check("junk" not in a.vertices, "vertices hands out internal state")
    check(v.universes == [a, b], "universes hands out internal state")

    # --- falsy vertices are ordinary members
    f = FalsyVertex()
    a.add_vertex(f)
    check(a.vertices[-1] is f and f.universes == [a], "falsy vertex (add)")
    f.remove_from_universe(a)
    check(all(x is not f for x in a.vertices) and f.universes == [], "falsy (rem)")

    # --- plain BaseObjects can be listed; only the universe side is mirrored
    bo = base.BaseObject()
    a.add_vertex(bo)
    check(a.vertices[-1] is bo and bo.universes == [a], "BaseObject member")
    bo.add_to_universe(b)
    check(bo.universes == [a, b] and all(x is not bo for x in b.vertices), "BO(2)")
    a.remove_vertex(bo)
    check(bo.universes == [b] and all(x is not bo for x in a.vertices), "BO(3)")
    try:
        a.remove_vertex(bo)
    except ValueError:
        log("BaseObject non-member removal: ValueError")
    else:
        check(False, "BaseObject non-member removal did not raise")
    try:
        bo.remove_from_universe(a)
    except ValueError:
        log("BaseObject.remove_from_universe non-member: ValueError")
    else:
        check(False, "BaseObject.remove_from_universe non-member did not raise")
    check(bo.universes == [b], "failed BaseObject removal changed state")

    # --- equal but not identical vertices
    k1, k1b, k2 = KeyVertex("one"), KeyVertex("one"), KeyVertex("two")
    ku = Universe()
    ku.add_vertex(k1)
    ku.add_vertex(k1b)  # equal to k1: nothing happens
    ku.add_vertex(k2)
    log("equal vertices:", [x.key for x in ku.vertices], [x is k1 for x in ku.vertices])
    log("  k1.U", len(k1.universes), "k1b.U", len(k1b.universes))
    k1b.add_to_universe(ku)
    log("  after k1b.add_to_universe:", [x is k1b for x in ku.vertices], len(k1b.universes))
    ku.remove_vertex(KeyVertex("two"))
    log("  after removing an equal copy of k2:", [x.key for x in ku.vertices], len(k2.universes))
    try:
        ku.remove_vertex(KeyVertex("three"))
    except ValueError:
        log("  no equal member: ValueError")
    else:
        check(False, "removing something unequal to every member did not raise")
    k1b.remove_from_universe(ku)
    log("  after k1b.remove_from_universe:", [x.key for x in ku.vertices], len(k1.universes), len(k1b.universes))
    kv = Vertex(universes=[ku])
    kv2 = KeyVertex("dup", universes=[ku, ku])
    log("  keyed ctor:", [getattr(x, "key", "-") for x in ku.vertices], kv2.universes == [ku], kv.universes == [ku])

    # --- exactly which public calls travel to the other side, and in what order
    SpyUniverse.calls.clear()
    SpyVertex.calls.clear()
    su, sv = SpyUniverse(), SpyVertex()
    ids = {id(su): "su", id(sv): "sv"}

    def drain():
        out = []
        for rec in SpyUniverse.calls + ["|"] + SpyVertex.calls:
            out.append(rec if rec == "|" else (rec[0],) + tuple(ids.get(i, "?") for i in rec[1:]))
        SpyUniverse.calls.clear()
        SpyVertex.calls.clear()
        return out

    drain()
    su.add_vertex(sv)
    log("spy su.add_vertex(sv):", drain())
    su.add_vertex(sv)
    log("spy su.add_vertex(sv) again:", drain())
    sv.add_to_universe(su)
    log("spy sv.add_to_universe(su) again:", drain())
    su.remove_vertex(sv)
    log("spy su.remove_vertex(sv):", drain())
    sv.add_to_universe(su)
    log("spy sv.add_to_universe(su):", drain())
    sv.remove_from_universe(su)
    log("spy sv.remove_from_universe(su):", drain())
    for remover, arg in ((su.remove_vertex, sv), (sv.remove_from_universe, su)):
        try:
            remover(arg)
        except ValueError:
            log("spy non-member removal: ValueError", drain())
        else:
            check(False, "spy non-member removal did not raise")
    sv2 = SpyVertex(universes=[su, su])
    ids[id(sv2)] = "sv2"
    log("spy SpyVertex(universes=[su, su]):", drain())
    su2 = SpyUniverse(vertices=[sv, sv2, sv])
    ids[id(su2)] = "su2"
    log("spy SpyUniverse(vertices=[sv, sv2, sv]):", drain())
    check(su2.vertices == [sv, sv2], "spy universe contents")
    check(sv2.universes == [su, su2] and sv.universes == [su2], "spy vertex contents")

    # --- a half-way failure: the callback on the other side raises
    class Grumpy(Vertex):
        def add_to_universe(self, universe):
            raise RuntimeError("no")

    g = Grumpy()
    gu = Universe()
    try:
        gu.add_vertex(g)
    except RuntimeError:
        log("grumpy add:", [type(x).__name__ for x in gu.vertices], g.universes)
    else:
        check(False, "Grumpy did not raise")
    try:
        gu.add_vertex(g)
        log("grumpy add again: no exception", len(gu.vertices))
    except RuntimeError:
        log("grumpy add again: RuntimeError", len(gu.vertices))

    class GrumpyU(Universe):
        def remove_vertex(self, vert):
            raise RuntimeError("no")

    gu2 = GrumpyU()
    w = Vertex(universes=[gu2])
    try:
        w.remove_from_universe(gu2)
    except RuntimeError:
        log("grumpy remove:", len(gu2.vertices), len(w.universes))
    else:
        check(False, "GrumpyU did not raise")

    # --- the public attribute namespace is untouched
    plain = Universe()
    log("public names:", sorted(n for n in dir(plain) if not n.startswith("_")))
    log("public instance attributes:", sorted(n for n in vars(plain) if not n.startswith("_")))


def main():
    corner_cases()
    for seed in (1, 2, 3, 7, 11, 2024):
        run_history(seed, 120)

    digest = hashlib.sha256("\n".join(LOG).encode("utf-8")).hexdigest()
    if "--show" in sys.argv:
        print("\n".join(LOG))
    print("transcript lines:", len(LOG))
    print("digest:", digest)
    if FAILURES:
        print("FAILED CHECKS:")
        for f in FAILURES[:20]:
            print("  ", f)
        return 1
    if digest != EXPECTED_DIGEST:
        print("transcript differs from the one recorded on the unchanged code")
        return 1
    print("OK")
    return 0


if __name__ == "__main__":
    sys.exit(main())
