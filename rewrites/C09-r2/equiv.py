#!/usr/bin/env python3
"""
equiv.py for C09 / rewrite 2 (unlink() restructured; the neighbor cache of a
vertex stores immutable snapshots and counts through one helper).

Checks find_links() against an independent oracle, against neighbors() with
the neighbor cache switched on (cold and warm), after unlink() with every
flavour of ``destroy``, and across copies / pickles of cached vertices; also
checks the cache statistics text.  Exit status 0 = everything as expected.
"""

import copy
import gc
import itertools
import pickle
import random
import sys
import weakref

import dill

from edgegraph.structure import (
    Vertex,
    Universe,
    DirectedEdge,
    UnDirectedEdge,
    TwoEndedLink,
)
from edgegraph.traversal import helpers
from edgegraph.builder import explicit
from edgegraph.output import nrpickler

FAILS = []


def check(cond, msg):
    if not cond:
        FAILS.append(msg)
        print("FAIL:", msg)


class Odd(TwoEndedLink):
    """neither directed nor undirected"""


class Both(DirectedEdge, UnDirectedEdge):
    """directed AND undirected"""


class SubD(DirectedEdge):
    pass


LINK_CLASSES = [DirectedEdge, UnDirectedEdge, SubD, Odd, TwoEndedLink, Both]
UNKNOWN_MODES = [
    helpers.LNK_UNKNOWN_NONNEIGHBOR,
    helpers.LNK_UNKNOWN_NEIGHBOR,
    helpers.LNK_UNKNOWN_ERROR,
]
RAISES = object()


def reset(caching):
    Vertex.NEIGHBOR_CACHING = caching
    Vertex._CACHE_STATS = {}


def kind(link):
    cls = type(link)
    if issubclass(cls, UnDirectedEdge):
        return "u"
    if issubclass(cls, DirectedEdge):
        return "d"
    return "?"


def expected_links(a, b, dirsens, unknown, accept):
    out = []
    for link in a.links:
        e0, e1 = link.vertices
        if a is b:
            joins = e0 is a and e1 is a
        else:
            joins = (e0 is a and e1 is b) or (e0 is b and e1 is a)
        if not joins:
            continue
        if dirsens:
            k = kind(link)
            if k == "d" and e0 is not a:
                continue
            if k == "?":
                if unknown == helpers.LNK_UNKNOWN_NONNEIGHBOR:
                    continue
                if unknown != helpers.LNK_UNKNOWN_NEIGHBOR:
                    return RAISES
        if accept is not None and not accept(link):
            continue
        out.append(link)
    return out


def found(a, b, dirsens, unknown, filt):
    try:
        return helpers.find_links(a, b, dirsens, unknown, filt)
    except NotImplementedError:
        return RAISES


def same_members(got, exp):
    return (
        type(got) is set
        and len(got) == len(exp)
        and all(any(g is e for g in got) for e in exp)
    )


def make_world(rng, nverts, nlinks):
    verts = [Vertex(attributes={"i": i}) for i in range(nverts)]
    links = []
    for n in range(nlinks):
        cls = rng.choice(LINK_CLASSES)
        x = rng.choice(verts)
        y = x if rng.random() < 0.15 else rng.choice(verts)
        lnk = cls(x, y)
        lnk.n = n
        links.append(lnk)
    return verts, links


def even(e):
    return e.n % 2 == 0


def even_nb(e, v):
    return e.n % 2 == 0


FILTER_PAIRS = [(None, None), (even, even_nb)]  # (find_links, neighbors)


def property_with_cache(seed, caching):
    reset(caching)
    rng = random.Random(seed)
    verts, links = make_world(rng, 5, 24)

    def sweep(tag):
        for a, b in itertools.product(verts, verts):
            for dirsens, unknown, (ff, nbff) in itertools.product(
                [True, False], UNKNOWN_MODES, FILTER_PAIRS
            ):
                t = f"{tag} seed={seed} a={a.i} b={b.i} ds={dirsens} u={unknown}"
                exp = expected_links(a, b, dirsens, unknown, ff)
                got = found(a, b, dirsens, unknown, ff)
                if exp is RAISES:
                    check(got is RAISES, f"{t}: NotImplementedError expected")
                    continue
                check(got is not RAISES and same_members(got, exp), f"{t}: links")
                nbdir = (
                    helpers.DIR_SENS_FORWARD if dirsens else helpers.DIR_SENS_ANY
                )
                try:
                    nbs = helpers.neighbors(a, nbdir, unknown, nbff)
                except NotImplementedError:
                    continue
                check(type(nbs) is list, f"{t}: neighbors() gives a list")
                check(
                    sum(1 for n in nbs if n is b) == len(exp),
                    f"{t}: size vs neighbors() multiplicity",
                )
                # the caller owns the list: wrecking it must not leak into
                # later answers (cached or not)
                nbs.append(None)
                nbs.reverse()
                del nbs[:]

    sweep("cold")
    sweep("warm")  # second round is answered from the cache when it is on

    # unlink a pair, keeping the links
    a, b = verts[0], verts[1]
    exp_removed = expected_links(a, b, False, 2, None)
    others_before = {
        (x.i, y.i, ds, u): found(x, y, ds, u, None)
        for x, y in itertools.product(verts, verts)
        if {id(x), id(y)} != {id(a), id(b)}
        for ds in (True, False)
        for u in UNKNOWN_MODES
    }
    removed = explicit.unlink(a, b, destroy=False)
    check(same_members(removed, exp_removed), f"seed={seed}: unlink() result")
    for lnk in exp_removed:
        check(lnk.vertices == (), f"seed={seed}: removed link keeps ends")
        check(lnk not in a.links and lnk not in b.links, "still attached")
    for x, y in ((a, b), (b, a)):
        for ds, u, (ff, nbff) in itertools.product(
            [True, False], UNKNOWN_MODES, FILTER_PAIRS
        ):
            check(found(x, y, ds, u, ff) == set(), f"seed={seed}: left over")
        nbs = helpers.neighbors(x, helpers.DIR_SENS_ANY, helpers.LNK_UNKNOWN_NEIGHBOR)
        check(all(n is not y for n in nbs), f"seed={seed}: stale neighbors")
    for key, val in others_before.items():
        x, y = verts[key[0]], verts[key[1]]
        check(found(x, y, key[2], key[3], None) == val, f"{key}: disturbed")
    again = explicit.unlink(a, b, destroy=False)
    check(type(again) is set and again == set(), "second unlink finds nothing")
    check(again is not removed, "a new set every time")
    sweep("after-unlink")


def unlink_flavours():
    for caching in (False, True):
        reset(caching)
        for destroy in (True, 1, "x", [0], False, 0, None, "", []):
            a, b, c = Vertex(), Vertex(), Vertex()
            kept = [
                DirectedEdge(a, b),
                DirectedEdge(b, a),
                UnDirectedEdge(a, b),
                Odd(b, a),
                Both(a, b),
            ]
            outside = [DirectedEdge(a, c), UnDirectedEdge(c, b), DirectedEdge(a, a)]
            # warm the caches (also under the keys asked again below)
            check(
                helpers.neighbors(a, helpers.DIR_SENS_FORWARD, 1)
                == [b, b, b, b, c, a],
                "nb(a) before",
            )
            check(
                helpers.neighbors(b, helpers.DIR_SENS_ANY)
                == [a, a, a, a, a, c],
                "nb(b) before",
            )
            try:
                helpers.neighbors(a)
            except NotImplementedError:
                pass
            else:
                check(False, "unknown link class in error mode")
            res = explicit.unlink(a, b, destroy=destroy)
            if destroy:
                check(res is None, f"destroy={destroy!r}: returns None")
            else:
                check(
                    type(res) is set and same_members(res, kept),
                    f"destroy={destroy!r}: returns the removed links",
                )
            check(
                all(l.vertices == () for l in kept), f"destroy={destroy!r}: ends"
            )
            check(a.links == (outside[0], outside[2]), f"destroy={destroy!r}: a")
            check(b.links == (outside[1],), f"destroy={destroy!r}: b")
            check(helpers.neighbors(a) == [c, a], f"destroy={destroy!r}: nb(a)")
            check(
                helpers.neighbors(b, helpers.DIR_SENS_ANY) == [c],
                f"destroy={destroy!r}: nb(b)",
            )
            check(helpers.find_links(a, a) == {outside[2]}, "self loop kept")
            check(helpers.find_links(a, c) == {outside[0]}, "a->c kept")

        # self-pair: unlink(a, a) removes the loops only
        a, b = Vertex(), Vertex()
        l1, l2, l3 = DirectedEdge(a, a), Odd(a, a), DirectedEdge(a, b)
        res = explicit.unlink(a, a, destroy=False)
        check(same_members(res, [l1, l2]), "unlink(a, a) removes loops")
        check(a.links == (l3,), "unlink(a, a) keeps other links")
        check(helpers.find_links(a, a, False) == set(), "no loops left")

        # links nobody else refers to die with unlink(destroy=True)
        a, b = Vertex(), Vertex()
        ref = weakref.ref(DirectedEdge(a, b))
        ref2 = weakref.ref(UnDirectedEdge(b, a))
        check(ref() is not None and ref2() is not None, "links alive before")
        explicit.unlink(a, b)
        gc.collect()
        check(ref() is None and ref2() is None, "links gone after unlink")

        # unrelated vertices: nothing happens
        check(explicit.unlink(Vertex(), Vertex()) is None, "nothing to unlink")
        check(explicit.unlink(Vertex(), Vertex(), False) == set(), "empty set")

        # a failing unlink_from stops the operation where it is
        class Sticky(UnDirectedEdge):
            def unlink_from(self, kill):
                raise RuntimeError("sticky")

        a, b = Vertex(), Vertex()
        st = Sticky(a, b)
        try:
            explicit.unlink(a, b, destroy=False)
        except RuntimeError:
            pass
        else:
            check(False, "exception of unlink_from must propagate")
        check(helpers.find_links(a, b) == {st}, "sticky link still there")


def cache_statistics():
    reset(False)
    check(
        Vertex.total_cache_stats() == "Neighbor caching is DISABLED",
        "stats text while disabled",
    )
    reset(True)
    a, b, c = Vertex(), Vertex(), Vertex()
    DirectedEdge(a, b)
    UnDirectedEdge(a, c)
    first = helpers.neighbors(a)  # miss + insertion
    second = helpers.neighbors(a)  # hit
    check(first == [b, c] and second == [b, c], "same answer, cached or not")
    check(first is not second, "each call hands out its own list")
    first.clear()
    second.append(a)
    third = helpers.neighbors(a)  # hit
    check(third == [b, c], "callers cannot damage the cache")
    helpers.neighbors(a, helpers.DIR_SENS_ANY)  # other key: miss + insertion
    explicit.unlink(a, c)
    check(helpers.neighbors(a) == [b], "invalidated by unlink")  # miss + ins.
    check(helpers.neighbors(c, helpers.DIR_SENS_ANY) == [], "c is alone")
    text = Vertex.total_cache_stats()
    lines = text.split("\n")
    check(lines[0] == "=== CACHE STATISTICS OVERALL ===", "stats header")
    check(lines[1] == "Size:          3", f"stats size: {lines[1]!r}")
    check(lines[2] == "Hits:          2", f"stats hits: {lines[2]!r}")
    check(lines[3] == "Misses:        4", f"stats misses: {lines[3]!r}")
    check(lines[5] == "Insertions:    4", f"stats insertions: {lines[5]!r}")
    check(lines[4] == "Invalidations: 15", f"stats invalidations: {lines[4]!r}")
    check(len(lines) == 6, "stats has six lines")

    # equal-but-not-identical cache keys: 0 == False == 0.0, 2 == 2.0
    reset(True)
    a, b = Vertex(), Vertex()
    DirectedEdge(a, b)
    Odd(a, b)
    check(helpers.neighbors(a, 0, 1) == [b, b], "ints")
    check(helpers.neighbors(a, False, True) == [b, b], "bools")
    check(helpers.neighbors(a, 0.0, 1.0) == [b, b], "floats")
    check(helpers.neighbors(a, 0, 0) == [b], "nonneighbor")
    try:
        helpers.neighbors(a, 0, 2.0)
    except NotImplementedError:
        pass
    else:
        check(False, "error mode raises")
    # unhashable argument: such a query is never cached (since ffc7541; while
    # caching was on it raised TypeError before that), so caching on and off
    # behave alike and the statistics do not move
    stats_before = Vertex.total_cache_stats()
    for _ in range(2):
        try:
            helpers.neighbors(a, 0, [1])
        except NotImplementedError:
            pass
        else:
            check(False, "unhashable argument with caching on")
    check(
        Vertex.total_cache_stats() == stats_before,
        "unhashable argument is not counted",
    )
    reset(False)
    try:
        helpers.neighbors(a, 0, [1])
    except NotImplementedError:
        pass
    else:
        check(False, "unhashable argument with caching off")

    # answers stored while caching was on do not come back stale later
    reset(True)
    a, b, c = Vertex(), Vertex(), Vertex()
    DirectedEdge(a, b)
    check(helpers.neighbors(a) == [b], "cached")
    Vertex.NEIGHBOR_CACHING = False
    DirectedEdge(a, c)
    Vertex.NEIGHBOR_CACHING = True
    check(helpers.neighbors(a) == [b, c], "not stale after re-enabling")
    check(len(helpers.find_links(a, c)) == 1, "find_links agrees")


def copies_and_pickles():
    reset(True)
    uni = Universe()
    verts = [Vertex(attributes={"i": i}, universes=[uni]) for i in range(4)]
    a, b, c, d = verts
    DirectedEdge(a, b)
    DirectedEdge(a, b)
    UnDirectedEdge(b, a)
    Odd(a, c)
    DirectedEdge(c, a)
    DirectedEdge(d, d)
    for v in verts:  # fill the caches
        helpers.neighbors(v, helpers.DIR_SENS_FORWARD, 0)
        helpers.neighbors(v, helpers.DIR_SENS_FORWARD, 1)
        helpers.neighbors(v, helpers.DIR_SENS_ANY, helpers.LNK_UNKNOWN_NEIGHBOR)
        helpers.neighbors(v, helpers.DIR_SENS_BACKWARD, 0, even_like)

    def shape(u):
        vs = u.vertices
        idx = {id(v): v.i for v in vs}
        out = []
        for x in vs:
            for y in vs:
                for ds in (True, False):
                    for unk in (0, 1):
                        n = len(helpers.find_links(x, y, ds, unk))
                        mult = sum(
                            1
                            for z in helpers.neighbors(
                                x,
                                helpers.DIR_SENS_FORWARD
                                if ds
                                else helpers.DIR_SENS_ANY,
                                unk,
                            )
                            if z is y
                        )
                        out.append((x.i, y.i, ds, unk, n, mult))
            out.append(
                [idx[id(z)] for z in helpers.neighbors(x, 2, 0, even_like)]
            )
        return out

    want = shape(uni)
    clones = {
        "deepcopy": copy.deepcopy(uni),
        "pickle": pickle.loads(pickle.dumps(uni)),
        "dill": dill.loads(dill.dumps(uni)),
        "nrpickler": pickle.loads(nrpickler.dumps(uni)),
    }
    for name, clone in clones.items():
        check(shape(clone) == want, f"{name}: clone answers differently")
        check(shape(clone) == want, f"{name}: clone answers differently (warm)")
        x, y = clone.vertices[0], clone.vertices[1]
        explicit.unlink(x, y)
        check(helpers.find_links(x, y, False) == set(), f"{name}: unlink on clone")
        check(
            all(n is not y for n in helpers.neighbors(x, helpers.DIR_SENS_ANY, 1)),
            f"{name}: nb on clone",
        )
    check(shape(uni) == want, "original untouched by work on the clones")

    # a shallow copy shares the vertex' uid and, until either of them is
    # invalidated, the cached answers of the original
    twin = copy.copy(a)
    check(
        helpers.neighbors(twin, helpers.DIR_SENS_FORWARD, 1)
        == helpers.neighbors(a, helpers.DIR_SENS_FORWARD, 1),
        "shallow copy",
    )

    # a vertex unpickled into a process that never saw it has no stats row
    blob = pickle.dumps(uni)
    reset(True)
    fresh = pickle.loads(blob)
    check(shape(fresh) == want, "fresh load, empty statistics table")
    reset(False)
    fresh = pickle.loads(blob)
    check(shape(fresh) == want, "fresh load, caching off")


def even_like(e, v):
    return v.i % 2 == 0


def main():
    for caching in (True, False):
        for seed in (11, 12):
            property_with_cache(seed, caching)
    unlink_flavours()
    cache_statistics()
    copies_and_pickles()
    reset(False)
    if FAILS:
        print(f"{len(FAILS)} check(s) failed")
        return 1
    print("equiv: all checks passed")
    return 0


if __name__ == "__main__":
    sys.exit(main())
