#!/usr/bin/env python3
"""
equiv.py -- behavioural check for the traversal functions of edgegraph
(property C06: every traversal visits exactly the reachable in-universe
vertices, once each).

Only the public API is used.  The program contains

* an independent oracle written from the property statement (reachability
  closure over an independently written ``neighbors`` rule),
* independent reference models of the three documented visiting orders (FIFO
  breadth-first, recursive pre-order depth-first, stack based depth-first)
  that also predict the exact sequence of calls made to ``ff_via`` and
  ``ff_result`` and how they interleave with the items handed out by the
  generator forms,
* scripted corner cases (empty universe, foreign start vertex, laziness,
  self-loops, parallel edges, ``None`` ends, unknown link classes, bad
  options, raising callbacks, falsy callables, unhashable vertex subclasses,
  mutation of graph / universe between two ``next()`` calls, early close,
  deep chains, pickling, cache statistics), and
* a seeded random differential part.

Everything is run with ``Vertex.NEIGHBOR_CACHING`` off and on.  Exit status 0
means every check passed.
"""

import pickle
import random
import re
import sys

from edgegraph.structure import (
    Vertex,
    Universe,
    DirectedEdge,
    UnDirectedEdge,
    TwoEndedLink,
)
from edgegraph.traversal import helpers
from edgegraph.traversal.breadthfirst import bft, ibft
from edgegraph.traversal.depthfirst import (
    dft_recursive,
    idft_recursive,
    dft_iterative,
    idft_iterative,
)

FWD = helpers.DIR_SENS_FORWARD
ANY = helpers.DIR_SENS_ANY
BWD = helpers.DIR_SENS_BACKWARD
U_NON = helpers.LNK_UNKNOWN_NONNEIGHBOR
U_NB = helpers.LNK_UNKNOWN_NEIGHBOR
U_ERR = helpers.LNK_UNKNOWN_ERROR

PAIRS = {
    "bft": (bft, ibft),
    "dft_recursive": (dft_recursive, idft_recursive),
    "dft_iterative": (dft_iterative, idft_iterative),
}

CHECKS = 0


def check(cond, msg):
    global CHECKS
    CHECKS += 1
    if not cond:
        raise AssertionError(msg)


class Boom(Exception):
    """Raised by callbacks on purpose."""


class OddLink(TwoEndedLink):
    """A link class that is neither directed nor undirected."""


# --------------------------------------------------------------------------
# independent oracle
# --------------------------------------------------------------------------


def ref_neighbors(v, direction, unknown, via, counter):
    """The documented neighbors() rule, written from the documentation."""
    links = v.links  # AttributeError for None, as in the library
    counter[0] += 1
    out = []
    for lnk in links:
        ends = lnk.vertices
        if v is ends[0]:
            other = ends[1]
        elif v is ends[1]:
            other = ends[0]
        else:
            other = None
        if direction == ANY:
            follow = True
        elif direction in (FWD, BWD):
            if isinstance(lnk, UnDirectedEdge):
                follow = True
            elif isinstance(lnk, DirectedEdge):
                near = ends[0] if direction == FWD else ends[1]
                follow = near is v
            elif unknown == U_NON:
                follow = False
            elif unknown == U_NB:
                follow = True
            else:
                raise NotImplementedError("unknown link class")
        else:
            raise ValueError("bad direction")
        if follow and (via is None or via(lnk, other)):
            out.append(other)
    return out


def member(uni, v):
    return any(x is v for x in uni.vertices)


def has(seq, v):
    return any(x is v for x in seq)


class Model:
    """Reference models; they record their own event log."""

    def __init__(self, uni, direction, unknown, via, res, log):
        self.uni = uni
        self.direction = direction
        self.unknown = unknown
        self.via = via
        self.res = res
        self.log = log
        self.nb_calls = [0]

    def nbs(self, v):
        return ref_neighbors(
            v, self.direction, self.unknown, self.via, self.nb_calls
        )

    def emit(self, v):
        if self.res is None or self.res(v):
            self.log.append(("yield", v))

    def inside(self, v):
        return self.uni is None or member(self.uni, v)

    def preflight(self, start, empty_is_error):
        """Returns False when the traversal is over before it started."""
        if self.uni is not None:
            if len(self.uni.vertices) == 0:
                if empty_is_error:
                    raise ValueError("empty")
                return False
            if not member(self.uni, start):
                raise ValueError("foreign start")
        return True

    def bft(self, start):
        if not self.preflight(start, False):
            return
        seen = [start]
        fifo = [start]
        self.emit(start)
        while fifo:
            u = fifo.pop(0)
            for w in self.nbs(u):
                if not self.inside(w):
                    continue
                if not has(seen, w):
                    seen.append(w)
                    fifo.append(w)
                    self.emit(w)

    def dft_recursive(self, start):
        self.preflight(start, True)
        seen = []

        def go(v):
            seen.append(v)
            self.emit(v)
            for w in self.nbs(v):
                if self.inside(w) and not has(seen, w):
                    go(w)

        go(start)

    def dft_iterative(self, start):
        self.preflight(start, True)
        todo = [start]
        done = []
        while todo:
            v = todo.pop()
            if has(done, v) or not self.inside(v):
                continue
            done.append(v)
            self.emit(v)
            todo.extend(self.nbs(v))


def closure(uni, start, direction, unknown, via):
    """Reachability straight from the property statement."""
    reach = [start]
    grew = True
    while grew:
        grew = False
        for u in list(reach):
            for w in ref_neighbors(u, direction, unknown, via, [0]):
                if (uni is None or member(uni, w)) and not has(reach, w):
                    reach.append(w)
                    grew = True
    return reach


# --------------------------------------------------------------------------
# callbacks
# --------------------------------------------------------------------------

TRUTHY = [True, 1, "y", [0], 2.5]
FALSY = [False, 0, "", None, [], 0.0]


def make_via(salt, log, label, raise_at=None):
    """ff_via deciding from (edge, vertex) only; optionally raising."""
    if salt is None:
        return None
    n = [0]

    def via(edge, v2):
        log.append(("via", edge, v2))
        n[0] += 1
        if raise_at is not None and n[0] == raise_at:
            raise Boom("via")
        h = (label(edge) * 31 + label(v2) * 17 + salt * 7) % 11
        if h < 7:
            return TRUTHY[h % len(TRUTHY)]
        return FALSY[h % len(FALSY)]

    return via


def make_res(salt, log, label, raise_at=None):
    if salt is None:
        return None
    n = [0]

    def res(v):
        log.append(("res", v))
        n[0] += 1
        if raise_at is not None and n[0] == raise_at:
            raise Boom("res")
        h = (label(v) * 13 + salt * 5) % 7
        if h < 4:
            return TRUTHY[h % len(TRUTHY)]
        return FALSY[h % len(FALSY)]

    return res


def same_events(a, b):
    if len(a) != len(b):
        return False
    for x, y in zip(a, b):
        if len(x) != len(y) or x[0] != y[0]:
            return False
        if any(p is not q for p, q in zip(x[1:], y[1:])):
            return False
    return True


def same_items(a, b):
    return len(a) == len(b) and all(p is q for p, q in zip(a, b))


# --------------------------------------------------------------------------
# cache statistics through the public report
# --------------------------------------------------------------------------


COUNT_LOOKUPS = True  # the report walks over every vertex ever made: sample


def lookups():
    """Hits + misses according to Vertex.total_cache_stats(), or None."""
    if not COUNT_LOOKUPS:
        return None
    txt = Vertex.total_cache_stats()
    if "DISABLED" in txt:
        return None
    hits = int(re.search(r"Hits:\s+(\d+)", txt).group(1))
    miss = int(re.search(r"Misses:\s+(\d+)", txt).group(1))
    return hits + miss


# --------------------------------------------------------------------------
# running one configuration against the models
# --------------------------------------------------------------------------


def snapshot(objs):
    snap = []
    for o in objs:
        if o is None:
            continue
        pub = sorted(k for k in vars(o) if not k.startswith("_"))
        extra = ()
        if isinstance(o, Vertex):
            extra = (tuple(o.links), tuple(o.universes))
        if isinstance(o, Universe):
            extra = extra + (tuple(o.vertices),)
        snap.append((o, pub, extra))
    return snap


def same_snapshot(a, b):
    if len(a) != len(b):
        return False
    for (o1, p1, e1), (o2, p2, e2) in zip(a, b):
        if o1 is not o2 or p1 != p2 or len(e1) != len(e2):
            return False
        for t1, t2 in zip(e1, e2):
            if not same_items(list(t1), list(t2)):
                return False
    return True


def run_config(
    name,
    uni,
    start,
    label,
    direction=FWD,
    unknown=U_ERR,
    via_salt=None,
    res_salt=None,
    via_raise=None,
    res_raise=None,
    watched=(),
    ctx="",
):
    """
    Run list form and generator form of traversal ``name`` and compare them
    with the reference model.  Returns (items, exception class or None).
    """
    lst, gen = PAIRS[name]
    ctx = f"{ctx} {name} dir={direction} unk={unknown} via={via_salt}/{via_raise} res={res_salt}/{res_raise}"

    # -- model
    mlog = []
    model = Model(
        uni,
        direction,
        unknown,
        make_via(via_salt, mlog, label, via_raise),
        make_res(res_salt, mlog, label, res_raise),
        mlog,
    )
    mexc = None
    try:
        getattr(model, name)(start)
    except (ValueError, NotImplementedError, Boom, AttributeError) as exc:
        mexc = type(exc)
    m_items = [e[1] for e in mlog if e[0] == "yield"]
    m_calls = [e for e in mlog if e[0] != "yield"]

    before = snapshot(watched)

    # -- generator form, with every handed out item logged
    glog = []
    kwargs = dict(
        direction_sensitive=direction,
        unknown_handling=unknown,
        ff_via=make_via(via_salt, glog, label, via_raise),
        ff_result=make_res(res_salt, glog, label, res_raise),
    )
    l0 = lookups()
    g = gen(uni, start, **kwargs)
    check(not glog, f"{ctx}: generator form did work before first next()")
    check(iter(g) is g, f"{ctx}: generator form is not an iterator")
    gexc = None
    try:
        for item in g:
            glog.append(("yield", item))
    except (ValueError, NotImplementedError, Boom, AttributeError) as exc:
        gexc = type(exc)
    l1 = lookups()
    check(gexc is mexc, f"{ctx}: generator raised {gexc}, model {mexc}")
    check(
        same_events(glog, mlog),
        f"{ctx}: generator event trace differs from the model\n"
        f"  got  {[(e[0],) + tuple(label(x) for x in e[1:]) for e in glog]}\n"
        f"  want {[(e[0],) + tuple(label(x) for x in e[1:]) for e in mlog]}",
    )
    # an exhausted / failed generator stays finished
    check(next(g, "END") == "END", f"{ctx}: generator not finished")
    if l0 is not None:
        check(
            l1 - l0 == model.nb_calls[0],
            f"{ctx}: {l1 - l0} neighbor lookups, model {model.nb_calls[0]}",
        )

    # -- list form
    llog = []
    kwargs["ff_via"] = make_via(via_salt, llog, label, via_raise)
    kwargs["ff_result"] = make_res(res_salt, llog, label, res_raise)
    lexc = None
    out = None
    try:
        out = lst(uni, start, **kwargs)
    except (ValueError, NotImplementedError, Boom, AttributeError) as exc:
        lexc = type(exc)
    check(lexc is mexc, f"{ctx}: list form raised {lexc}, model {mexc}")
    check(
        same_events(llog, m_calls),
        f"{ctx}: list form callback sequence differs from the model",
    )
    if mexc is None:
        check(type(out) is list, f"{ctx}: list form returned {type(out)}")
        check(
            same_items(out, m_items),
            f"{ctx}: list form {[label(x) for x in out]} "
            f"model {[label(x) for x in m_items]}",
        )

    check(
        same_snapshot(before, snapshot(watched)),
        f"{ctx}: traversal changed the observable state of the graph",
    )
    return m_items, mexc


def run_all(
    uni,
    start,
    label,
    direction,
    unknown,
    via_salt,
    res_salt,
    watched,
    ctx,
):
    """All three traversals + the statement-level checks."""
    plain = {}
    for name in PAIRS:
        items, exc = run_config(
            name,
            uni,
            start,
            label,
            direction,
            unknown,
            via_salt,
            None,
            watched=watched,
            ctx=ctx,
        )
        plain[name] = (items, exc)

    excs = {e for _, e in plain.values()}
    predictable = not (
        (excs - {None})
        or (uni is not None and len(uni.vertices) == 0)
        or (uni is not None and not member(uni, start))
    )
    if predictable:
        # statement: exactly the reachable vertices, once each, start first
        reach = closure(
            uni, start, direction, unknown, make_via(via_salt, [], label)
        )
        for name, (items, _) in plain.items():
            check(items[0] is start, f"{ctx} {name}: does not begin at start")
            check(
                len(items) == len(reach)
                and all(has(reach, v) for v in items)
                and all(has(items, v) for v in reach),
                f"{ctx} {name}: visited {[label(v) for v in items]}, "
                f"reachable {[label(v) for v in reach]}",
            )
            for i, v in enumerate(items):
                check(
                    not has(items[:i], v), f"{ctx} {name}: repeated vertex"
                )

    if res_salt is not None:
        for name in PAIRS:
            items, exc = run_config(
                name,
                uni,
                start,
                label,
                direction,
                unknown,
                via_salt,
                res_salt,
                watched=watched,
                ctx=ctx,
            )
            if exc is None and plain[name][1] is None:
                keep = make_res(res_salt, [], label)
                want = [v for v in plain[name][0] if keep(v)]
                check(
                    same_items(items, want),
                    f"{ctx} {name}: ff_result changed more than the listing",
                )
    return plain


# --------------------------------------------------------------------------
# scripted corner cases
# --------------------------------------------------------------------------


def labeller(objs):
    """Deterministic small integers for the given objects and their links."""
    objs = list(objs)
    for o in list(objs):
        for lnk in getattr(o, "links", ()):
            if not has(objs, lnk):
                objs.append(lnk)
    table = {id(o): i for i, o in enumerate(objs)}

    def label(o):
        if o is None:
            return -1
        return table[id(o)]

    label.keep = objs  # keep the ids alive
    return label


def vs(n, uni=None):
    out = []
    for i in range(n):
        out.append(
            Vertex(
                attributes={"i": i},
                universes=[uni] if uni is not None else None,
            )
        )
    return out


def expect_raises(cls, fn, msg):
    try:
        fn()
    except cls:
        check(True, msg)
        return
    except BaseException as exc:  # noqa
        raise AssertionError(f"{msg}: raised {type(exc)} instead of {cls}")
    raise AssertionError(f"{msg}: did not raise {cls}")


def scripted():
    # ---- empty universe
    empty = Universe()
    lone = Vertex()
    check(bft(empty, lone) == [], "bft on an empty universe is not []")
    check(bft(empty, None) == [], "bft(empty, None) is not []")
    check(list(ibft(empty, lone)) == [], "ibft on an empty universe")
    for f in (dft_recursive, dft_iterative):
        expect_raises(
            ValueError, lambda f=f: f(empty, lone), f"{f.__name__} empty uni"
        )
    for f in (idft_recursive, idft_iterative):
        g = f(empty, lone)  # lazy: nothing yet
        expect_raises(
            ValueError, lambda g=g: next(g), f"{f.__name__} empty uni"
        )
        check(next(g, "END") == "END", "generator alive after ValueError")
    # ff_result is not consulted at all for an empty universe
    seen = []
    check(
        bft(empty, lone, ff_result=lambda v: seen.append(v) or True) == []
        and not seen,
        "bft consulted ff_result on an empty universe",
    )

    # ---- foreign start vertex
    uni = Universe()
    a, b, c = vs(3, uni)
    DirectedEdge(a, b)
    DirectedEdge(b, c)
    stranger = Vertex()
    DirectedEdge(stranger, a)
    for f in (bft, dft_recursive, dft_iterative):
        expect_raises(
            ValueError,
            lambda f=f: f(uni, stranger),
            f"{f.__name__} foreign start",
        )
        expect_raises(
            ValueError,
            lambda f=f: f(uni, None),
            f"{f.__name__} start None in a non-empty universe",
        )
    for f in (ibft, idft_recursive, idft_iterative):
        calls = []
        g = f(uni, stranger, ff_result=lambda v: calls.append(v) or True)
        expect_raises(ValueError, lambda g=g: next(g), f"{f.__name__} lazy")
        check(not calls, "ff_result called before the pre-flight checks")
    # without universe limits the stranger is fine
    for f in (bft, dft_recursive, dft_iterative):
        check(
            same_items(f(None, stranger), [stranger, a, b, c]),
            f"{f.__name__}(None, stranger)",
        )

    # ---- result identity, fresh list each time
    r1 = bft(uni, a)
    r2 = bft(uni, a)
    check(r1 is not r2 and same_items(r1, r2), "bft result lists")
    r1.clear()
    check(same_items(bft(uni, a), [a, b, c]), "result list is not private")

    # ---- documented orders on the picture of the module docstrings
    tree = Universe()
    t = vs(13, tree)  # t[1]..t[12]
    for x, y in [
        (1, 2),
        (1, 3),
        (1, 4),
        (2, 5),
        (2, 6),
        (4, 7),
        (4, 8),
        (5, 9),
        (5, 10),
        (7, 11),
        (7, 12),
    ]:
        DirectedEdge(t[x], t[y])
    check(
        [v.i for v in bft(tree, t[1])] == list(range(1, 13)),
        "bft order on the documented tree",
    )
    check(
        [v.i for v in dft_recursive(tree, t[1])]
        == [1, 2, 5, 9, 10, 6, 3, 4, 7, 11, 12, 8],
        "dft_recursive order on the documented tree",
    )
    check(
        [v.i for v in dft_iterative(tree, t[1])]
        == [1, 4, 8, 7, 12, 11, 3, 2, 6, 5, 10, 9],
        "dft_iterative order on the documented tree",
    )
    check(
        [v.i for v in bft(tree, t[12], direction_sensitive=BWD)]
        == [12, 7, 4, 1],
        "bft backwards",
    )
    check(
        [v.i for v in dft_iterative(tree, t[5], direction_sensitive=ANY)]
        == [5, 10, 9, 2, 6, 1, 4, 8, 7, 12, 11, 3],
        "dft_iterative any direction",
    )

    # ---- self loops, parallel edges, both directions, a cycle
    uni = Universe()
    p = vs(4, uni)
    DirectedEdge(p[0], p[0])
    UnDirectedEdge(p[0], p[0])
    DirectedEdge(p[0], p[1])
    DirectedEdge(p[0], p[1])
    UnDirectedEdge(p[1], p[0])
    DirectedEdge(p[1], p[2])
    DirectedEdge(p[2], p[0])
    DirectedEdge(p[3], p[2])
    lab = labeller(p)
    for d in (FWD, ANY, BWD):
        for s in p:
            run_all(uni, s, lab, d, U_ERR, None, 3, p + [uni], "loops")
            run_all(uni, s, lab, d, U_ERR, 2, None, p + [uni], "loops")

    # ---- vertices outside the universe are walls, even when they bridge
    uni = Universe()
    q = vs(3, uni)
    wall = Vertex(attributes={"i": 99})
    DirectedEdge(q[0], wall)
    DirectedEdge(wall, q[1])
    DirectedEdge(q[0], q[2])
    for f in (bft, dft_recursive, dft_iterative):
        check(same_items(f(uni, q[0]), [q[0], q[2]]), f"{f.__name__} wall")
        check(
            len(f(None, q[0])) == 4 and f(None, q[0])[0] is q[0],
            f"{f.__name__} no wall without universe",
        )

    # ---- a universe that is itself a vertex of another universe
    outer = Universe()
    inner = Universe()
    outer.add_vertex(inner)
    z = Vertex(universes=[outer])
    DirectedEdge(inner, z)
    for f in (bft, dft_recursive, dft_iterative):
        check(same_items(f(outer, inner), [inner, z]), "universe as vertex")
        if f is bft:
            check(f(inner, inner) == [], "bft in an empty inner universe")
        else:
            expect_raises(ValueError, lambda f=f: f(inner, inner), "inner")

    # ---- link with a missing end: None shows up as a neighbor
    uni = Universe()
    h = vs(2, uni)
    DirectedEdge(h[0], None)
    DirectedEdge(h[0], h[1])
    for f in (bft, dft_recursive, dft_iterative):
        check(same_items(f(uni, h[0]), h), f"{f.__name__} None end + uni")
    lab = labeller(h)
    for name in PAIRS:
        items, exc = run_config(name, None, h[0], lab, watched=h)
        check(exc is AttributeError, f"{name}: None end without universe")
    g = ibft(None, h[0])
    check(next(g) is h[0] and next(g) is None and next(g) is h[1], "ibft None")
    expect_raises(AttributeError, lambda: next(g), "ibft expands None")
    g = idft_recursive(None, h[0])
    check(next(g) is h[0] and next(g) is None, "idft_recursive None")
    expect_raises(AttributeError, lambda: next(g), "idft_recursive None")
    g = idft_iterative(None, h[0])
    check(next(g) is h[0] and next(g) is h[1], "idft_iterative None")
    check(next(g) is None, "idft_iterative None (2)")
    expect_raises(AttributeError, lambda: next(g), "idft_iterative None")

    # ---- unknown link classes and bad options
    uni = Universe()
    k = vs(4, uni)
    DirectedEdge(k[0], k[1])
    OddLink(k[1], k[2])
    DirectedEdge(k[2], k[3])
    lab = labeller(k)
    for d in (FWD, ANY, BWD, 3, -1):
        for u in (U_NON, U_NB, U_ERR, 7):
            for s in k:
                run_all(uni, s, lab, d, u, None, None, k + [uni], "odd")
                run_all(uni, s, lab, d, u, 5, 1, k + [uni], "odd")
    g = ibft(uni, k[0])
    check(next(g) is k[0] and next(g) is k[1], "ibft before unknown link")
    expect_raises(NotImplementedError, lambda: next(g), "ibft unknown link")
    # a bad direction is only noticed when a vertex with links is expanded
    solo = Vertex()
    for f in (bft, dft_recursive, dft_iterative):
        check(
            same_items(f(None, solo, direction_sensitive=42), [solo]),
            "bad direction on an isolated vertex",
        )
        expect_raises(
            ValueError,
            lambda f=f: f(uni, k[0], direction_sensitive=42),
            "bad direction",
        )

    # ---- callbacks that raise at every possible point
    uni = Universe()
    m = vs(5, uni)
    DirectedEdge(m[0], m[1])
    UnDirectedEdge(m[0], m[2])
    DirectedEdge(m[1], m[3])
    DirectedEdge(m[2], m[3])
    DirectedEdge(m[3], m[4])
    DirectedEdge(m[4], m[0])
    lab = labeller(m)
    for name in PAIRS:
        for d in (FWD, ANY, BWD):
            for at in range(1, 14):
                run_config(
                    name, uni, m[0], lab, d, via_salt=0, via_raise=at,
                    watched=m, ctx="via-raise",
                )
                run_config(
                    name, uni, m[0], lab, d, via_salt=0, res_salt=0,
                    res_raise=at, watched=m, ctx="res-raise",
                )
                run_config(
                    name, uni, m[0], lab, d, res_salt=1, res_raise=at,
                    watched=m, ctx="res-raise",
                )

    # ---- callables that are falsy are treated like "no filter"
    class Quiet:
        def __init__(self):
            self.calls = 0

        def __bool__(self):
            return False

        def __call__(self, *args):
            self.calls += 1
            return False

    class Sized(list):
        def __call__(self, *args):
            self.append(args)
            return False

    for f in (bft, dft_recursive, dft_iterative):
        quiet = Quiet()
        check(
            same_items(f(uni, m[0], ff_result=quiet), f(uni, m[0]))
            and quiet.calls == 0,
            f"{f.__name__}: falsy ff_result",
        )
        sized = Sized()
        check(
            same_items(f(uni, m[0], ff_result=sized), f(uni, m[0]))
            and len(sized) == 0,
            f"{f.__name__}: empty (falsy) callable container as ff_result",
        )
        quiet = Quiet()
        # ff_via is compared with None only: a falsy callable is still used
        check(
            same_items(f(uni, m[0], ff_via=quiet), [m[0]])
            and quiet.calls == 2,
            f"{f.__name__}: falsy ff_via",
        )

    # ---- vertex subclasses that compare / hash in their own way
    class Plain(Vertex):
        def __eq__(self, other):
            return self is other

        # no __hash__: instances are unhashable

    uni = Universe()
    u0 = Plain(universes=[uni])
    u1 = Plain(universes=[uni])
    DirectedEdge(u0, u1)
    DirectedEdge(u1, u0)
    check(same_items(dft_iterative(uni, u0), [u0, u1]), "unhashable, iter")
    for f in (ibft, idft_recursive):
        got = []
        g = f(uni, u0, ff_result=lambda v: got.append(v) or True)
        expect_raises(TypeError, lambda g=g: next(g), f"{f.__name__} unhash")
        check(not got, f"{f.__name__}: yielded before TypeError")

    class Loud(Vertex):
        """Counts comparisons; equality by identity, hashable."""

        eqs = 0

        def __eq__(self, other):
            Loud.eqs += 1
            return self is other

        def __hash__(self):
            return 7  # every instance collides

    uni = Universe()
    w = [Loud(universes=[uni], attributes={"i": i}) for i in range(5)]
    for x, y in [(0, 1), (0, 2), (1, 3), (2, 3), (3, 4), (4, 0)]:
        DirectedEdge(w[x], w[y])
    check(same_items(bft(uni, w[0]), [w[0], w[1], w[2], w[3], w[4]]), "loud")
    check(
        same_items(dft_recursive(uni, w[0]), [w[0], w[1], w[3], w[4], w[2]]),
        "loud rec",
    )
    check(
        same_items(dft_iterative(uni, w[0]), [w[0], w[2], w[3], w[4], w[1]]),
        "loud iter",
    )

    # ---- laziness: graph and universe may change between two next() calls
    def fresh():
        uni = Universe()
        n = vs(5, uni)
        DirectedEdge(n[0], n[1])
        DirectedEdge(n[0], n[2])
        DirectedEdge(n[2], n[3])
        return uni, n

    # (1) drop n2 from the universe right after the start was handed out
    for f, want in (
        (ibft, [1]),
        (idft_recursive, [1]),
        (idft_iterative, [1]),
    ):
        uni, n = fresh()
        g = f(uni, n[0])
        check(next(g) is n[0], "first item")
        uni.remove_vertex(n[2])
        check([v.i for v in g] == want, f"{f.__name__}: universe shrink (1)")
    # (2) drop n2 right after n2 itself was handed out: it is expanded anyway
    for f in (ibft, idft_recursive, idft_iterative):
        uni, n = fresh()
        g = f(uni, n[0])
        got = []
        for v in g:
            got.append(v.i)
            if v is n[2]:
                uni.remove_vertex(n[2])
        check(sorted(got) == [0, 1, 2, 3], f"{f.__name__}: shrink (2) {got}")
    # (3) bft has n2 queued when n1 is handed out; the stack version filters
    #     when popping, so there the removal after n2... is seen differently
    uni, n = fresh()
    g = ibft(uni, n[0])
    check(next(g) is n[0] and next(g) is n[1], "ibft first two")
    uni.remove_vertex(n[2])
    check([v.i for v in g] == [], "ibft: n2 examined after removal")
    uni, n = fresh()
    g = idft_iterative(uni, n[0])
    check(next(g) is n[0] and next(g) is n[2], "idft_iterative first two")
    uni.remove_vertex(n[1])
    check([v.i for v in g] == [3], "idft_iterative: filter when popping")
    # (4) the universe grows / a link is added while suspended
    for f, want in (
        (ibft, [1, 2, 4, 3]),
        (idft_recursive, [1, 2, 3, 4]),
        (idft_iterative, [4, 2, 3, 1]),
    ):
        uni, n = fresh()
        g = f(uni, n[0])
        check(next(g) is n[0], "first item")
        DirectedEdge(n[0], n[4])
        check([v.i for v in g] == want, f"{f.__name__}: link added")
    # (5) emptied universe after the start: nothing else is inside
    for f in (ibft, idft_recursive, idft_iterative):
        uni, n = fresh()
        g = f(uni, n[0])
        check(next(g) is n[0], "first item")
        for v in list(uni.vertices):
            uni.remove_vertex(v)
        check(list(g) == [], f"{f.__name__}: emptied universe")
    # (6) a callback that edits the universe while the traversal runs
    for f, want in (
        (bft, [0, 1]),
        (dft_recursive, [0, 1]),
        (dft_iterative, [0, 1]),
    ):
        uni, n = fresh()

        def res(v, uni=uni, n=n):
            if v is n[0]:
                uni.remove_vertex(n[2])
            return True

        check(
            [v.i for v in f(uni, n[0], ff_result=res)] == want,
            f"{f.__name__}: ff_result edits the universe",
        )

        uni, n = fresh()

        def via(e, v2, uni=uni, n=n):
            if v2 is n[1]:
                uni.remove_vertex(n[1])
            return True

        got = [v.i for v in f(uni, n[0], ff_via=via)]
        check(got == [0, 2, 3], f"{f.__name__}: ff_via edits universe {got}")

    # ---- early close, throw and send on the generator forms
    for f in (ibft, idft_recursive, idft_iterative):
        uni, n = fresh()
        calls = []
        g = f(uni, n[0], ff_via=lambda e, v: calls.append(v) or True)
        check(next(g) is n[0], "first item")
        check(not calls, f"{f.__name__}: expanded before being resumed")
        g.close()
        check(next(g, "END") == "END" and not calls, "closed generator")
        g = f(uni, n[0])
        next(g)
        expect_raises(Boom, lambda g=g: g.throw(Boom("x")), "throw")
        check(next(g, "END") == "END", "generator alive after throw")
        g = f(uni, n[0])
        next(g)
        check(g.send("ignored") is not None, "send")

    # ---- same object everywhere
    solo_uni = Universe()
    solo_uni.add_vertex(solo_uni)
    UnDirectedEdge(solo_uni, solo_uni)
    for f in (bft, dft_recursive, dft_iterative):
        for d in (FWD, ANY, BWD):
            check(
                same_items(
                    f(solo_uni, solo_uni, direction_sensitive=d), [solo_uni]
                ),
                "universe containing and starting at itself",
            )



def scripted_big():
    # ---- long chain: the recursive form is bounded by the recursion limit
    uni = Universe()
    chain = vs(3000, uni)
    for x, y in zip(chain, chain[1:]):
        DirectedEdge(x, y)
    check(same_items(bft(uni, chain[0]), chain), "bft long chain")
    check(same_items(dft_iterative(uni, chain[0]), chain), "iter long chain")
    check(same_items(dft_recursive(uni, chain[2800]), chain[2800:]), "rec 200")
    old = sys.getrecursionlimit()
    sys.setrecursionlimit(1000)
    try:
        expect_raises(
            RecursionError,
            lambda: dft_recursive(uni, chain[0]),
            "dft_recursive on a chain of 3000",
        )
    finally:
        sys.setrecursionlimit(old)
    # wide fan
    uni = Universe()
    fan = vs(800, uni)
    for x in fan[1:]:
        DirectedEdge(fan[0], x)
        DirectedEdge(x, fan[0])
    check(same_items(bft(uni, fan[0]), fan), "bft fan")
    check(same_items(dft_recursive(uni, fan[0]), fan), "rec fan")
    check(
        same_items(dft_iterative(uni, fan[0]), [fan[0]] + fan[:0:-1]),
        "iter fan",
    )

    # ---- pickling round trip
    uni = Universe()
    n = vs(6, uni)
    for x, y in [(0, 1), (0, 2), (1, 3), (2, 3), (3, 4), (4, 0)]:
        DirectedEdge(n[x], n[y])
    UnDirectedEdge(n[4], n[5])
    bft(uni, n[0])  # fill caches when caching is on
    clone = pickle.loads(pickle.dumps(uni))
    by_i = {v.i: v for v in clone.vertices}
    check(sorted(by_i) == list(range(6)), "unpickled universe")
    for f in (bft, dft_recursive, dft_iterative):
        for d in (FWD, ANY, BWD):
            for s in range(6):
                here = [v.i for v in f(uni, n[s], direction_sensitive=d)]
                there = f(clone, by_i[s], direction_sensitive=d)
                check(
                    [v.i for v in there] == here
                    and all(v is by_i[v.i] for v in there),
                    f"{f.__name__} after unpickling",
                )


# --------------------------------------------------------------------------
# random differential part
# --------------------------------------------------------------------------


def random_case(rng, case):
    global COUNT_LOOKUPS
    COUNT_LOOKUPS = case % 6 == 0
    nv = rng.randint(1, 8)
    uni = Universe() if rng.random() < 0.85 else None
    verts = [Vertex(attributes={"i": i}) for i in range(nv)]
    links = []
    for _ in range(rng.randint(0, 2 * nv + 2)):
        x = rng.choice(verts)
        y = rng.choice(verts)
        kind = rng.random()
        if kind < 0.55:
            links.append(DirectedEdge(x, y))
        elif kind < 0.85:
            links.append(UnDirectedEdge(x, y))
        else:
            links.append(OddLink(x, y))
    if uni is not None:
        for v in verts:
            if rng.random() < 0.75:
                uni.add_vertex(v)
    label = labeller(verts + links)
    start = rng.choice(verts)  # sometimes outside the universe on purpose
    direction = rng.choice([FWD, FWD, ANY, BWD])
    unknown = rng.choice([U_NON, U_NB, U_ERR])
    via_salt = rng.choice([None, None, rng.randint(0, 50)])
    res_salt = rng.choice([None, rng.randint(0, 50)])
    watched = verts + ([uni] if uni is not None else [])
    ctx = f"case {case}"
    run_all(
        uni, start, label, direction, unknown, via_salt, res_salt, watched, ctx
    )
    # a second start vertex on the same (possibly cached) graph, and the
    # remaining directions, to exercise the neighbor cache
    other = rng.choice(verts)
    for d in (FWD, ANY, BWD):
        run_all(uni, other, label, d, unknown, via_salt, None, watched, ctx)
    # raising callbacks at a random position
    name = rng.choice(list(PAIRS))
    run_config(
        name, uni, start, label, direction, unknown,
        via_salt=rng.randint(0, 50), via_raise=rng.randint(1, 6),
        watched=watched, ctx=ctx,
    )
    run_config(
        name, uni, start, label, direction, unknown,
        via_salt=via_salt, res_salt=rng.randint(0, 50),
        res_raise=rng.randint(1, 5), watched=watched, ctx=ctx,
    )
    # edit the graph and go again: stale cache entries must not matter
    if links and rng.random() < 0.5:
        victim = rng.choice(links)
        victim.v2 = rng.choice(verts)
        run_all(
            uni, start, label, direction, unknown, via_salt, None, watched, ctx
        )


def main():
    global COUNT_LOOKUPS
    seed = 0xC06
    ncases = 700
    for caching in (False, True):
        Vertex.NEIGHBOR_CACHING = caching
        try:
            COUNT_LOOKUPS = True
            scripted()
            rng = random.Random(seed)
            for case in range(ncases):
                random_case(rng, case)
            scripted_big()
        finally:
            Vertex.NEIGHBOR_CACHING = False
    print(f"equiv.py: OK ({CHECKS} checks)")
    return 0


if __name__ == "__main__":
    sys.exit(main())
