#!/usr/bin/env python3
# -*- coding: utf-8 -*-
"""
Equivalence / conformance program for property C16:

    "Plain-text rendering: one well-formed line per vertex listing its
    neighbours"

Only the public API of edgegraph is used.  The program has

* an independent ORACLE (class ``Model``) that knows nothing about the library:
  it keeps, per vertex name, the ordered list of edges attached to it, and
  derives from that the forward / backward / any neighbours and the expected
  text of ``basic_render`` straight from the property statement;
* scripted corner cases (empty universe, isolated vertices, self loops,
  parallel edges, ``None`` ends, three-ended edges, foreign neighbours,
  renderers returning arbitrary objects, falsy callables, hostile ``str``
  subclasses, NaN sort keys, callbacks mutating the graph, ...);
* an exact trace of every user-visible call (truth tests of the callables,
  calls of ``rfunc`` / ``sort`` / ``__format__`` / ``__repr__``, reads of
  ``Universe.vertices`` and ``Vertex.links``) compared with the trace the
  documented algorithm must produce, and the same with an exception (of several
  classes, also non-``Exception`` ones) injected at every single event;
* a seeded random differential part (random graph histories, caching on / off
  / toggled, deepcopy and pickle round trips followed by more mutations,
  worker threads).

Exit status 0 means everything matched.
"""

import copy
import itertools
import math
import pickle
import random
import sys
import threading
import warnings

warnings.simplefilter("error")
sys.setrecursionlimit(20000)

from edgegraph.structure import (
    Vertex,
    Universe,
    DirectedEdge,
    UnDirectedEdge,
    TwoEndedLink,
)
from edgegraph.builder import explicit
from edgegraph.traversal import helpers
from edgegraph.output import plaintext
from edgegraph.output.plaintext import basic_render

FWD, ANY, BWD = (
    helpers.DIR_SENS_FORWARD,
    helpers.DIR_SENS_ANY,
    helpers.DIR_SENS_BACKWARD,
)
U_NON, U_NB, U_ERR = (
    helpers.LNK_UNKNOWN_NONNEIGHBOR,
    helpers.LNK_UNKNOWN_NEIGHBOR,
    helpers.LNK_UNKNOWN_ERROR,
)

CHECKS = 0


def check(cond, *msg):
    global CHECKS
    CHECKS += 1
    if not cond:
        print("FAILED:", *msg)
        raise SystemExit(1)


def eq(got, want, *msg):
    global CHECKS
    CHECKS += 1
    if type(got) is not type(want) or got != want:
        print("FAILED:", *msg)
        print("   got :", repr(got))
        print("   want:", repr(want))
        raise SystemExit(1)


class caching:
    """Context manager setting Vertex.NEIGHBOR_CACHING."""

    def __init__(self, flag):
        self.flag = flag

    def __enter__(self):
        self.old = Vertex.NEIGHBOR_CACHING
        Vertex.NEIGHBOR_CACHING = self.flag

    def __exit__(self, *a):
        Vertex.NEIGHBOR_CACHING = self.old


###############################################################################
# other link classes


class OddLink(TwoEndedLink):
    """neither directed nor undirected: an "unknown" link class"""


class BothEdge(UnDirectedEdge, DirectedEdge):
    """both at once: the undirected reading wins"""


class SlotVertex(Vertex):
    """vertex subclass adding __slots__ (instances still have a __dict__)"""

    __slots__ = ("extra",)


###############################################################################
# the oracle


class Model:
    """
    Independent model of a graph history.

    ``members``  -- names of the vertices of the universe, in universe order
    ``att[n]``   -- ids of the edges attached to vertex ``n``, attachment order
    ``edges[i]`` -- (kind, a, b); kind in "D", "U", "X"; a / b names or None
    ``key[n]``   -- sort key of vertex ``n``
    """

    def __init__(self):
        self.members = []
        self.att = {}
        self.edges = {}
        self.key = {None: 0}  # a missing end sorts as 0 (see World.KEY)
        self.nextedge = 0

    def clone(self):
        return copy.deepcopy(self)

    # -- history ------------------------------------------------------------
    def add_vertex(self, name, key, member):
        self.att[name] = []
        self.key[name] = key
        if member:
            self.members.append(name)

    def add_edge(self, kind, a, b):
        eid = self.nextedge
        self.nextedge += 1
        self.edges[eid] = (kind, a, b)
        for end in (a, b):
            if end is not None and eid not in self.att[end]:
                self.att[end].append(eid)
        return eid

    def unlink(self, a, b):
        doomed = [
            eid
            for eid in self.att[a]
            if self.other(eid, a) == b and self.other(eid, a) is not None
        ]
        for eid in doomed:
            for end in (a, b):
                if eid in self.att[end]:
                    self.att[end].remove(eid)
            del self.edges[eid]
        return doomed

    def retarget(self, eid, which, new):
        kind, a, b = self.edges[eid]
        old = (a, b)[which]
        ends = [a, b]
        ends[which] = new
        self.edges[eid] = (kind, ends[0], ends[1])
        if old is not None and old not in ends:
            self.att[old].remove(eid)
        if new is not None and eid not in self.att[new]:
            self.att[new].append(eid)

    def leave(self, name):
        self.members.remove(name)

    def join(self, name):
        if name not in self.members:
            self.members.append(name)

    # -- questions ----------------------------------------------------------
    def other(self, eid, n):
        _, a, b = self.edges[eid]
        if n == a:
            return b
        if n == b:
            return a
        return None

    def neighbors(self, n, direction=FWD, unknown=U_ERR, flt=None):
        """the neighbours of ``n`` -- or the class of the exception"""
        out = []
        for eid in self.att[n]:
            kind, a, b = self.edges[eid]
            far = self.other(eid, n)
            if direction == ANY:
                take = True
            elif direction in (FWD, BWD):
                near = a if direction == FWD else b
                if kind == "U":
                    take = True
                elif kind == "D" and near == n:
                    take = True
                elif kind == "D" and (a == n or b == n):
                    take = False
                else:
                    # unknown class, or a directed edge not ending here
                    if unknown == U_NON:
                        take = False
                    elif unknown == U_NB:
                        take = True
                    else:
                        return NotImplementedError
            else:
                return ValueError
            if take and (flt is None or flt(eid, far)):
                out.append(far)
        return out

    def render(self, label, use_sort):
        if not self.members:
            return None
        order = list(self.members)
        if use_sort:
            order = sorted(order, key=self.key.__getitem__)
        lines = []
        for n in order:
            nbs = self.neighbors(n)
            assert isinstance(nbs, list)
            if use_sort:
                nbs = sorted(nbs, key=self.key.__getitem__)
            lines.append(label(n) + " -> " + ", ".join(label(x) for x in nbs))
        return "\n".join(lines)


class World:
    """a Model and the real thing, driven together"""

    def __init__(self, vcls=Vertex, ucls=Universe):
        self.m = Model()
        self.uni = ucls()
        self.v = {}  # name -> vertex
        self.e = {}  # edge id -> link
        self.vcls = vcls
        self.count = 0

    KINDS = {"D": DirectedEdge, "U": UnDirectedEdge, "X": OddLink}

    def add_vertex(self, key, member=True, cls=None):
        name = f"n{self.count}"
        self.count += 1
        cls = cls or self.vcls
        if member and self.count % 2 and not issubclass(cls, Universe):
            vert = cls(attributes={"name": name, "k": key}, universes=[self.uni])
        else:
            vert = cls(attributes={"name": name, "k": key})
            if member:
                if self.count % 3:
                    self.uni.add_vertex(vert)
                else:
                    vert.add_to_universe(self.uni)
        self.v[name] = vert
        self.m.add_vertex(name, key, member)
        return name

    def add_edge(self, kind, a, b, how=0):
        va = None if a is None else self.v[a]
        vb = None if b is None else self.v[b]
        if kind == "D" and how == 1:
            link = explicit.link_directed(va, vb)
        elif kind == "U" and how == 1:
            link = explicit.link_undirected(va, vb)
        elif how == 2:
            link = explicit.link_from_to(va, self.KINDS[kind], vb)
        else:
            link = self.KINDS[kind](va, vb)
        eid = self.m.add_edge(kind, a, b)
        self.e[eid] = link
        return eid

    def unlink(self, a, b):
        explicit.unlink(self.v[a], self.v[b])
        for eid in self.m.unlink(a, b):
            del self.e[eid]

    def retarget(self, eid, which, new):
        vnew = None if new is None else self.v[new]
        if which == 0:
            self.e[eid].v1 = vnew
        else:
            self.e[eid].v2 = vnew
        self.m.retarget(eid, which, new)

    def leave(self, name):
        if self.count % 2:
            self.uni.remove_vertex(self.v[name])
        else:
            self.v[name].remove_from_universe(self.uni)
        self.m.leave(name)

    def join(self, name):
        self.uni.add_vertex(self.v[name])
        self.m.join(name)

    # -- comparisons --------------------------------------------------------
    @staticmethod
    def name_of(vert):
        return "None" if vert is None else vert.name

    @staticmethod
    def KEY(vert):
        return 0 if vert is None else vert.k

    def check_render(self, tag=""):
        m, uni = self.m, self.uni
        by_name = self.name_of
        key = self.KEY
        reprs = {n: repr(v) for n, v in self.v.items()}
        reprs[None] = "None"
        nm = lambda n: "None" if n is None else n
        eq(
            basic_render(uni, rfunc=by_name),
            m.render(nm, False),
            tag,
            "rfunc only",
        )
        eq(
            basic_render(uni),
            m.render(reprs.__getitem__, False),
            tag,
            "plain",
        )
        eq(
            basic_render(uni, by_name, key),
            m.render(nm, True),
            tag,
            "rfunc + sort",
        )
        eq(
            basic_render(uni, sort=key),
            m.render(reprs.__getitem__, True),
            tag,
            "sort only",
        )
        # keyword / positional spellings, rfunc returning non-strings
        eq(
            basic_render(uni=uni, rfunc=self.KEY, sort=None),
            m.render(lambda n: format(m.key[n], ""), False),
            tag,
            "rfunc returning numbers",
        )
        eq([v.name for v in uni.vertices], m.members, tag, "membership")

    def check_neighbors(self, tag=""):
        m = self.m
        nm = lambda n: "None" if n is None else n
        for name, vert in self.v.items():
            for direction, unknown in itertools.product(
                (FWD, ANY, BWD, 7), (U_NON, U_NB, U_ERR, 9)
            ):
                want = m.neighbors(name, direction, unknown)
                try:
                    got = helpers.neighbors(vert, direction, unknown)
                except (NotImplementedError, ValueError) as exc:
                    got = type(exc)
                else:
                    got = [None if g is None else g.name for g in got]
                eq(got, want, tag, "neighbors", name, direction, unknown)
            if isinstance(m.neighbors(name), list):
                eq(
                    [self.name_of(x) for x in helpers.neighbors(vert)],
                    [nm(x) for x in m.neighbors(name)],
                    tag,
                    "neighbors default",
                )
            eq(
                [eid for eid in m.att[name]],
                [
                    next(i for i, l in self.e.items() if l is link)
                    for link in vert.links
                ],
                tag,
                "attachment order",
            )


###############################################################################
# scripted cases


def scripted_basic():
    for cache in (False, True):
        with caching(cache):
            w = World()
            # empty universe: None, and nobody is asked anything
            boom = Recorder()
            eq(basic_render(w.uni), None, "empty")
            eq(
                basic_render(w.uni, boom.rfunc(), boom.sort()),
                None,
                "empty, callbacks",
            )
            eq(boom.log, [], "empty universe: callbacks untouched")
            eq(basic_render(w.uni, rfunc=0, sort=0), None)

            a = w.add_vertex(3)
            # one isolated vertex: rendering, arrow, nothing (trailing space!)
            eq(basic_render(w.uni), repr(w.v[a]) + " -> ")
            eq(basic_render(w.uni, lambda v: v.name), "n0 -> ")
            eq(basic_render(w.uni, lambda v: ""), " -> ")
            eq(basic_render(w.uni, lambda v: None), "None -> ")
            eq(basic_render(w.uni, lambda v: "x\ny, "), "x\ny,  -> ")
            w.check_render("one vertex")

            b = w.add_vertex(1)
            c = w.add_vertex(2)
            w.add_edge("D", a, b)
            eq(basic_render(w.uni, lambda v: v.name), "n0 -> n1\nn1 -> \nn2 -> ")
            w.add_edge("D", a, c, how=1)
            w.add_edge("D", c, a, how=2)
            w.add_edge("U", b, c, how=1)
            eq(
                basic_render(w.uni, lambda v: v.name),
                "n0 -> n1, n2\nn1 -> n2\nn2 -> n0, n1",
            )
            eq(
                basic_render(w.uni, lambda v: v.name, lambda v: v.k),
                "n1 -> n2\nn2 -> n1, n0\nn0 -> n1, n2",
            )
            eq(
                basic_render(w.uni, lambda v: v.name, lambda v: -v.k),
                "n0 -> n2, n1\nn2 -> n0, n1\nn1 -> n2",
            )
            w.check_render("triangle")
            w.check_neighbors("triangle")

            # self loops (each shown once), parallel edges (shown each time)
            w.add_edge("D", a, a)
            w.add_edge("U", b, b, how=1)
            w.add_edge("D", a, b, how=1)
            w.add_edge("U", a, b)
            eq(
                basic_render(w.uni, lambda v: v.name),
                "n0 -> n1, n2, n0, n1, n1\nn1 -> n2, n1, n0\nn2 -> n0, n1",
            )
            w.check_render("loops + parallels")
            w.check_neighbors("loops + parallels")

            # neighbours that are not members are listed all the same;
            # members that left are not given a line
            d = w.add_vertex(0, member=False)
            w.add_edge("D", b, d)
            w.add_edge("D", d, a)
            w.check_render("foreign neighbour")
            w.leave(a)
            w.check_render("left")
            w.join(a)
            eq([v.name for v in w.uni.vertices], ["n1", "n2", "n0"])
            w.check_render("rejoined (now last)")

            # edges with a missing end: the neighbour is None
            e = w.add_edge("D", c, None)
            w.add_edge("U", None, c)
            eq(
                basic_render(w.uni, lambda v: getattr(v, "name", "nil")).splitlines()[1],
                "n2 -> n0, n1, nil, nil",
            )
            eq(
                basic_render(w.uni).splitlines()[1].endswith(", None, None"),
                True,
            )
            w.check_render("None ends")
            w.retarget(e, 1, d)
            w.retarget(e, 0, a)
            w.check_render("retargeted")
            w.check_neighbors("retargeted")
            w.unlink(a, b)
            w.unlink(b, b)
            w.check_render("unlinked")
            w.check_neighbors("unlinked")

            # unknown link class: rendering refuses, at that vertex
            w.add_edge("X", d, c)
            w.check_neighbors("odd link")
            seen = []
            try:
                basic_render(w.uni, lambda v: seen.append(v) or "?")
            except NotImplementedError as exc:
                eq(str(exc), f"Unknown link class {OddLink}")
            else:
                check(False, "odd link must be refused")
            # every member up to the one touching the odd link is rendered
            # together with its neighbours; that one is rendered, then refused
            where = []
            for n in w.m.members:
                where.append(n)
                nbs = w.m.neighbors(n)
                if nbs is NotImplementedError:
                    break
                where.extend(nbs)
            else:
                check(False, "the model should refuse as well")
            eq([s.name for s in seen], where, "refused where")


def scripted_three_ended():
    """an edge with a third vertex attached through add_to_link"""
    for cache in (False, True):
        with caching(cache):
            uni = Universe()
            a, b, c = (
                Vertex(attributes={"name": n}, universes=[uni]) for n in "abc"
            )
            und = UnDirectedEdge(a, b)
            c.add_to_link(und)
            eq(und.vertices, (a, b, c))
            eq(helpers.neighbors(c), [None])
            eq(
                basic_render(uni, lambda v: getattr(v, "name", "-")),
                "a -> b\nb -> a\nc -> -",
            )
            eq(basic_render(uni).splitlines()[2], f"{c!r} -> None")
            c.remove_from_link(und)
            eq(basic_render(uni, lambda v: v.name), "a -> b\nb -> a\nc -> ")

            dire = DirectedEdge(a, b)
            c.add_to_link(dire)
            # neither origin nor destination: treated like an unknown class
            for direction in (FWD, BWD):
                eq(helpers.neighbors(c, direction, U_NON), [])
                eq(helpers.neighbors(c, direction, U_NB), [None])
                got = []
                eq(
                    helpers.neighbors(
                        c, direction, U_NB, lambda e, v: got.append((e, v))
                    ),
                    [],
                )
                eq(got, [(dire, None)])
                try:
                    helpers.neighbors(c, direction)
                except NotImplementedError as exc:
                    eq(str(exc), f"Unknown link class {DirectedEdge}")
                else:
                    check(False, "three-ended directed edge")
            eq(helpers.neighbors(c, ANY), [None])
            try:
                basic_render(uni, lambda v: v.name)
            except NotImplementedError:
                pass
            else:
                check(False, "render of three-ended directed edge")

            # both directed and undirected: undirected wins
            both = BothEdge(b, a)
            eq(helpers.neighbors(a), [b, b, b])
            eq(helpers.neighbors(b), [a, a])
            eq(helpers.neighbors(a, BWD), [b, b])
            eq(helpers.neighbors(b, BWD), [a, a, a])
            del both


def scripted_neighbors_details():
    """things about neighbors() that a render relies on, or that may not move"""
    for cache in (False, True):
        with caching(cache):
            a, b, c = (Vertex(attributes={"name": n}) for n in "abc")
            # no links: nothing is validated at all
            eq(helpers.neighbors(a, "bogus", "bogus"), [])
            l1 = DirectedEdge(a, b)
            l2 = UnDirectedEdge(c, a)
            l3 = DirectedEdge(c, a)
            l4 = OddLink(a, c)
            for bad in ("bogus", 3, None, -1, (0,)):
                try:
                    helpers.neighbors(a, bad)
                except ValueError as exc:
                    eq(
                        str(exc),
                        f"Unknown option for direction_sensitive = {bad}",
                    )
                else:
                    check(False, "bad direction")
            # equal-but-not-identical option values
            eq(helpers.neighbors(a, 0.0, 0.0), [b, c])
            eq(helpers.neighbors(a, False, True), [b, c, c])
            eq(helpers.neighbors(a, 2.0, 1.0), [c, c, c])
            eq(helpers.neighbors(a, True, "whatever"), [b, c, c, c])
            # anything but 0 / 1 is "error", lazily
            for unknown in (2, 5, None, "x"):
                try:
                    helpers.neighbors(a, FWD, unknown)
                except NotImplementedError as exc:
                    eq(str(exc), f"Unknown link class {OddLink}")
                else:
                    check(False, "unknown handling")
                eq(helpers.neighbors(b, FWD, unknown), [])
                eq(helpers.neighbors(b, BWD, unknown), [a])

            # filter: which (edge, vertex) pairs it is shown, in which order;
            # truthiness of arbitrary return values
            for direction, unknown, pairs in (
                (FWD, U_NB, [(l1, b), (l2, c), (l4, c)]),
                (FWD, U_NON, [(l1, b), (l2, c)]),
                (BWD, U_NB, [(l2, c), (l3, c), (l4, c)]),
                (BWD, U_NON, [(l2, c), (l3, c)]),
                (ANY, U_ERR, [(l1, b), (l2, c), (l3, c), (l4, c)]),
            ):
                shown = []

                def flt(edge, vert, shown=shown):
                    shown.append((edge, vert))
                    return [None, "yes", 0, math.nan, (), [0]][len(shown) % 6]

                got = helpers.neighbors(a, direction, unknown, flt)
                eq(shown, pairs, "filter calls", direction, unknown)
                want = [
                    p[1]
                    for i, p in enumerate(pairs, 1)
                    if [None, "yes", 0, math.nan, (), [0]][i % 6]
                ]
                eq(got, want, "filter result", direction, unknown)

            # a filter that raises: the exception comes out, nothing is cached
            class Stop(BaseException):
                pass

            for exc_cls in (ValueError, Stop, StopIteration, KeyboardInterrupt):
                calls = []

                def bad(edge, vert):
                    calls.append(edge)
                    if len(calls) == 2:
                        raise exc_cls("now")
                    return True

                try:
                    helpers.neighbors(a, ANY, U_ERR, bad)
                except BaseException as exc:  # noqa
                    check(type(exc) is exc_cls, "filter exception class")
                else:
                    check(False, "filter exception lost")
                eq(calls, [l1, l2])
                eq(helpers.neighbors(a, ANY, U_ERR, bad), [b, c, c, c])
                eq(len(calls), 6)

            # the result is the caller's own list
            r1 = helpers.neighbors(a, ANY)
            r1.append("junk")
            r2 = helpers.neighbors(a, ANY)
            eq(r2, [b, c, c, c])
            check(r1 is not r2)
            r2.clear()
            eq(helpers.neighbors(a, ANY), [b, c, c, c])

            # unhashable / odd filters do not upset caching
            class Unhashable:
                __hash__ = None

                def __call__(self, e, v):
                    return v is c

                def __eq__(self, other):
                    return True

            eq(helpers.neighbors(a, ANY, U_ERR, Unhashable()), [c, c, c])
            eq(helpers.neighbors(a, ANY, U_ERR, Unhashable()), [c, c, c])
            del l3


def scripted_neighbors_trace():
    """
    What neighbors() asks of the links (``other``, ``v1``, ``v2``), of its
    option arguments (``==``) and of the filter, in order, for every
    combination of direction / unknown handling, on links of every kind.
    """
    log = []

    def ends(cls):
        class Logged(cls):
            @property
            def v1(self):
                log.append(("v1", self.tag))
                return super().v1

            @property
            def v2(self):
                log.append(("v2", self.tag))
                return super().v2

            def other(self, end):
                log.append(("other", self.tag))
                return super().other(end)

        Logged.__name__ = "Logged" + cls.__name__
        return Logged

    LD, LU, LX, LB = ends(DirectedEdge), ends(UnDirectedEdge), ends(OddLink), ends(BothEdge)

    class Opt:
        def __init__(self, tag, val):
            self.tag, self.val = tag, val

        def __eq__(self, other):
            log.append(("eq", self.tag, other))
            return self.val == other

        def __ne__(self, other):
            log.append(("ne", self.tag, other))
            return self.val != other

        def __hash__(self):
            return hash(self.val)

        def __repr__(self):
            return f"Opt({self.val})"

    a, b, c = (Vertex(attributes={"name": n}) for n in "abc")
    spec = [
        (LD, a, b), (LD, b, a), (LU, a, c), (LU, c, a), (LX, a, b), (LX, c, a),
        (LD, a, a), (LU, a, a), (LB, b, a), (LD, a, None), (LD, None, a),
        (LD, b, c),  # a is attached below as a third vertex
    ]
    links = []
    for i, (cls, p, q) in enumerate(spec):
        link = cls(p, q, attributes={"tag": i})
        links.append(link)
    a.add_to_link(links[-1])
    eq(list(a.links), links)
    log.clear()

    def other_events(i, p, q):
        # TwoEndedLink.other: v1 is looked at; v2 is what is handed back if
        # that was us, else v2 is looked at (and v1 handed back if that was us)
        out = [("other", i), ("v1", i), ("v2", i)]
        if p is not a and q is a:
            out.append(("v1", i))
        return out

    def far_end(p, q):
        return q if p is a else (p if q is a else None)

    for dval, uval, use_filter in itertools.product(
        (FWD, BWD, ANY, 5), (U_NON, U_NB, U_ERR, 8), (False, True)
    ):
        want_log, want, outcome = [], [], None
        for i, (cls, p, q) in enumerate(spec):
            want_log += other_events(i, p, q)
            want_log.append(("eq", "dir", FWD))
            kind = "U" if cls in (LU, LB) else "D" if cls is LD else "X"
            if dval in (FWD, BWD):
                if dval == BWD:
                    want_log.append(("eq", "dir", BWD))
                near, far = (p, q) if dval == FWD else (q, p)
                nearname, farname = ("v1", "v2") if dval == FWD else ("v2", "v1")
                if kind == "U":
                    verdict = "follow"
                elif kind == "D":
                    want_log.append((nearname, i))
                    if near is a:
                        verdict = "follow"
                    else:
                        want_log.append((farname, i))
                        verdict = "skip" if far is a else "unknown"
                else:
                    verdict = "unknown"
            elif dval == ANY:
                want_log += [("eq", "dir", BWD), ("eq", "dir", ANY)]
                verdict = "follow"
            else:
                want_log += [("eq", "dir", BWD), ("eq", "dir", ANY)]
                outcome = ValueError
                break
            if verdict == "unknown":
                want_log.append(("eq", "unk", U_NON))
                if uval == U_NON:
                    continue
                want_log.append(("eq", "unk", U_NB))
                if uval != U_NB:
                    outcome = NotImplementedError
                    break
                verdict = "follow"
            if verdict == "follow":
                if use_filter:
                    want_log.append(("flt", i, far_end(p, q)))
                    if i % 3 == 0:
                        continue
                want.append(far_end(p, q))

        def flt(edge, vert):
            log.append(("flt", edge.tag, vert))
            return edge.tag % 3

        args = (Opt("dir", dval), Opt("unk", uval)) + ((flt,) if use_filter else ())
        log.clear()
        try:
            got = helpers.neighbors(a, *args)
        except (ValueError, NotImplementedError) as exc:
            check(type(exc) is outcome, "outcome", dval, uval, type(exc), outcome)
            eq(
                str(exc),
                f"Unknown link class {LX}"
                if outcome is NotImplementedError
                else "Unknown option for direction_sensitive = Opt(5)",
            )
        else:
            check(outcome is None, "should have raised", dval, uval)
            eq(got, want, "neighbors result", dval, uval, use_filter)
        eq(log, want_log, "neighbors trace", dval, uval, use_filter)
        # same answers with caching (asked twice), whatever is asked of the
        # option objects then
        with caching(True):
            for _ in range(2):
                try:
                    got = helpers.neighbors(a, *args)
                except (ValueError, NotImplementedError) as exc:
                    check(type(exc) is outcome)
                else:
                    eq(got, want, "cached neighbors result", dval, uval)

    # rendering the same vertex: the default options, nothing else
    uni = Universe(vertices=[a])
    for handled in links:
        if type(handled).__name__ == "LoggedOddLink" or handled is links[-1]:
            for v in set(handled.vertices):
                handled.unlink_from(v)
    log.clear()
    eq(
        basic_render(uni, lambda v: getattr(v, "name", "-")),
        "a -> b, c, c, a, a, b, -",
    )
    eq([e for e in log if e[0] == "other"], [("other", i) for i in (0, 1, 2, 3, 6, 7, 8, 9, 10)])



###############################################################################
# exact call traces


NOT_A_LINK = object()  # remove_from_link(that): no change, cache emptied


class Boom(BaseException):
    pass


class Hostile(str):
    """
    A str subclass every "interesting" operation of which is a failure: the
    renderer may only look at the characters.
    """

    def _no(self, *a, **k):
        print("FAILED: hostile string was operated upon")
        raise SystemExit(1)

    __add__ = __radd__ = __str__ = __repr__ = __format__ = _no
    __mod__ = __rmod__ = __mul__ = __rmul__ = __iter__ = _no
    __eq__ = __ne__ = __lt__ = __gt__ = __contains__ = _no
    __getitem__ = __bool__ = _no
    join = strip = rstrip = removesuffix = encode = format = _no
    __hash__ = None


class Recorder:
    """
    Produces callables (and values) that write down every user-visible event
    in ``self.log``; event number ``self.bomb`` (if any) raises ``self.exc``
    right after having been written down.
    """

    def __init__(self, rtruth=None, struth=None, bomb=None, exc=None, fmt="obj"):
        self.log = []
        self.bomb = bomb
        self.exc = exc
        self.rtruth = rtruth  # None: plain function (no __bool__)
        self.struth = struth
        self.rcount = 0
        self.scount = 0
        self.fmt = fmt
        self.armed = True

    def event(self, *what):
        if not self.armed:
            return
        self.log.append(what)
        if self.bomb is not None and len(self.log) - 1 == self.bomb:
            raise self.exc

    @staticmethod
    def nm(obj):
        return getattr(obj, "name", None)

    def text(self, obj):
        return f"<{self.nm(obj)}>"

    def rfunc(self):
        rec = self

        class Shown:
            """what rfunc returns: not a string; has its own __format__"""

            def __init__(self, obj):
                self.obj = obj

            def __format__(self, spec):
                rec.event("format", rec.nm(self.obj), spec)
                return Hostile(rec.text(self.obj))

            def __str__(self):
                rec.event("str", rec.nm(self.obj))
                return "WRONG"

            __repr__ = __str__

        class ShownStr(str):
            """what rfunc returns: a str subclass with a __str__ of its own"""

            def __str__(self):
                rec.event("format", rec.nm(self.obj), "")
                return Hostile(rec.text(self.obj))

            def __add__(self, other):
                rec.event("add")
                return "WRONG"

            __radd__ = __add__

        def render(obj):
            rec.event("rfunc", rec.nm(obj))
            if rec.fmt == "obj":
                return Shown(obj)
            out = ShownStr("WRONG")
            out.obj = obj
            return out

        if self.rtruth is None:
            return render

        class R:
            def __bool__(self):
                rec.rcount += 1
                rec.event("bool(rfunc)")
                return bool(rec.rtruth(rec.rcount))

            def __call__(self, obj):
                return render(obj)

        return R()

    def sort(self):
        rec = self

        def key(obj):
            rec.event("key", rec.nm(obj))
            return obj.k

        if self.struth is None:
            return key

        class S:
            def __bool__(self):
                rec.scount += 1
                rec.event("bool(sort)")
                return bool(rec.struth(rec.scount))

            def __call__(self, obj):
                return key(obj)

        return S()


def make_logged_classes(rec):
    class LVertex(Vertex):
        @property
        def links(self):
            rec.event("links", rec.nm(self))
            return super().links

        def __repr__(self):
            rec.event("repr", rec.nm(self))
            return f"<{self.name}>"

    class LUniverse(Universe):
        @property
        def vertices(self):
            rec.event("vertices")
            return super().vertices

    return LVertex, LUniverse


def expected_trace(w, rec_spec, cached_names=()):
    """
    The events the documented algorithm produces on world ``w``:

      read the members (to see whether there are any)
      is there a sort?  read the members (and key each of them if so)
      for each:   is there an rfunc?  render (or repr) it, format that
                  is there a sort?  ask for its neighbours (one read of its
                  links unless cached) (and key each of them if so)
                  for each: is there an rfunc?  render (or repr), format
    """
    rtruth, struth = rec_spec
    log = []
    counts = {"r": 0, "s": 0}

    def has_r():
        if rtruth is None:
            return True
        counts["r"] += 1
        log.append(("bool(rfunc)",))
        return bool(rtruth(counts["r"]))

    def has_s():
        if struth is None:
            return True
        counts["s"] += 1
        log.append(("bool(sort)",))
        return bool(struth(counts["s"]))

    def show(n):
        if has_r():
            log.append(("rfunc", n))
            log.append(("format", n, ""))
        else:
            log.append(("repr", n))

    m = w.m
    log.append(("vertices",))
    if not m.members:
        return log
    srt = has_s()
    log.append(("vertices",))
    order = list(m.members)
    if srt:
        log.extend(("key", n) for n in order)
        order = sorted(order, key=m.key.__getitem__)
    for n in order:
        show(n)
        srt = has_s()
        if n not in cached_names:
            log.append(("links", n))
        nbs = m.neighbors(n)
        if srt:
            log.extend(("key", x) for x in nbs)
            nbs = sorted(nbs, key=m.key.__getitem__)
        for x in nbs:
            show(x)
    return log


def expected_text(w, rec_spec):
    """text matching expected_trace (every label is <name>)"""
    rtruth, struth = rec_spec
    counts = {"s": 0}

    def has_s():
        if struth is None:
            return True
        counts["s"] += 1
        return bool(struth(counts["s"]))

    m = w.m
    order = list(m.members)
    if has_s():
        order = sorted(order, key=m.key.__getitem__)
    lines = []
    for n in order:
        nbs = m.neighbors(n)
        if has_s():
            nbs = sorted(nbs, key=m.key.__getitem__)
        lines.append(f"<{n}> -> " + ", ".join(f"<{x}>" for x in nbs))
    return "\n".join(lines)


def build_traced_world(rec, rng, nverts, nedges):
    LVertex, LUniverse = make_logged_classes(rec)
    rec.armed = False
    w = World(vcls=LVertex, ucls=LUniverse)
    names = [w.add_vertex(rng.choice([0, 1, 1, 2, 5])) for _ in range(nverts)]
    for _ in range(nedges):
        a, b = rng.choice(names), rng.choice(names)
        w.add_edge(rng.choice("DDU"), a, b, how=rng.randrange(3))
    rec.armed = True
    return w


TRUTHS = {
    "plain": None,
    "yes": lambda i: True,
    "no": lambda i: False,
    "odd": lambda i: i % 2,  # 1, 0, 1, 0 ... (ints, not bools -- fine)
    "late": lambda i: i > 2,
    "early": lambda i: i <= 2,
}


def scripted_traces():
    rng = random.Random(1601)
    for cache in (False, True):
        with caching(cache):
            for (rname, rtruth), (sname, struth) in itertools.product(
                TRUTHS.items(), TRUTHS.items()
            ):
                for fmt in ("obj", "str"):
                    rec = Recorder(rtruth, struth, fmt=fmt)
                    w = build_traced_world(rec, rng, rng.randrange(1, 5), rng.randrange(0, 7))
                    want = expected_trace(w, (rtruth, struth))
                    got_text = basic_render(w.uni, rec.rfunc(), rec.sort())
                    eq(rec.log, want, "trace", rname, sname, fmt, cache)
                    check(type(got_text) is str)
                    eq(got_text, expected_text(w, (rtruth, struth)), "traced text")
                    # again: with caching, links are not read a second time
                    rec.log.clear()
                    rec.rcount = rec.scount = 0
                    want = expected_trace(
                        w, (rtruth, struth), w.m.members if cache else ()
                    )
                    basic_render(w.uni, rec.rfunc(), rec.sort())
                    eq(rec.log, want, "second trace", rname, sname, fmt, cache)

    # empty universe: one read of the members and that is it
    rec = Recorder(TRUTHS["yes"], TRUTHS["yes"])
    _, LUniverse = make_logged_classes(rec)
    eq(basic_render(LUniverse(), rec.rfunc(), rec.sort()), None)
    eq(rec.log, [("vertices",)])


def scripted_bombs():
    """an exception at every single event, of several classes"""
    rng = random.Random(1602)
    classes = (ValueError, Boom, StopIteration, KeyboardInterrupt, GeneratorExit, SystemExit)
    for cache in (False, True):
        with caching(cache):
            for rname, sname in (("odd", "late"), ("plain", "plain"), ("yes", "odd"), ("no", "yes")):
                rtruth, struth = TRUTHS[rname], TRUTHS[sname]
                probe = Recorder(rtruth, struth)
                w = build_traced_world(probe, rng, 4, 6)
                probe.armed = False
                full = expected_trace(w, (rtruth, struth))
                text = expected_text(w, (rtruth, struth))
                for k in range(len(full)):
                    exc = classes[k % len(classes)]("boom %d" % k)
                    # every vertex's cache is emptied first so that the trace
                    # is the cold one each time
                    for vert in w.v.values():
                        vert.remove_from_link(NOT_A_LINK)
                    probe.log.clear()
                    probe.rcount = probe.scount = 0
                    probe.bomb, probe.exc, probe.armed = k, exc, True
                    try:
                        basic_render(w.uni, probe.rfunc(), probe.sort())
                    except BaseException as got:  # noqa
                        check(got is exc, "the very exception comes out", k)
                    else:
                        check(False, "exception swallowed", k, full[k])
                    probe.armed = False
                    eq(probe.log, full[: k + 1], "trace up to the bomb", k)
                    # and the graph is none the worse for it
                    probe.bomb = None
                    probe.rcount = probe.scount = 0
                    probe.armed = True
                    probe.log.clear()
                    for vert in w.v.values():
                        vert.remove_from_link(NOT_A_LINK)
                    probe.log.clear()
                    eq(basic_render(w.uni, probe.rfunc(), probe.sort()), text)
                    eq(probe.log, full, "trace after the bomb", k)
                    probe.armed = False


def scripted_callbacks():
    for cache in (False, True):
        with caching(cache):
            w = World()
            a, b, c, d = (w.add_vertex(k) for k in (2, math.nan, 2, 1))
            w.add_edge("D", a, b)
            w.add_edge("D", a, c)
            w.add_edge("D", a, d)
            w.add_edge("U", d, a)
            w.add_edge("D", c, c)
            uni = w.uni
            name = lambda v: v.name

            # falsy "callables" count as absent (even if not callable at all)
            class Falsy:
                def __bool__(self):
                    return False

                def __call__(self, *a):
                    raise AssertionError("must not be called")

            class Empty(list):
                def __call__(self, *a):
                    raise AssertionError("must not be called")

            plain = basic_render(uni)
            for nothing in (None, 0, "", (), Falsy(), Empty(), 0.0, False):
                eq(basic_render(uni, nothing, nothing), plain)
                eq(basic_render(uni, rfunc=name, sort=nothing), w.m.render(str, False))

            # truthy non-callables are called (and that fails)
            for junk in (1, "x", (0,)):
                for kw in ({"rfunc": junk}, {"sort": junk}):
                    try:
                        basic_render(uni, **kw)
                    except TypeError:
                        pass
                    else:
                        check(False, "junk callable")

            # NaN keys, equal keys (stable), key called once per item
            calls = []

            def key(v):
                calls.append(v.name)
                return v.k

            got = basic_render(uni, name, key)
            eq(got, w.m.render(str, True), "NaN keys")
            eq(
                calls,
                ["n0", "n1", "n2", "n3"]
                + [x for n in sorted(w.m.members, key=w.m.key.__getitem__) for x in w.m.neighbors(n)],
            )
            # reverse through the key, keys of mixed but comparable types
            eq(
                basic_render(uni, name, lambda v: -ord(v.name[1])).splitlines()[3],
                "n0 -> n3, n3, n2, n1",
            )
            eq(
                basic_render(uni, name, lambda v: (v.name != "n2", v.name)).splitlines()[0],
                "n2 -> n2",
            )
            # incomparable keys: TypeError from sorted
            try:
                basic_render(uni, name, lambda v: v if v.name == "n1" else 1)
            except TypeError:
                pass
            else:
                check(False, "incomparable keys")

            # renderer results of many kinds -- formatted like format(x, "")
            class Fancy:
                def __format__(self, spec):
                    return "fancy" + spec

                def __str__(self):
                    return "WRONG"

            class Bare:
                def __str__(self):
                    return "bare-str"

                def __repr__(self):
                    return "WRONG"

            class S(str):
                def __str__(self):
                    return "s-str"

            class BadFormat:
                def __format__(self, spec):
                    return 42

            for val in (
                7, -0.0, math.nan, None, True, (1, "a"), b"by", "", "é \x00",
                Fancy(), Bare(), S("raw"), 1 + 2j, [1, [2]], {"k": 1}, Ellipsis,
            ):
                txt = format(val, "")
                eq(
                    basic_render(uni, lambda v: val),
                    "\n".join(
                        txt + " -> " + ", ".join([txt] * len(w.m.neighbors(n)))
                        for n in w.m.members
                    ),
                    "rendering of",
                    type(val),
                )
            try:
                basic_render(uni, lambda v: BadFormat())
            except TypeError:
                pass
            else:
                check(False, "__format__ returning a non-string")

            # generators, bound methods, partials, classes as callbacks
            import functools

            eq(
                basic_render(uni, functools.partial(lambda p, v: p + v.name, "#")),
                w.m.render(lambda n: "#" + n, False),
            )
            eq(basic_render(uni, str, id) is not None, True)
            eq(
                basic_render(uni, rfunc=dict(zip(w.v.values(), w.v)).__getitem__),
                w.m.render(str, False),
            )

            # callbacks that change the graph while it is being rendered: the
            # members were read up front, the neighbours of each are only
            # asked for when its turn comes
            e = w.v["n3"]
            extra = []

            def meddling(v):
                if v.name == "n0" and not extra:
                    extra.append(DirectedEdge(e, w.v["n1"]))
                    nv = Vertex(attributes={"name": "late", "k": 0}, universes=[uni])
                    extra.append(nv)
                    uni.remove_vertex(w.v["n2"])
                return v.name

            got = basic_render(uni, meddling)
            eq(
                got,
                "n0 -> n1, n2, n3, n3\nn1 -> \nn2 -> n2\nn3 -> n0, n1",
                "meddling renderer",
            )
            eq([v.name for v in uni.vertices], ["n0", "n1", "n3", "late"])
            eq(
                basic_render(uni, name),
                "n0 -> n1, n2, n3, n3\nn1 -> \nn3 -> n0, n1\nlate -> ",
            )


def scripted_subclasses_and_attributes():
    for cache in (False, True):
        with caching(cache):
            w = World(vcls=SlotVertex)
            a = w.add_vertex(1)
            b = w.add_vertex(0, cls=Universe)  # a universe as a member
            c = w.add_vertex(2, cls=Vertex)
            w.v[a].extra = "slot"
            for attr in ("pieces", "lines", "line", "start", "node", "_ARROW", "nbs", "verts"):
                setattr(w.v[c], attr, attr)
                w.v[a][attr] = attr
            w.add_edge("D", a, b)
            w.add_edge("U", b, c)
            w.add_edge("D", c, a)
            w.check_render("subclasses")
            before = {n: dict(vars(v)) for n, v in w.v.items()}
            w.check_render("subclasses again")
            if not cache:
                for n, v in w.v.items():
                    eq(
                        {k: x for k, x in vars(v).items() if "cache" not in k},
                        {k: x for k, x in before[n].items() if "cache" not in k},
                        "render leaves vertices alone",
                    )
            # a universe that is a member of itself, and its own neighbour
            uni = w.uni
            uni.name, uni.k = "self", 9
            uni.add_vertex(uni)
            DirectedEdge(uni, uni)
            DirectedEdge(uni, w.v[a])
            eq(
                basic_render(uni, lambda v: v.name).splitlines()[-1],
                "self -> self, n0",
            )
            eq(
                basic_render(uni, lambda v: v.name, lambda v: v.k).splitlines()[-1],
                "self -> n0, self",
            )


###############################################################################
# seeded random differential part


def random_history(rng, w, steps):
    names = list(w.v)
    for _ in range(steps):
        op = rng.random()
        if op < 0.22 or len(names) < 2:
            names.append(
                w.add_vertex(
                    rng.choice([0, 1, 2, 2, 3, 7, -1, 2.5]),
                    member=rng.random() < 0.85,
                    cls=rng.choice([None, None, SlotVertex]),
                )
            )
        elif op < 0.62:
            a = rng.choice(names)
            b = a if rng.random() < 0.12 else rng.choice(names)
            if rng.random() < 0.04:
                b = None
            w.add_edge(rng.choice("DDDU"), a, b, how=rng.randrange(3) if b else 0)
        elif op < 0.72:
            w.unlink(rng.choice(names), rng.choice(names))
        elif op < 0.84 and w.e:
            eid = rng.choice(list(w.e))
            w.retarget(eid, rng.randrange(2), rng.choice(names + [None] if rng.random() < 0.1 else names))
        elif op < 0.92 and w.m.members:
            w.leave(rng.choice(w.m.members))
        else:
            w.join(rng.choice(names))
        if rng.random() < 0.3:
            w.check_render("history")
        if rng.random() < 0.15:
            w.check_neighbors("history")


def random_part(seeds):
    for seed in seeds:
        for mode in ("off", "on", "toggle"):
            rng = random.Random(seed * 7919 + 13)
            Vertex.NEIGHBOR_CACHING = mode == "on"
            w = World()
            for round_ in range(3):
                if mode == "toggle":
                    Vertex.NEIGHBOR_CACHING = not Vertex.NEIGHBOR_CACHING
                random_history(rng, w, 14)
                w.check_render("end of round")
                w.check_neighbors("end of round")
                if mode == "toggle":
                    Vertex.NEIGHBOR_CACHING = not Vertex.NEIGHBOR_CACHING
                    w.check_render("after toggle")
                # round trips; the copy is then used further
                if round_ == 1:
                    how = rng.randrange(3)
                    if how == 0:
                        w2 = copy.deepcopy(w)
                    elif how == 1:
                        w2 = pickle.loads(pickle.dumps(w))
                    else:
                        w2 = pickle.loads(
                            pickle.dumps(w, protocol=rng.randrange(2, pickle.HIGHEST_PROTOCOL + 1))
                        )
                    check(w2.uni is not w.uni)
                    w2.check_render("copy")
                    w2.check_neighbors("copy")
                    random_history(rng, w2, 12)
                    w2.check_render("copy, later")
                    w2.check_neighbors("copy, later")
                    w.check_render("original after the copy moved on")
                    w = rng.choice([w, w2])
            Vertex.NEIGHBOR_CACHING = False


def threaded_part():
    rng = random.Random(1603)
    for cache in (False, True):
        with caching(cache):
            w = World()
            random_history(rng, w, 40)
            want = w.m.render(str, True)  # str(None) == "None"
            results, errors = [], []

            def work():
                try:
                    for _ in range(25):
                        results.append(basic_render(w.uni, World.name_of, World.KEY))
                except BaseException as exc:  # noqa
                    errors.append(exc)

            threads = [threading.Thread(target=work) for _ in range(6)]
            for t in threads:
                t.start()
            for t in threads:
                t.join()
            eq(errors, [])
            eq(len(results), 150)
            check(all(r == want for r in results), "threads")
            w.check_render("after threads")


def main():
    check(Vertex.NEIGHBOR_CACHING is False)
    scripted_basic()
    scripted_three_ended()
    scripted_neighbors_details()
    scripted_neighbors_trace()
    scripted_traces()
    scripted_bombs()
    scripted_callbacks()
    scripted_subclasses_and_attributes()
    random_part(range(40))
    threaded_part()
    check(Vertex.NEIGHBOR_CACHING is False)
    # the public face of the module has not grown
    public = sorted(n for n in vars(plaintext) if not n.startswith("_"))
    eq(
        public,
        ["Callable", "Universe", "annotations", "basic_render", "helpers"],
    )
    print(f"equiv.py: all {CHECKS} checks passed")
    return 0


if __name__ == "__main__":
    sys.exit(main())
