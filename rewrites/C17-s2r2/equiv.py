#!/usr/bin/env python3
# -*- coding: utf-8 -*-
"""
equiv.py -- behavioural check for property C17

    "Semi-singletons: per class, instances correspond one-to-one to argument
     keys"

of edgegraph.structure.singleton.  Uses the PUBLIC API only:

    semi_singleton_metaclass, add_mapping, drop_semi_singleton_mapping,
    check_semi_singleton_entry_exists, get_all_semi_singleton_instances,
    clear_semi_singleton (and TrueSingleton / clear_true_singleton as
    bystanders).

Part 1 is a list of scripted corner cases (re-entrant constructors, raising
callbacks, lazy generator semantics, aliasing, metaclass sharing / subclassing /
cooperative metaclasses, pickling, call counts of user callbacks ...).
Part 2 is a seeded random differential test against an independent oracle
(``Oracle`` below: an ordered association list searched linearly, with its own
canonicalisation of keyword arguments -- it shares no code with the library and
never uses json).

Exit status 0 <=> everything is as the property / documented behaviour demand.

Run from the worktree root:

    PYTHONPATH=<worktree> /venv/bin/python equiv.py
"""

import copy
import itertools
import pickle
import random
import sys
import types

from edgegraph.structure import singleton as S
from edgegraph.structure import vertex, universe

FAILURES = []
NCHECKS = [0]


def check(cond, msg):
    NCHECKS[0] += 1
    if not cond:
        FAILURES.append(msg)
        print("FAIL:", msg)


def raises(exc, fn, *a, **k):
    """Call fn; return the exception instance if it is of class exc (exactly
    that class), else record a failure and return None."""
    try:
        fn(*a, **k)
    except BaseException as e:  # pylint: disable=broad-except
        if type(e) is exc:
            return e
        check(False, f"expected {exc.__name__}, got {type(e).__name__}: {e}")
        return None
    check(False, f"expected {exc.__name__}, nothing raised")
    return None


def same_list(a, b):
    """Identity-wise, order-wise list equality."""
    a = list(a)
    b = list(b)
    return len(a) == len(b) and all(x is y for x, y in zip(a, b))


def live(cls):
    return list(S.get_all_semi_singleton_instances(cls))


###############################################################################
# Part 1 -- scripted corner cases
###############################################################################


def t_basic_identity():
    inits = []

    class C(metaclass=S.semi_singleton_metaclass()):
        def __init__(self, *args, **kwargs):
            inits.append(self)
            self.args = args
            self.kwargs = kwargs

    a = C()
    check(C() is a and len(inits) == 1, "no-arg key reused, init once")
    b = C(1, 2, 3)
    check(b is not a and C(1, 2, 3) is b, "positional key")
    check(C(3, 2, 1) is not b, "positional order matters")
    c = C(i=4, j=5)
    check(C(j=5, i=4) is c, "kwarg order irrelevant")
    check(C(i=5, j=4) is not c, "kwarg values matter")
    check(C(4, 5) is not c, "positional vs keyword differ")
    check(type(a) is C and type(b) is C and type(c) is C, "type of result")
    n = len(inits)
    check(all(x is y for x, y in zip(inits, live(C))) and len(live(C)) == n,
          "get_all reports every instance exactly once, in creation order")

    # distinct arguments with the same hash() must not share an instance
    check(hash(-1) == hash(-2), "(python fact) hash(-1) == hash(-2)")
    m1, m2 = C(-1), C(-2)
    check(m1 is not m2 and C(-1) is m1 and C(-2) is m2, "-1 / -2 distinct")

    # positional arguments compare like tuple elements: 1 == True == 1.0
    p = C(1)
    check(C(True) is p and C(1.0) is p, "1 == True == 1.0 positionally")
    # ... keyword arguments compare by their JSON text
    k = C(x=1)
    check(C(x=True) is not k and C(x=1.0) is not k and C(x=True) is not C(x=1.0),
          "kwargs 1 / True / 1.0 distinct")
    check(C(x=[1, 2]) is C(x=(1, 2)), "kwargs list/tuple coincide")
    check(C(x={"b": 1, "a": 2}) is C(x={"a": 2, "b": 1}),
          "nested dict key order irrelevant")
    check(C(x={1: "a"}) is C(x={"1": "a"}), "nested non-str keys coerced")
    check(C(x=None) is not C(x="null") and C(x=None) is C(x=None), "None kw")
    nan = float("nan")
    check(C(x=nan) is C(x=float("nan")), "kw NaN by text")
    check(C(nan) is C(nan), "positional NaN: same object -> same key")
    check(C(float("nan")) is not C(float("nan")),
          "positional NaN: different objects -> different keys")
    check(C(x="é \"\\") is C(x="é \"\\"), "non-ascii kw text")
    check(C(x="a") is not C(x="A"), "case matters")
    check(C(x=0.0) is not C(x=-0.0), "kw 0.0 / -0.0 differ in text")
    check(C(0.0) is C(-0.0), "positional 0.0 == -0.0")
    check(C(x=float("inf")) is not C(x=float("-inf")), "kw infinities")
    # generators / arbitrary hashables as positional arguments
    g1 = (i for i in range(3))
    g2 = (i for i in range(3))
    check(C(g1) is C(g1) and C(g1) is not C(g2), "generator objects as args")
    check(list(g1) == [0, 1, 2], "generator argument never consumed")
    check(C(()) is not C() and C(()) is C(()), "empty tuple arg vs no arg")
    check(C(C) is C(C) and C(a) is C(a) and C(a) is not a, "class/instance as arg")
    check(all(getattr(o, "args", None) is not None for o in live(C)),
          "every live instance was initialised")
    check(len(inits) == len(live(C)) == len(set(map(id, live(C)))),
          "number of inits == number of live mappings == distinct instances")


def t_default_key_exhaustive_pairs():
    """Default hash function: every pair of keyword values / positional values
    from a pool is merged exactly when the documentation says so."""

    class C(metaclass=S.semi_singleton_metaclass()):
        def __init__(self, *a, **k):
            pass

    check(C.__annotations__ == {}, "no annotations leak from the metaclass")
    kw_values = [
        None, True, False, 0, 1, -1, 2, 10**30, -(10**30), 0.0, -0.0, 1.0, 0.1 + 0.2,
        0.3, 1e22, 1e-7, float("inf"), float("-inf"), float("nan"), "", "a", "A",
        "null", "true", "1", "1.0", "[]", "{}", "\u00e9", "é", "\n", "\\n", "\"",
        "\x7f", "\U0001f600", [], (), [[]], [()], {}, [None], [0], [False], [0.0],
        [1, 2], (1, 2), [2, 1], [1, [2]], [[1], 2], {"a": 1}, {"a": True},
        {"a": 1, "b": 2}, {"b": 2, "a": 1}, {"a": {"b": {"c": []}}},
        {"a": {"b": {"c": ()}}}, {"": None}, {"a": [1, {"z": 0, "y": 0}]},
        {"a": [1, {"y": 0, "z": 0}]}, {"B": 1, "a": 2, "_": 3}, {"_": 3, "a": 2, "B": 1},
    ]
    insts = [C(x=v) for v in kw_values]
    keys = [canon(v) for v in kw_values]
    bad = [(i, j) for i in range(len(insts)) for j in range(len(insts))
           if (insts[i] is insts[j]) != (keys[i] == keys[j])]
    check(not bad, f"keyword value pairs merged wrongly: {bad[:5]}")
    check(len(live(C)) == len(set(keys)), "one live mapping per distinct keyword text")
    # same values under another keyword name / next to other keywords
    check(all(C(y=v) is not C(x=v) for v in kw_values), "keyword name matters")
    check(all(C(x=v, y=v) is C(y=v, x=v) for v in kw_values), "keyword order does not")
    check(all(C(v2 := v if not isinstance(v, (list, dict)) else None) is C(v2)
              for v in kw_values), "hashable positionals")
    pos_values = [None, True, False, 0, 1, -1, -2, 2, 1.0, 2.0, 0.0, -0.0, 10**30,
                  float(10**30), "", "a", b"a", (), (1,), (1.0,), ((1,),), frozenset(),
                  frozenset({1}), frozenset({1.0}), int, C, len, 1 + 0j, 1j]
    S.clear_semi_singleton(C)
    insts = [C(v) for v in pos_values]
    bad = [(i, j) for i in range(len(insts)) for j in range(len(insts))
           if (insts[i] is insts[j]) != (pos_values[i] == pos_values[j])]
    check(not bad, f"positional value pairs merged wrongly: {bad[:5]}")
    # nested mappings with keys that cannot be ordered
    raises(TypeError, C, x={1: "a", "1": "b"})
    check(C(x={1: "a", 2: "b"}) is C(x={2: "b", 1: "a"}), "int keys are sorted as ints")
    check(C(x={1: "a"}) is C(x={"1": "a"}) and C(x={None: 1}) is C(x={"null": 1})
          and C(x={True: 1}) is C(x={"true": 1}) and C(x={1.5: 1}) is C(x={"1.5": 1}),
          "JSON spelling of non-string keys")
    # depth
    deep = cur = []
    for _ in range(50):
        cur.append([])
        cur = cur[0]
    check(C(x=deep) is C(x=copy.deepcopy(deep)), "deep nesting")
    # many keywords
    names = [f"k{i}" for i in range(60)]
    kw = {n: i for i, n in enumerate(names)}
    rev = dict(reversed(list(kw.items())))
    check(C(**kw) is C(**rev), "60 keywords in any order")
    kw2 = dict(kw, k59=True)
    check(C(**kw2) is not C(**kw), "one keyword differing in type only")


def t_errors_before_construction():
    inits = []

    class C(metaclass=S.semi_singleton_metaclass()):
        def __init__(self, *args, **kwargs):
            inits.append((args, kwargs))

    raises(TypeError, C, [1])  # unhashable positional
    raises(TypeError, C, {1})
    raises(TypeError, C, 1, ([2],))
    raises(TypeError, C, x=object())  # not JSON-able
    raises(TypeError, C, x={1, 2})
    raises(TypeError, C, x=(i for i in range(2)))
    raises(TypeError, C, x=b"bytes")
    raises(TypeError, C, x={(1, 2): 3})  # bad nested key
    loop = []
    loop.append(loop)
    raises(ValueError, C, x=loop)  # circular
    check(inits == [] and live(C) == [], "failed keys construct nothing")
    # the same through the helper functions
    raises(TypeError, S.check_semi_singleton_entry_exists, C, [1])
    raises(TypeError, S.check_semi_singleton_entry_exists, C, x=object())
    raises(TypeError, S.drop_semi_singleton_mapping, C, [1])
    raises(TypeError, S.drop_semi_singleton_mapping, C, x={1})
    c = C(0)
    raises(TypeError, S.add_mapping, c, [1])
    raises(TypeError, S.add_mapping, c, x=object())
    check(same_list(live(C), [c]) and len(inits) == 1, "state intact")

    # parameter names of the public functions are part of the interface
    raises(TypeError, C, cls=1)
    raises(TypeError, S.add_mapping, c, obj=1)
    raises(TypeError, S.drop_semi_singleton_mapping, C, cls=1)
    raises(TypeError, S.check_semi_singleton_entry_exists, C, cls=1)
    raises(TypeError, S.add_mapping)
    raises(TypeError, S.drop_semi_singleton_mapping)
    raises(TypeError, S.check_semi_singleton_entry_exists)
    raises(TypeError, S.get_all_semi_singleton_instances)
    raises(TypeError, S.clear_semi_singleton)
    check(S.add_mapping(obj=c) is None and C() is c, "add_mapping(obj=...)")
    check(S.check_semi_singleton_entry_exists(cls=C) is c, "check(cls=...)")
    check(S.drop_semi_singleton_mapping(cls=C) is None, "drop(cls=...)")
    check(S.check_semi_singleton_entry_exists(cls=C) is None, "dropped")
    check(same_list(S.get_all_semi_singleton_instances(cls=C), [c]), "get(cls=)")
    check(S.clear_semi_singleton(cls=C) is None and live(C) == [], "clear(cls=)")
    mc = S.semi_singleton_metaclass(hashfunc=lambda a, k: 0)
    check(isinstance(mc, type) and issubclass(mc, type), "hashfunc= keyword")
    mc2 = S.semi_singleton_metaclass(None)

    class N(metaclass=mc2):
        def __init__(self, *a, **k):
            pass

    check(N(1, a=2) is N(1, a=2) and N(1, a=2) is not N(1, a=3),
          "explicit None hashfunc -> default")

    # not a semi-singleton at all
    class Plain:
        pass

    raises(AttributeError, S.add_mapping, Plain(), 1)
    raises(AttributeError, S.add_mapping, 5)
    raises(AttributeError, S.drop_semi_singleton_mapping, Plain, 1)
    raises(AttributeError, S.check_semi_singleton_entry_exists, Plain, 1)
    raises(AttributeError, S.clear_semi_singleton, Plain)
    raises(AttributeError, S.clear_semi_singleton, None)
    gen = S.get_all_semi_singleton_instances(Plain)  # lazy: no error yet
    check(isinstance(gen, types.GeneratorType), "get_all returns a generator")
    raises(AttributeError, next, gen)
    raises(StopIteration, next, gen)

    class TS(metaclass=S.TrueSingleton):
        pass

    raises(AttributeError, S.check_semi_singleton_entry_exists, TS)
    raises(AttributeError, S.add_mapping, TS())
    raises(AttributeError, S.clear_semi_singleton, TS)


def t_drop_check_add_clear():
    inits = []

    class A(metaclass=S.semi_singleton_metaclass()):
        def __init__(self, *args, **kwargs):
            inits.append(self)

    class B(metaclass=S.semi_singleton_metaclass()):
        def __init__(self, *args, **kwargs):
            inits.append(self)

    a1, a2, b1, b2 = A(1), A(2), B(1), B(2)
    check(S.check_semi_singleton_entry_exists(A, 1) is a1, "check hit")
    check(S.check_semi_singleton_entry_exists(A, 3) is None, "check miss")
    check(S.check_semi_singleton_entry_exists(A, 1, k=1) is None, "check miss kw")
    check(len(inits) == 4 and same_list(live(A), [a1, a2]), "check creates nothing")

    e = raises(KeyError, S.drop_semi_singleton_mapping, A, 3)
    check(e is not None and len(e.args) == 1 and isinstance(e.args[0], tuple)
          and e.args[0][0] is A, "KeyError names the (class, key) pair")
    check(same_list(live(A), [a1, a2]) and same_list(live(B), [b1, b2]),
          "failed drop leaves everything")
    check(S.drop_semi_singleton_mapping(A, 1) is None, "drop returns None")
    check(S.check_semi_singleton_entry_exists(A, 1) is None, "dropped")
    raises(KeyError, S.drop_semi_singleton_mapping, A, 1)
    check(same_list(live(A), [a2]) and same_list(live(B), [b1, b2]), "drop isolated")
    a1b = A(1)
    check(a1b is not a1 and len(inits) == 5, "dropped key re-created")
    check(same_list(live(A), [a2, a1b]), "re-created key goes to the end")

    # add_mapping: new alias, overwrite of an existing key keeps its position
    check(S.add_mapping(a2, 9, z=1) is None, "add_mapping returns None")
    check(A(9, z=1) is a2 and len(inits) == 5, "alias resolves, no init")
    check(same_list(live(A), [a2, a1b, a2]), "alias listed (duplicates kept)")
    S.add_mapping(a1, 2)  # hijack key 2 for the old, dropped, a1
    check(A(2) is a1 and same_list(live(A), [a1, a1b, a2]), "overwrite in place")
    check(B(9, z=1) is not a2 and B(2) is b2, "other class untouched")
    # an object that is already mapped can be mapped to its own key again
    S.add_mapping(a1b, 1)
    check(same_list(live(A), [a1, a1b, a2]), "idempotent add_mapping")
    # clear
    check(S.clear_semi_singleton(A) is None and live(A) == [], "clear")
    check(S.clear_semi_singleton(A) is None and live(A) == [], "clear twice")
    check(same_list(live(B), [b1, b2, B(9, z=1)]), "clear isolated")
    check(S.check_semi_singleton_entry_exists(A, 9, z=1) is None, "aliases cleared")
    n = len(inits)
    check(A(2) is not a1 and A(2) is not a2 and len(inits) == n + 1, "fresh after clear")


def t_lazy_generator():
    class C(metaclass=S.semi_singleton_metaclass()):
        def __init__(self, *a):
            pass

    c1 = C(1)
    gen = S.get_all_semi_singleton_instances(C)
    check(isinstance(gen, types.GeneratorType), "generator object")
    check(gen.__name__ == "get_all_semi_singleton_instances", "generator name")
    c2 = C(2)  # created after the call, before the first next()
    check(next(gen) is c1, "first")
    c3 = C(3)  # after the first next(): snapshot already taken
    S.clear_semi_singleton(C)
    check(next(gen) is c2, "second (snapshot survives clear)")
    raises(StopIteration, next, gen)
    check(live(C) == [] and C(3) is not c3, "cleared meanwhile")

    # send()/throw()/close() on the generator
    S.clear_semi_singleton(C)
    x, y = C("x"), C("y")
    gen = S.get_all_semi_singleton_instances(C)
    check(gen.send(None) is x, "send(None) starts")
    raises(AttributeError, gen.send, 1)  # delegating to a list iterator
    raises(StopIteration, next, gen)
    gen = S.get_all_semi_singleton_instances(C)
    check(next(gen) is x, "restart")
    raises(ZeroDivisionError, gen.throw, ZeroDivisionError())
    raises(StopIteration, next, gen)
    gen = S.get_all_semi_singleton_instances(C)
    next(gen)
    check(type(gen.gi_yieldfrom).__name__ == "list_iterator", "delegates to a list")
    gen.close()
    raises(StopIteration, next, gen)
    gen = S.get_all_semi_singleton_instances(C)
    raises(RuntimeError, gen.throw, RuntimeError())  # before start
    check(same_list(live(C), [x, y]), "generators do not disturb the state")
    # a suspended generator keeps nothing alive but what it will still yield
    import gc
    import weakref

    class Other(metaclass=type(C)):
        def __init__(self, *a):
            pass

    class Tok:
        pass

    tok = Tok()
    o = Other(tok)
    refs = [weakref.ref(o), weakref.ref(tok)]
    gen = S.get_all_semi_singleton_instances(C)
    check(next(gen) is x, "suspended")
    S.clear_semi_singleton(Other)
    del o, tok
    gc.collect()
    check([r() for r in refs] == [None, None],
          "suspended generator does not pin entries of other classes")
    check(next(gen) is y, "resumed")
    # two independent generators
    g1, g2 = (S.get_all_semi_singleton_instances(C) for _ in range(2))
    check(next(g1) is x and next(g2) is x and next(g1) is y and next(g2) is y, "indep")


def t_reentrancy_and_raising_callbacks():
    mc = S.semi_singleton_metaclass()
    made = []

    class Re(metaclass=mc):
        depth = 0

        def __init__(self, tag):
            made.append(self)
            self.tag = tag
            self.inner = None
            if Re.depth == 0:
                Re.depth = 1
                try:
                    self.inner = Re(tag)  # same key, not live yet
                    self.seen = S.check_semi_singleton_entry_exists(Re, tag)
                finally:
                    Re.depth = 0

    outer = Re("t")
    check(len(made) == 2 and outer is made[0] and outer.inner is made[1],
          "re-entrant constructor: the caller gets its own (outer) object")
    check(outer.seen is made[1], "inside, the inner object was the live one")
    check(Re("t") is outer and len(made) == 2, "afterwards the outer one is live")
    check(same_list(live(Re), [outer]), "exactly one mapping")

    # __init__ raising: nothing is recorded
    count = [0]

    class Boom(metaclass=mc):
        def __init__(self, x, fail=False):
            count[0] += 1
            if fail:
                raise ValueError(x)

    raises(ValueError, Boom, 1, fail=True)
    raises(ValueError, Boom, 1, fail=True)
    check(count[0] == 2 and live(Boom) == [], "raising __init__ runs again, no mapping")
    check(S.check_semi_singleton_entry_exists(Boom, 1, fail=True) is None, "none")
    raises(KeyError, S.drop_semi_singleton_mapping, Boom, 1, fail=True)
    ok = Boom(1)
    check(Boom(1) is ok and count[0] == 3 and same_list(live(Boom), [ok]), "ok after")
    check(same_list(live(Re), [outer]), "class sharing the metaclass unaffected")
    # BaseException subclasses too
    class Kb(metaclass=mc):
        def __init__(self):
            raise KeyboardInterrupt()

    raises(KeyboardInterrupt, Kb)
    check(live(Kb) == [], "KeyboardInterrupt in __init__: no mapping")

    # __init__ that registers an alias and then raises: the alias stays
    class Half(metaclass=mc):
        def __init__(self, x):
            self.x = x
            S.add_mapping(self, "alias", x)
            raise RuntimeError()

    raises(RuntimeError, Half, 7)
    h = S.check_semi_singleton_entry_exists(Half, "alias", 7)
    check(type(h) is Half and h.x == 7, "alias made inside failing __init__ stays")
    check(S.check_semi_singleton_entry_exists(Half, 7) is None, "primary key absent")
    check(same_list(live(Half), [h]), "only the alias")

    # __init__ clearing its own class: the new object is stored afterwards
    class Clr(metaclass=mc):
        def __init__(self, x):
            S.clear_semi_singleton(Clr)

    c1 = Clr(1)
    c2 = Clr(2)
    check(same_list(live(Clr), [c2]) and Clr(2) is c2, "clear inside __init__")
    check(Clr(1) is not c1, "c1 was cleared by c2's constructor")

    # __init__ dropping its own (not yet live) key -> KeyError escapes
    class Drp(metaclass=mc):
        def __init__(self, x):
            S.drop_semi_singleton_mapping(Drp, x)

    raises(KeyError, Drp, 1)
    check(live(Drp) == [], "nothing stored")

    # __init__ creating other keys of the same class: order of registration
    class Chain(metaclass=mc):
        def __init__(self, n):
            self.n = n
            self.prev = Chain(n - 1) if n else None

    top = Chain(3)
    check([o.n for o in live(Chain)] == [0, 1, 2, 3], "inner keys registered first")
    check(top.prev is Chain(2) and Chain(3) is top, "chain identities")

    # hash function raising / misbehaving
    calls = []

    def hf(args, kwargs):
        calls.append((args, kwargs))
        if args and args[0] == "bad":
            raise LookupError("hf")
        if args and args[0] == "list":
            return [1]  # unhashable key
        return args[:1]

    inits = []

    class H(metaclass=S.semi_singleton_metaclass(hf)):
        def __init__(self, *a, **k):
            inits.append((a, k))

    raises(LookupError, H, "bad")
    raises(TypeError, H, "list")
    raises(LookupError, S.check_semi_singleton_entry_exists, H, "bad")
    raises(LookupError, S.drop_semi_singleton_mapping, H, "bad")
    raises(TypeError, S.check_semi_singleton_entry_exists, H, "list")
    raises(TypeError, S.drop_semi_singleton_mapping, H, "list")
    check(inits == [] and live(H) == [] and len(calls) == 6, "hashfunc errors: 6 calls, no init")
    h1 = H(1, 2, z=3)
    raises(LookupError, S.add_mapping, h1, "bad")
    raises(TypeError, S.add_mapping, h1, "list")
    check(H(1, 99) is h1 and len(inits) == 1, "custom key: first positional only")
    check(len(calls) == 10, "one hashfunc call per operation")
    list(S.get_all_semi_singleton_instances(H))
    S.clear_semi_singleton(H)
    check(len(calls) == 10, "get_all / clear never call the hashfunc")
    check(calls[6] == ((1, 2), {"z": 3}) and type(calls[6][0]) is tuple
          and type(calls[6][1]) is dict, "hashfunc receives (tuple, dict)")

    # a hashfunc that edits kwargs edits what __init__ receives (same dict)
    def popper(args, kwargs):
        return kwargs.pop("uid", None)

    got = []

    class P(metaclass=S.semi_singleton_metaclass(popper)):
        def __init__(self, *a, **k):
            got.append((a, k))

    p = P(1, uid=5, other=2)
    check(got == [((1,), {"other": 2})], "hashfunc saw the very kwargs dict")
    check(P(uid=5) is p and P(7, 8, uid=5, q=1) is p and len(got) == 1, "uid key")
    check(S.check_semi_singleton_entry_exists(P, uid=5) is p, "check via uid")
    check(S.check_semi_singleton_entry_exists(P) is None, "None key absent")


def t_new_and_odd_classes():
    mc = S.semi_singleton_metaclass()
    inits = []

    class Odd(metaclass=mc):
        def __new__(cls, x):
            if x == 0:
                return 42  # not an instance: __init__ is skipped by type()
            return super().__new__(cls)

        def __init__(self, x):
            inits.append(x)

    check(Odd(0) == 42 and inits == [], "__new__ returning a foreign object")
    check(S.check_semi_singleton_entry_exists(Odd, 0) == 42, "... is cached")
    o = Odd(1)
    check(type(o) is Odd and inits == [1] and Odd(1) is o, "regular path")
    check(live(Odd) == [42, o], "both listed")

    # falsy instances are handled like any other
    class Falsy(metaclass=mc):
        def __init__(self, *a):
            inits.append("f")

        def __bool__(self):
            return False

        def __len__(self):
            return 0

    f = Falsy(1)
    n = len(inits)
    check(Falsy(1) is f and len(inits) == n, "falsy instance still reused")
    check(S.check_semi_singleton_entry_exists(Falsy, 1) is f, "falsy instance found")
    check(same_list(live(Falsy), [f]), "falsy listed")

    # instances with exotic __eq__/__hash__ are only ever stored as values
    class Weird(metaclass=mc):
        __hash__ = None

        def __init__(self, *a):
            pass

        def __eq__(self, other):
            raise AssertionError("instances must never be compared")

    w = Weird(1)
    check(Weird(1) is w and same_list(live(Weird), [w]), "unhashable instances fine")
    S.add_mapping(w, 2)
    check(Weird(2) is w, "alias of unhashable instance")
    S.drop_semi_singleton_mapping(Weird, 1)
    S.clear_semi_singleton(Weird)
    check(live(Weird) == [], "cleared")

    # class without __init__, with __slots__
    class Slim(metaclass=mc):
        __slots__ = ()

    check(Slim() is Slim(), "slots class")
    raises(TypeError, Slim, 1)  # object() takes no arguments
    check(same_list(live(Slim), [Slim()]), "failed construction not recorded")


def t_metaclass_sharing_and_subclassing():
    mc = S.semi_singleton_metaclass()
    other = S.semi_singleton_metaclass()
    check(mc is not other and mc.__name__ == other.__name__ == "_SemiSingleton",
          "each call makes a new metaclass")
    check(mc.__mro__ == (mc, type, object), "metaclass derives directly from type")
    inits = []

    class A(metaclass=mc):
        def __init__(self, *a, **k):
            inits.append(type(self))

    class B(metaclass=mc):
        def __init__(self, *a, **k):
            inits.append(type(self))

    class A2(A):
        pass

    class O(metaclass=other):
        def __init__(self, *a, **k):
            inits.append(type(self))

    check(type(A) is mc and type(A2) is mc and type(O) is other, "metaclasses")
    a, b, a2, o = A(1), B(1), A2(1), O(1)
    check(len({id(a), id(b), id(a2), id(o)}) == 4, "same key, different classes")
    check(type(a) is A and type(b) is B and type(a2) is A2 and type(o) is O, "types")
    check(inits == [A, B, A2, O], "one init each")
    for cls, inst in ((A, a), (B, b), (A2, a2), (O, o)):
        check(same_list(live(cls), [inst]), f"get_all exact for {cls.__name__}")
        check(S.check_semi_singleton_entry_exists(cls, 1) is inst, "check per class")
    # add_mapping uses the exact class of the object
    S.add_mapping(a2, 5)
    check(A2(5) is a2 and S.check_semi_singleton_entry_exists(A, 5) is None,
          "alias lands in the subclass only")
    S.clear_semi_singleton(A)
    check(live(A) == [] and same_list(live(A2), [a2, a2]) and same_list(live(B), [b])
          and same_list(live(O), [o]), "clear(A) spares subclass / sibling / other")
    S.drop_semi_singleton_mapping(B, 1)
    check(live(B) == [] and A2(1) is a2 and O(1) is o, "drop isolated")
    raises(KeyError, S.drop_semi_singleton_mapping, A, 1)
    check(A(1) is not a, "A(1) is new after clear")

    # user subclass of the generated metaclass, cooperative __call__
    log = []

    class Meta(S.semi_singleton_metaclass()):
        def __call__(cls, *args, **kwargs):
            log.append(("meta", args, kwargs))
            return super().__call__(*args, **kwargs)

    class M(metaclass=Meta):
        def __init__(self, *a, **k):
            log.append(("init", a, k))

    m = M(1, k=2)
    check(M(1, k=2) is m, "subclassed metaclass works")
    check(log == [("meta", (1,), {"k": 2}), ("init", (1,), {"k": 2}),
                  ("meta", (1,), {"k": 2})], "call order through subclassed metaclass")
    check(S.check_semi_singleton_entry_exists(M, 1, k=2) is m, "check w/ meta subclass")
    check(same_list(live(M), [m]), "get_all w/ meta subclass")
    S.add_mapping(m, "other")
    check(M("other") is m, "add_mapping w/ meta subclass")
    S.drop_semi_singleton_mapping(M, "other")
    S.clear_semi_singleton(M)
    check(live(M) == [] and M(1, k=2) is not m, "clear w/ meta subclass")

    # the generated metaclass in front of another metaclass that defines
    # __call__: the other one runs only when an object is really built
    log2 = []

    class Tail(type):
        def __call__(cls, *args, **kwargs):
            log2.append(("tail", args, kwargs))
            return super().__call__(*args, **kwargs)

    class Both(S.semi_singleton_metaclass(), Tail):
        pass

    class Q(metaclass=Both):
        def __init__(self, *a, **k):
            log2.append(("init", a, k))

    q = Q(3, z=4)
    check(Q(3, z=4) is q and Q(z=4, *[3]) is q, "cooperative metaclass reuse")
    check(log2 == [("tail", (3,), {"z": 4}), ("init", (3,), {"z": 4})],
          "next metaclass in the MRO is reached exactly once per new key")


def t_true_singleton_bystander():
    class T(metaclass=S.TrueSingleton):
        def __init__(self, *a):
            self.a = a

    class C(metaclass=S.semi_singleton_metaclass()):
        def __init__(self, *a):
            self.a = a

    t = T(1)
    c = C(1)
    check(T(2) is t and t.a == (1,), "true singleton")
    S.clear_true_singleton()
    check(C(1) is c and T(3) is not t, "clear_true_singleton leaves semi-singletons")
    t3 = T(4)
    S.clear_semi_singleton(C)
    check(T(5) is t3 and C(1) is not c, "clear_semi_singleton leaves true singletons")
    S.clear_true_singleton(T)
    check(T(6) is not t3, "clear_true_singleton(cls)")


class PickleMe(metaclass=S.semi_singleton_metaclass()):
    """Module-level so that pickle can find it."""

    def __init__(self, name, weight=0):
        self.name = name
        self.weight = weight
        PickleMe.inits += 1

    inits = 0


def t_pickle_and_copy():
    p = PickleMe("p", weight=3)
    before = PickleMe.inits
    for proto in range(0, pickle.HIGHEST_PROTOCOL + 1):
        q = pickle.loads(pickle.dumps(p, protocol=proto))
        check(type(q) is PickleMe and q is not p and vars(q) == vars(p),
              f"pickle round trip (protocol {proto})")
    q = copy.copy(p)
    r = copy.deepcopy(p)
    check(q is not p and r is not p and vars(q) == vars(r) == vars(p), "copy")
    check(PickleMe.inits == before, "pickle/copy never run __init__")
    check(same_list(live(PickleMe), [p]) and PickleMe("p", weight=3) is p,
          "pickle/copy never register anything")
    check(set(vars(p)) == {"name", "weight"}, "no attributes injected on instances")
    check(pickle.loads(pickle.dumps(PickleMe)) is PickleMe, "class pickles by reference")
    S.clear_semi_singleton(PickleMe)


def t_vertex_semisingleton():
    def by_i(args, kwargs):
        return args[0]

    class SV(vertex.Vertex, metaclass=S.semi_singleton_metaclass(by_i)):
        def __init__(self, i, *args, **kwargs):
            super().__init__(*args, **kwargs)
            self.i = i

    uni = universe.Universe()
    vs = [SV(i, universes=[uni]) for i in range(5)]
    check(all(SV(i) is vs[i] for i in range(5)), "vertex semi-singleton identity")
    check(all(SV(i, attributes={"x": 1}) is vs[i] for i in range(5)), "extra kw ignored")
    check(same_list(live(SV), vs), "vertices listed")
    plain = vertex.Vertex()
    check({k for k in vars(vs[0]) if not k.startswith("_")}
          == {k for k in vars(plain) if not k.startswith("_")} | {"i"},
          "public instance attribute names as for a plain vertex")
    check(vs[0].i == 0 and uni in vs[0].universes, "vertex state intact")
    S.add_mapping(vs[1], 100)
    check(SV(100) is vs[1], "alias on vertex")
    S.clear_semi_singleton(SV)
    check(SV(0) is not vs[0], "cleared vertices")


class Probe:
    """Hashable argument recording every __hash__/__eq__ call."""

    log = []

    def __init__(self, v, h=None):
        self.v = v
        self.h = hash(v) if h is None else h

    def __hash__(self):
        Probe.log.append(("h", self.v))
        return self.h

    def __eq__(self, other):
        Probe.log.append(("e", self.v, getattr(other, "v", other)))
        return isinstance(other, Probe) and self.v == other.v

    def __repr__(self):
        return f"Probe({self.v!r})"


def t_callback_traffic():
    """Number and order of __hash__/__eq__ calls on user-supplied arguments."""

    def take():
        out = list(Probe.log)
        del Probe.log[:]
        return out

    class C(metaclass=S.semi_singleton_metaclass()):
        def __init__(self, *a, **k):
            Probe.log.append(("init",))

    class D(metaclass=type(C)):  # same metaclass, other class
        def __init__(self, *a, **k):
            Probe.log.append(("init",))

    k = Probe("k")
    take()
    c = C(k)
    check(take() == [("h", "k"), ("init",), ("h", "k"), ("h", "k")],
          "miss: lookup, build, store, fetch")
    check(C(k) is c and take() == [("h", "k")] * 2, "hit: lookup, fetch")
    check(S.check_semi_singleton_entry_exists(C, k) is c and take() == [("h", "k")] * 2,
          "check hit")
    k2 = Probe("k2")
    check(S.check_semi_singleton_entry_exists(C, k2) is None and take() == [("h", "k2")],
          "check miss")
    S.add_mapping(c, k2)
    check(take() == [("h", "k2")], "add_mapping: one store")
    raises(KeyError, S.drop_semi_singleton_mapping, C, Probe("k3"))
    check(take() == [("h", "k3")], "failed drop")
    d = D(Probe("d"))
    take()
    check(same_list(live(C), [c, c]) and take() == [], "get_all: no traffic")
    S.clear_semi_singleton(C)
    check(take() == [("h", "k"), ("h", "k2")], "clear: one delete per own key, in order")
    check(same_list(live(D), [d]), "D untouched")
    # an equal-but-distinct key object: one __eq__ per dictionary probe
    ka, kb = Probe("same"), Probe("same")
    c = C(ka)
    take()
    check(C(kb) is c, "equal key object")
    check(take() == [("h", "same"), ("e", "same", "same")] * 2, "hit through __eq__")
    # colliding hashes: comparisons in insertion order, then the verdict
    S.clear_semi_singleton(C)
    x, y, z = (Probe(n, h=1234) for n in "xyz")
    cx, cy = C(x), C(y)
    take()
    cz = C(z)
    got = take()
    # three dictionary probes (lookup / store / fetch), each hashing z once and
    # comparing it with x and then y.  (CPython's probe sequence may visit a
    # slot twice, depending on id(C); repeated comparisons are squeezed out.)
    probes, cur = [], None
    for ev in got:
        if ev == ("h", "z"):
            cur = []
            probes.append(cur)
        elif ev == ("init",):
            probes.append("init")
        elif cur is not None and ev not in cur:
            cur.append(ev)
        elif cur is None:
            probes.append(ev)
    one = [("e", "x", "z"), ("e", "y", "z")]
    check(probes == [one, "init", one, one], f"colliding miss: {got}")
    check(cz is not cx and cz is not cy and C(x) is cx and C(y) is cy and C(z) is cz,
          "collisions never merge keys")
    take()
    S.clear_semi_singleton(C)
    got = take()
    check(got == [("h", "x"), ("h", "y"), ("h", "z")], f"clear under collisions: {got}")
    # a __hash__ that raises
    class BadHash:
        def __hash__(self):
            raise OverflowError("no hash")

    n = len(live(C))
    raises(OverflowError, C, BadHash())
    raises(OverflowError, S.check_semi_singleton_entry_exists, C, BadHash())
    raises(OverflowError, S.drop_semi_singleton_mapping, C, BadHash())
    raises(OverflowError, S.add_mapping, d, BadHash())
    check(len(live(C)) == n and same_list(live(D), [d]), "raising __hash__: no change")
    # a __hash__ that starts raising after the object has been built
    class Flaky:
        def __init__(self, ok):
            self.ok = ok

        def __hash__(self):
            if self.ok <= 0:
                raise OverflowError("flaky")
            self.ok -= 1
            return 7

    take()
    raises(OverflowError, C, Flaky(1))
    check(take() == [("init",)] and len(live(C)) == n,
          "hash failing at store time: built, not stored")
    raises(OverflowError, C, Flaky(2))
    check(take() == [("init",)] and len(live(C)) == n + 1,
          "hash failing at fetch time: built and stored, exception escapes")
    S.clear_semi_singleton(D)
    raises(OverflowError, S.clear_semi_singleton, C)  # stored Flaky can't be hashed
    check(len(live(C)) == n + 1, "clear stopped at the unhashable stored key")


def t_random_calls_untouched():
    """The singleton machinery never consumes random numbers."""
    random.seed(4242)
    expect = [random.random() for _ in range(3)]
    random.seed(4242)

    class C(metaclass=S.semi_singleton_metaclass()):
        def __init__(self, *a, **k):
            pass

    c = C(1, a=2)
    C(1, a=2)
    S.add_mapping(c, 2)
    S.check_semi_singleton_entry_exists(C, 2)
    S.drop_semi_singleton_mapping(C, 2)
    list(S.get_all_semi_singleton_instances(C))
    S.clear_semi_singleton(C)
    check([random.random() for _ in range(3)] == expect, "random state untouched")


###############################################################################
# Part 2 -- seeded random differential test against an independent oracle
###############################################################################


def canon(v):
    """Canonical form of a keyword-argument value: two values get the same
    canon() iff the documentation says the default hash function treats them
    alike (same JSON text).  Written without json on purpose."""
    if v is None:
        return ("n",)
    if isinstance(v, bool):
        return ("b", v)
    if isinstance(v, int):
        return ("i", v)
    if isinstance(v, float):
        return ("f", repr(v))
    if isinstance(v, str):
        return ("s", v)
    if isinstance(v, (list, tuple)):
        return ("l", tuple(canon(x) for x in v))
    if isinstance(v, dict):
        return ("d", tuple(sorted((k, canon(x)) for k, x in v.items())))
    raise TypeError(v)


def default_key(args, kwargs):
    return (args, canon(kwargs))


class Oracle:
    """Reference model of ONE semi-singleton metaclass: an ordered association
    list  [class, key, instance]  searched linearly with ``is`` on the class
    and ``==`` on the key."""

    def __init__(self, keyfn):
        self.keyfn = keyfn
        self.entries = []

    def find(self, cls, key):
        for idx, ent in enumerate(self.entries):
            # identity first, then equality -- like every Python container
            if ent[0] is cls and (ent[1] is key or ent[1] == key):
                return idx
        return None

    def lookup(self, cls, args, kwargs):
        idx = self.find(cls, self.keyfn(args, kwargs))
        return None if idx is None else self.entries[idx][2]

    def store(self, cls, args, kwargs, inst):
        key = self.keyfn(args, kwargs)
        idx = self.find(cls, key)
        if idx is None:
            self.entries.append([cls, key, inst])
        else:
            self.entries[idx][2] = inst

    def drop(self, cls, args, kwargs):
        idx = self.find(cls, self.keyfn(args, kwargs))
        if idx is None:
            return False
        del self.entries[idx]
        return True

    def all_of(self, cls):
        return [ent[2] for ent in self.entries if ent[0] is cls]

    def clear(self, cls):
        self.entries = [ent for ent in self.entries if ent[0] is not cls]


NAN = float("nan")
POS_POOL = [0, 1, 2, -1, -2, True, False, 1.0, 2.5, "a", "b", "", None, (1, 2),
            (1, (2, 3)), frozenset({1}), NAN, 10**20, "1", b"a"]
KW_NAMES = ["x", "y", "z", "obj_", "hashfunc"]
KW_POOL = [0, 1, True, False, 1.0, 2.5, "a", "1", "", None, [1, 2], (1, 2), [],
           {"p": 1, "q": [True, None]}, {"q": [True, None], "p": 1}, {"p": 1.0},
           [[1], [2, [3]]], -0.0, 0.0, NAN, "é"]


def rand_call(rng):
    n = rng.choice((0, 0, 1, 1, 1, 2, 3))
    args = tuple(rng.choice(POS_POOL) for _ in range(n))
    names = rng.sample(KW_NAMES, rng.choice((0, 0, 0, 1, 1, 2)))
    kwargs = {nm: rng.choice(KW_POOL) for nm in names}
    if rng.random() < 0.5:
        kwargs = dict(reversed(list(kwargs.items())))
    return args, kwargs


def make_world():
    """Build several metaclasses / classes and their oracles."""
    world = []  # (oracle, counter, [classes])
    total_inits = {}

    def make_class(name, mc, base=None):
        def __init__(self, *args, **kwargs):
            self.inits = getattr(self, "inits", 0) + 1
            self.args = args
            self.kwargs = kwargs
            total_inits[type(self)] = total_inits.get(type(self), 0) + 1

        if base is None:
            return mc(name, (), {"__init__": __init__})
        return mc(name, (base,), {})

    def wrap(fn, counter):
        def hashfunc(args, kwargs):
            counter.append((args, dict(kwargs)))
            return fn(args, kwargs)

        return hashfunc

    # 1: default hash function, three classes (two siblings and a subclass)
    mc = S.semi_singleton_metaclass()
    a = make_class("A", mc)
    world.append((Oracle(default_key), None, [a, make_class("B", mc), make_class("A2", mc, a)]))
    # 2: another default metaclass, must be independent of 1
    mc = S.semi_singleton_metaclass()
    world.append((Oracle(default_key), None, [make_class("D", mc)]))
    # 3..: custom hash functions (the oracle gets the bare function, the
    # library a call-recording wrapper)
    customs = [
        lambda args, kwargs: args[0] if args else None,
        lambda args, kwargs: len(args) + 10 * len(kwargs),
        lambda args, kwargs: (args, tuple(sorted(kwargs))),
        lambda args, kwargs: 0,
        lambda args, kwargs: hash(args[:2]),
    ]
    for i, fn in enumerate(customs):
        counter = []
        mc = S.semi_singleton_metaclass(wrap(fn, counter))
        classes = [make_class(f"K{i}", mc)]
        if i % 2 == 0:
            classes.append(make_class(f"K{i}b", mc))
        world.append((Oracle(fn), counter, classes))
    return world, total_inits


def random_differential(seed, steps):
    rng = random.Random(seed)
    world, total_inits = make_world()
    ever = {}  # class -> every instance ever returned for it (kept alive)
    expected_inits = {}
    all_classes = [(orc, cnt, cls) for orc, cnt, classes in world for cls in classes]

    def full_compare(where):
        for orc, _, cls in all_classes:
            if not same_list(live(cls), orc.all_of(cls)):
                check(False, f"[seed {seed}] {where}: get_all({cls.__name__}) differs")
                return False
            if total_inits.get(cls, 0) != expected_inits.get(cls, 0):
                check(False, f"[seed {seed}] {where}: init count of {cls.__name__}")
                return False
        return True

    for step in range(steps):
        orc, cnt, cls = rng.choice(all_classes)
        args, kwargs = rand_call(rng)
        op = rng.choice(("new", "new", "new", "new", "add", "drop", "check", "check",
                         "all", "clear" if rng.random() < 0.25 else "check"))
        where = f"step {step} {op} {cls.__name__}{args}{kwargs}"
        ncalls = None if cnt is None else len(cnt)
        others = [len(c) for _, c, _ in all_classes if c is not None and c is not cnt]
        expect_calls = 1
        if op == "new":
            want = orc.lookup(cls, args, kwargs)
            got = cls(*args, **dict(kwargs))
            if want is not None:
                check(got is want, f"[seed {seed}] {where}: live key must be reused")
            else:
                check(all(got is not o for o in ever.get(cls, ())),
                      f"[seed {seed}] {where}: new key must give a new object")
                check(got.args == args or (args != args), f"{where}: args recorded")
                expected_inits[cls] = expected_inits.get(cls, 0) + 1
                orc.store(cls, args, kwargs, got)
                ever.setdefault(cls, []).append(got)
            check(type(got) is cls, f"[seed {seed}] {where}: wrong type")
            check(got.inits == 1, f"[seed {seed}] {where}: __init__ ran again")
        elif op == "add":
            pool = ever.get(cls) or []
            # sometimes alias an instance of a class sharing the metaclass
            sib = [c for o, _, c in all_classes if o is orc]
            donor = rng.choice(sib)
            pool = ever.get(donor) or pool
            if not pool:
                continue
            obj = rng.choice(pool)
            check(S.add_mapping(obj, *args, **dict(kwargs)) is None, f"{where}: returns")
            orc.store(type(obj), args, kwargs, obj)
        elif op == "drop":
            had = orc.drop(cls, args, kwargs)
            try:
                res = S.drop_semi_singleton_mapping(cls, *args, **dict(kwargs))
                check(had and res is None, f"[seed {seed}] {where}: drop should fail")
            except KeyError:
                check(not had, f"[seed {seed}] {where}: drop should succeed")
        elif op == "check":
            got = S.check_semi_singleton_entry_exists(cls, *args, **dict(kwargs))
            check(got is orc.lookup(cls, args, kwargs), f"[seed {seed}] {where}: check")
        elif op == "all":
            expect_calls = 0
            gen = S.get_all_semi_singleton_instances(cls)
            check(same_list(gen, orc.all_of(cls)), f"[seed {seed}] {where}: get_all")
        else:
            expect_calls = 0
            check(S.clear_semi_singleton(cls) is None, f"{where}: returns")
            orc.clear(cls)
        if cnt is not None:
            check(len(cnt) == ncalls + expect_calls,
                  f"[seed {seed}] {where}: hashfunc called {len(cnt) - ncalls} times")
            if expect_calls:
                check(cnt[-1][0] == args or args != args, f"{where}: hashfunc args")
                check(canon(cnt[-1][1]) == canon(kwargs), f"{where}: hashfunc kwargs")
        check(others == [len(c) for _, c, _ in all_classes if c is not None and c is not cnt],
              f"[seed {seed}] {where}: foreign hashfunc called")
        if not full_compare(where):
            return
    full_compare("end")


def main():
    scripted = [
        t_basic_identity,
        t_default_key_exhaustive_pairs,
        t_errors_before_construction,
        t_drop_check_add_clear,
        t_lazy_generator,
        t_reentrancy_and_raising_callbacks,
        t_new_and_odd_classes,
        t_metaclass_sharing_and_subclassing,
        t_true_singleton_bystander,
        t_pickle_and_copy,
        t_vertex_semisingleton,
        t_callback_traffic,
        t_random_calls_untouched,
    ]
    for fn in scripted:
        try:
            fn()
        except BaseException as exc:  # pylint: disable=broad-except
            import traceback

            traceback.print_exc()
            check(False, f"{fn.__name__} crashed: {type(exc).__name__}: {exc}")
    for seed in (2, 1702, 170217, 30092026):
        random_differential(seed, 2500)
    print(f"{NCHECKS[0]} checks, {len(FAILURES)} failures")
    return 1 if FAILURES else 0


if __name__ == "__main__":
    sys.exit(main())
