#!/usr/bin/env python3
"""
Equivalence / conformance program for property C06:

    "Every traversal visits exactly the reachable in-universe vertices, once
    each."

Only the public API of edgegraph is used.  The program exits 0 when bft / ibft,
dft_recursive / idft_recursive and dft_iterative / idft_iterative behave as the
property and the documented behaviour demand, and exits 1 (after printing what
went wrong) otherwise.

Run from the worktree root as

    PYTHONPATH=<worktree> /venv/bin/python equiv.py

Contents:

* an ORACLE written from the documentation only:
    - ``o_neighbors``: which vertices a vertex is adjacent to under given
      direction / unknown-class / filter settings, computed straight from
      ``vertex.links`` and ``link.vertices``;
    - ``o_reach``: the set of vertices reachable through in-universe vertices,
      computed as a naive fixed point (no queue, no stack, no order);
    - ``ref_bft`` / ``ref_dftr`` / ``ref_dfti``: textbook generators giving the
      documented visiting ORDER of each traversal;
* scripted corner cases (part A);
* a seeded random differential part (part B) that runs the library on one
  graph and the oracle on an identically built twin, comparing listings,
  callback call sequences, exceptions, and what happens when the graph is
  changed in between two ``next()`` calls;
* part C: pickle / deepcopy / nrpickler round trips followed by further
  mutation and traversal, worker threads, caching on/off, cache statistics,
  warnings-as-errors, random-module state, attribute names of the objects;
* part D: helpers.neighbors() on its own against ``o_neighbors`` under every
  combination of settings (the traversals are only as good as it is).
"""

import copy
import gc
import inspect
import pickle
import random
import sys
import threading
import warnings
import weakref

from edgegraph.structure import (
    DirectedEdge,
    Link,
    TwoEndedLink,
    UnDirectedEdge,
    Universe,
    Vertex,
)
from edgegraph.traversal import breadthfirst, depthfirst, helpers

warnings.simplefilter("error")

FAILS = []
CHECKS = [0]


def check(cond, msg):
    CHECKS[0] += 1
    if not cond:
        FAILS.append(msg)
        if len(FAILS) <= 40:
            print("FAIL:", msg)


FWD = helpers.DIR_SENS_FORWARD
ANY = helpers.DIR_SENS_ANY
BWD = helpers.DIR_SENS_BACKWARD
U_NON = helpers.LNK_UNKNOWN_NONNEIGHBOR
U_NB = helpers.LNK_UNKNOWN_NEIGHBOR
U_ERR = helpers.LNK_UNKNOWN_ERROR

LIST_FUNCS = {
    "bft": breadthfirst.bft,
    "dftr": depthfirst.dft_recursive,
    "dfti": depthfirst.dft_iterative,
}
GEN_FUNCS = {
    "bft": breadthfirst.ibft,
    "dftr": depthfirst.idft_recursive,
    "dfti": depthfirst.idft_iterative,
}


###############################################################################
# the oracle


def o_neighbors(v, ds, uh, via):
    """Adjacent vertices of ``v``, from the documentation of neighbors()."""
    out = []
    for link in v.links:
        ends = link.vertices
        first, second = ends[0], ends[1]
        if v is first:
            far = second
        elif v is second:
            far = first
        else:
            far = None
        cls = type(link)
        if ds == ANY:
            follow = True
        elif ds in (FWD, BWD):
            verdict = None
            if issubclass(cls, UnDirectedEdge):
                verdict = True
            elif issubclass(cls, DirectedEdge):
                tail, head = (first, second) if ds == FWD else (second, first)
                if tail is v:
                    verdict = True
                elif head is v:
                    verdict = False
            if verdict is None:
                # a class (or a situation) the library does not know about
                if uh == U_NON:
                    verdict = False
                elif uh == U_NB:
                    verdict = True
                else:
                    raise NotImplementedError("unknown link class")
            follow = verdict
        else:
            raise ValueError("bad direction")
        if follow and (via is None or via(link, far)):
            out.append(far)
    return out


def o_member(uni, v):
    return uni is None or any(v is m or v == m for m in uni.vertices)


def o_reach(uni, start, ds, uh, via, pool):
    """ids of vertices reachable from start: naive fixed point."""
    reach = {id(start)}
    changed = True
    while changed:
        changed = False
        for x in pool:
            if id(x) not in reach:
                continue
            for n in o_neighbors(x, ds, uh, via):
                if o_member(uni, n) and id(n) not in reach:
                    reach.add(id(n))
                    changed = True
    return reach


def o_keep(res, v):
    if not res:
        return True
    return bool(res(v))


def ref_bft(uni, start, ds, uh, via, res):
    if uni is not None and len(uni.vertices) == 0:
        return
    if uni is not None and start not in uni.vertices:
        raise ValueError("start")
    seen = set([start])
    todo = [start]
    if o_keep(res, start):
        yield start
    while todo:
        u = todo.pop(0)
        for v in o_neighbors(u, ds, uh, via):
            if uni is not None and v not in uni.vertices:
                continue
            if v not in seen:
                seen.add(v)
                todo.append(v)
                if o_keep(res, v):
                    yield v


def ref_dftr(uni, start, ds, uh, via, res):
    if uni is not None and len(uni.vertices) == 0:
        raise ValueError("empty")
    if uni is not None and start not in uni.vertices:
        raise ValueError("start")
    seen = {}

    def rec(v):
        seen[v] = None
        if o_keep(res, v):
            yield v
        for w in o_neighbors(v, ds, uh, via):
            if uni is not None and w not in uni.vertices:
                continue
            if w not in seen:
                yield from rec(w)

    yield from rec(start)


def ref_dfti(uni, start, ds, uh, via, res):
    if uni is not None and len(uni.vertices) == 0:
        raise ValueError("empty")
    if uni is not None and start not in uni.vertices:
        raise ValueError("start")
    stack = [start]
    done = []
    while stack:
        v = stack.pop()
        if v in done:
            continue
        if uni is not None and v not in uni.vertices:
            continue
        done.append(v)
        if o_keep(res, v):
            yield v
        stack.extend(o_neighbors(v, ds, uh, via))


REFS = {"bft": ref_bft, "dftr": ref_dftr, "dfti": ref_dfti}


###############################################################################
# classes used in the graphs (module level: they must pickle)


class SlotVertex(Vertex):
    __slots__ = ("extra",)


class KeyVertex(Vertex):
    """equal when the keys are equal"""

    def __eq__(self, other):
        return isinstance(other, KeyVertex) and self.key == other.key

    def __hash__(self):
        return hash(self.key) % 5


class NoHashVertex(Vertex):
    def __eq__(self, other):
        return self is other

    __hash__ = None


class OddLink(TwoEndedLink):
    """neither directed nor undirected"""


class SubDirected(DirectedEdge):
    __slots__ = ("note",)


class SubUniverse(Universe):
    pass


class Stop(BaseException):
    """not an Exception subclass"""


def lab(x):
    return None if x is None else getattr(x, "lbl", "?")


###############################################################################
# graph factory: build(seed) gives the same graph every time it is called


class World:
    pass


def build(seed, vkind="plain", allow_none=True, allow_odd=True, nmax=10):
    rng = random.Random(seed)
    w = World()
    n = rng.randint(1, nmax)
    w.verts = []
    for i in range(n):
        if vkind == "plain":
            cls = rng.choice([Vertex, Vertex, SlotVertex])
        elif vkind == "key":
            cls = KeyVertex
        else:
            cls = NoHashVertex
        v = cls(attributes={"lbl": "v%d" % i, "i": i})
        if cls is SlotVertex:
            v.extra = i
        if cls is KeyVertex:
            v.key = i if rng.random() < 0.7 else rng.randint(0, 2)
        # user attributes with names an implementation might be tempted by
        v["visited"] = False
        v["stack"] = "mine"
        v["_seen"] = i
        v["nan"] = float("nan")
        w.verts.append(v)
    w.links = []
    for _ in range(rng.randint(0, 2 * n + 3)):
        w_add_link(w, rng, allow_none, allow_odd)
    mode = rng.choice(["none"] * 3 + ["all"] * 3 + ["part"] * 4 + ["empty", "nostart"])
    w.start = rng.choice(w.verts)
    if mode == "none":
        w.uni = None
    else:
        w.uni = rng.choice([Universe, SubUniverse])()
        if mode == "all":
            members = list(w.verts)
        elif mode == "part":
            members = [v for v in w.verts if v is w.start or rng.random() < 0.65]
        elif mode == "nostart":
            members = [v for v in w.verts if not (v is w.start or v == w.start)]
        else:
            members = []
        rng.shuffle(members)
        for m in members:
            w.uni.add_vertex(m)
    w.mode = mode
    return w


def w_add_link(w, rng, allow_none=True, allow_odd=True):
    a = rng.choice(w.verts)
    b = rng.choice(w.verts + [a])
    r = rng.random()
    if r < 0.4:
        e = DirectedEdge(a, b)
    elif r < 0.5:
        e = SubDirected(b, a)
        e.note = "n"
    elif r < 0.78:
        e = UnDirectedEdge(a, b)
    elif r < 0.86:
        e = OddLink(a, b) if allow_odd else DirectedEdge(a, b)
    elif r < 0.92:
        if allow_none:
            which = rng.randint(0, 2)
            e = DirectedEdge(a, None) if which == 0 else (DirectedEdge(None, a) if which == 1 else UnDirectedEdge(a, None))
        else:
            e = UnDirectedEdge(b, a)
    else:
        e = DirectedEdge(a, b)
        if allow_odd:
            rng.choice(w.verts).add_to_link(e)  # third vertex on a two-ended link
    e["lbl"] = "e%d" % len(w.links)
    e["w"] = rng.random()
    e["queue"] = None
    w.links.append(e)
    return e


def w_mutate(w, rng):
    """One random change, addressed by position so that twins stay twins."""
    r = rng.random()
    if r < 0.35:
        w_add_link(w, rng)
    elif r < 0.55 and w.links:
        e = rng.choice(w.links)
        v = rng.choice(w.verts)
        e.unlink_from(v)
    elif r < 0.8 and w.uni is not None:
        v = rng.choice(w.verts)
        if any(v is m for m in w.uni.vertices):
            w.uni.remove_vertex(v)
        elif v not in w.uni.vertices:
            w.uni.add_vertex(v)
    elif w.links:
        e = rng.choice(w.links)
        if len(e.vertices) >= 2:
            if rng.random() < 0.5:
                e.v1 = rng.choice(w.verts)
            else:
                e.v2 = rng.choice(w.verts)


class Recorder:
    """Deterministic callback that records how it was called."""

    def __init__(self, kind, seed, raise_at=None, exotic=False, falsy=False):
        self.kind = kind
        self.seed = seed
        self.calls = []
        self.raise_at = raise_at
        self.exotic = exotic
        self.falsy = falsy

    def __bool__(self):
        return not self.falsy

    def __call__(self, *args):
        self.calls.append(tuple(lab(a) for a in args))
        if self.raise_at is not None and len(self.calls) == self.raise_at:
            raise Stop(self.kind)
        h = random.Random("%s|%s|%s" % (self.seed, self.kind, self.calls[-1])).random()
        verdict = h < 0.75
        if not self.exotic:
            return verdict
        # arbitrary objects whose truth value is the verdict
        pick = int(h * 1000) % 4
        if verdict:
            return [True, "yes", float("nan"), [0]][pick]
        return [False, "", 0.0, None][pick]


def sig(exc):
    return None if exc is None else type(exc).__name__


def run_list(func, *a, **k):
    try:
        return func(*a, **k), None
    except BaseException as exc:  # pylint: disable=broad-except
        return None, exc


def drain(gen):
    out = []
    try:
        for x in gen:
            out.append(x)
    except BaseException as exc:  # pylint: disable=broad-except
        return out, exc
    return out, None


###############################################################################
# part A: scripted corner cases


def part_a():
    # --- empty universe, start outside of the universe; laziness ------------
    empty = Universe()
    lone = Vertex(attributes={"lbl": "lone"})
    check(breadthfirst.bft(empty, lone) == [], "bft on empty universe is []")
    check(list(breadthfirst.ibft(empty, lone)) == [], "ibft on empty universe is empty")
    for name in ("dftr", "dfti"):
        out, exc = run_list(LIST_FUNCS[name], empty, lone)
        check(isinstance(exc, ValueError), name + " on empty universe: ValueError")
        gen = GEN_FUNCS[name](empty, lone)  # must not raise yet
        out, exc = drain(gen)
        check(out == [] and isinstance(exc, ValueError), name + " gen on empty universe: ValueError on next")
        out, exc = drain(gen)
        check(out == [] and exc is None, name + " gen is finished after raising")

    uni = Universe()
    a, b, c = (Vertex(attributes={"lbl": x}) for x in "abc")
    uni.add_vertex(a)
    uni.add_vertex(b)
    DirectedEdge(a, b)
    DirectedEdge(b, c)
    for name in LIST_FUNCS:
        out, exc = run_list(LIST_FUNCS[name], uni, c)
        check(isinstance(exc, ValueError), name + ": start outside of universe: ValueError")
        gen = GEN_FUNCS[name](uni, c)
        check(inspect.isgenerator(gen), name + ": generator form gives a generator")
        check(inspect.isgeneratorfunction(GEN_FUNCS[name]), name + ": generator function")
        # the check is made when the generator is first advanced: join first
        uni.add_vertex(c)
        out, exc = drain(gen)
        check(exc is None and [lab(x) for x in out] == ["c"], name + ": checks are made lazily")
        uni.remove_vertex(c)
        check([lab(x) for x in LIST_FUNCS[name](uni, a)] == ["a", "b"], name + ": stays inside the universe")
        check([lab(x) for x in LIST_FUNCS[name](None, a)] == ["a", "b", "c"], name + ": no universe, no bound")
        check(LIST_FUNCS[name](None, a)[0] is a, name + ": identity of the elements")
        check(type(LIST_FUNCS[name](None, a)) is list, name + ": list form gives a list")

    # wrong arguments are refused at call time, also by the generator forms
    for name in LIST_FUNCS:
        for f in (LIST_FUNCS[name], GEN_FUNCS[name]):
            for bad in (lambda f=f: f(None), lambda f=f: f(None, a, 0), lambda f=f: f(None, a, nope=1)):
                try:
                    bad()
                    check(False, name + ": bad call accepted")
                except TypeError:
                    check(True, "")

    # --- self loops, parallel links, cycles ---------------------------------
    p, q, r = (Vertex(attributes={"lbl": x}) for x in "pqr")
    UnDirectedEdge(p, p)
    DirectedEdge(p, p)
    DirectedEdge(p, q)
    DirectedEdge(p, q)
    UnDirectedEdge(q, p)
    DirectedEdge(q, r)
    DirectedEdge(r, p)
    for name in LIST_FUNCS:
        for ds in (FWD, ANY, BWD):
            out = LIST_FUNCS[name](None, p, direction_sensitive=ds)
            check(sorted(lab(x) for x in out) == ["p", "q", "r"], "%s: loops / parallel links (%s)" % (name, ds))
    check([lab(x) for x in breadthfirst.bft(None, p)] == ["p", "q", "r"], "bft order")
    check([lab(x) for x in breadthfirst.bft(None, p, direction_sensitive=BWD)] == ["p", "q", "r"], "bft order backwards")
    check([lab(x) for x in depthfirst.dft_iterative(None, q, direction_sensitive=ANY)] == ["q", "r", "p"], "dfti order")
    check([lab(x) for x in depthfirst.dft_recursive(None, q, direction_sensitive=ANY)] == ["q", "p", "r"], "dftr order")

    # --- the textbook pictures of the module docstrings ----------------------
    vs = [Vertex(attributes={"lbl": i}) for i in range(13)]
    for x, y in [(1, 2), (1, 3), (1, 4), (2, 5), (2, 6), (4, 7), (4, 8), (5, 9), (5, 10), (7, 11), (7, 12)]:
        UnDirectedEdge(vs[x], vs[y])
    check([lab(x) for x in breadthfirst.bft(None, vs[1])] == list(range(1, 13)), "bft docstring order")
    vs = [Vertex(attributes={"lbl": i}) for i in range(13)]
    for x, y in [(1, 2), (2, 3), (3, 4), (3, 5), (2, 6), (1, 7), (1, 8), (8, 9), (9, 10), (9, 11), (8, 12)]:
        UnDirectedEdge(vs[x], vs[y])
    check([lab(x) for x in depthfirst.dft_recursive(None, vs[1])] == list(range(1, 13)), "dft docstring order")
    check(
        [lab(x) for x in depthfirst.dft_iterative(None, vs[1])] == [1, 8, 12, 9, 11, 10, 7, 2, 6, 3, 5, 4],
        "dfti docstring graph order",
    )

    # --- unknown link classes and bad options --------------------------------
    s, t, u = (Vertex(attributes={"lbl": x}) for x in "stu")
    OddLink(s, t)
    DirectedEdge(t, u)
    for name in LIST_FUNCS:
        out, exc = run_list(LIST_FUNCS[name], None, s)
        check(isinstance(exc, NotImplementedError), name + ": unknown class is an error by default")
        out, exc = drain(GEN_FUNCS[name](None, s))
        check([lab(x) for x in out] == ["s"] and isinstance(exc, NotImplementedError), name + ": start comes out before the error")
        check([lab(x) for x in LIST_FUNCS[name](None, s, unknown_handling=U_NON)] == ["s"], name + ": unknown as non-neighbor")
        check([lab(x) for x in LIST_FUNCS[name](None, s, unknown_handling=U_NB)] == ["s", "t", "u"], name + ": unknown as neighbor")
        check([lab(x) for x in LIST_FUNCS[name](None, s, direction_sensitive=ANY)] == ["s", "t", "u"], name + ": ANY follows everything")
        out, exc = run_list(LIST_FUNCS[name], None, s, direction_sensitive=3)
        check(isinstance(exc, ValueError), name + ": bad direction is refused once a link is looked at")
        island = Vertex(attributes={"lbl": "island"})
        check(LIST_FUNCS[name](None, island, direction_sensitive=3) == [island], name + ": ... but not before")
        check([lab(x) for x in LIST_FUNCS[name](None, u, direction_sensitive=True)] == ["u", "t", "s"], name + ": True is DIR_SENS_ANY")
        check([lab(x) for x in LIST_FUNCS[name](None, u, direction_sensitive=2.0, unknown_handling=U_NON)] == ["u", "t"], name + ": 2.0 is DIR_SENS_BACKWARD")

    # a directed edge that lists a third vertex is "unknown" from that vertex
    x1, x2, x3 = (Vertex(attributes={"lbl": x}) for x in ("x1", "x2", "x3"))
    e = DirectedEdge(x1, x2)
    x3.add_to_link(e)
    for name in LIST_FUNCS:
        out, exc = run_list(LIST_FUNCS[name], None, x3)
        check(isinstance(exc, NotImplementedError), name + ": third vertex of a directed edge")
        check(LIST_FUNCS[name](None, x3, unknown_handling=U_NON) == [x3], name + ": third vertex, non-neighbor")
    # base-class links have no "other end"
    y1, y2 = Vertex(attributes={"lbl": "y1"}), Vertex(attributes={"lbl": "y2"})
    Link(vertices=[y1, y2], _force_creation=True)
    for name in LIST_FUNCS:
        out, exc = drain(GEN_FUNCS[name](None, y1, direction_sensitive=ANY))
        check(out == [y1] and isinstance(exc, AttributeError), name + ": bare Link object")

    # --- dangling links (None at one end) ------------------------------------
    d1, d2 = Vertex(attributes={"lbl": "d1"}), Vertex(attributes={"lbl": "d2"})
    DirectedEdge(d1, None)
    DirectedEdge(d1, d2)
    du = Universe(vertices=[d1, d2])
    for name in LIST_FUNCS:
        check([lab(x) for x in LIST_FUNCS[name](du, d1)] == ["d1", "d2"], name + ": None is never in a universe")
        out, exc = drain(GEN_FUNCS[name](None, d1))
        check(isinstance(exc, AttributeError) and None in out and out[0] is d1, name + ": None without universe")

    # --- ff_result / ff_via ---------------------------------------------------
    g = [Vertex(attributes={"lbl": i}) for i in range(6)]
    for x, y in [(0, 1), (0, 2), (1, 3), (2, 3), (3, 4), (4, 0), (2, 5)]:
        DirectedEdge(g[x], g[y])
    for name in LIST_FUNCS:
        full = LIST_FUNCS[name](None, g[0])
        check(sorted(lab(x) for x in full) == [0, 1, 2, 3, 4, 5], name + ": full listing")
        seen = []

        def res(v, seen=seen):
            seen.append(v)
            return v.lbl % 2 == 0

        part = LIST_FUNCS[name](None, g[0], ff_result=res)
        check(part == [v for v in full if v.lbl % 2 == 0], name + ": ff_result only removes entries")
        check(seen == full, name + ": ff_result is asked once per reached vertex, in visiting order")
        # arbitrary return values: NaN and [0] are true, "" / 0.0 / None are not
        vals = {0: float("nan"), 1: "", 2: [0], 3: 0.0, 4: None, 5: "x"}
        part = LIST_FUNCS[name](None, g[0], ff_result=lambda v: vals[v.lbl])
        check(part == [v for v in full if v.lbl in (0, 2, 5)], name + ": truthiness of ff_result values")
        # a callable that is itself false counts as "not given"
        fr = Recorder("res", 1, falsy=True)
        check(LIST_FUNCS[name](None, g[0], ff_result=fr) == full and fr.calls == [], name + ": falsy ff_result is ignored")
        # ff_via prunes whole areas
        vias = []

        def via(e, v2, vias=vias):
            vias.append((e, v2))
            return v2.lbl != 3

        pruned = LIST_FUNCS[name](None, g[0], ff_via=via)
        check(sorted(lab(x) for x in pruned) == [0, 1, 2, 5], name + ": ff_via prunes")
        check(all(isinstance(e, DirectedEdge) and e.v2 is v2 for e, v2 in vias), name + ": ff_via arguments")
        check(len(vias) == sum(len([l for l in v.links if l.v1 is v]) for v in pruned), name + ": ff_via asked once per link followed")
        # both at once, given as generator and as list
        ga, gb = drain(GEN_FUNCS[name](None, g[0], ff_via=via, ff_result=res))
        check(gb is None and ga == LIST_FUNCS[name](None, g[0], ff_via=via, ff_result=res), name + ": generator == list")

    # --- callbacks that raise (also non-Exception ones) -----------------------
    for name in LIST_FUNCS:
        full = LIST_FUNCS[name](None, g[0])
        for k in range(1, 7):
            rr = Recorder("res", 0, raise_at=k)
            gen = GEN_FUNCS[name](None, g[0], ff_result=rr)
            out, exc = drain(gen)
            check(isinstance(exc, Stop), name + ": exception of ff_result comes through")
            kept = [v for v in full[: k - 1] if (lab(v),) in rr.calls]
            check([lab(x) for x in full[:k]] == [c[0] for c in rr.calls], name + ": ff_result raise point")
            check(drain(gen) == ([], None), name + ": finished after the exception")
            check(LIST_FUNCS[name](None, g[0]) == full, name + ": graph unharmed by the exception")
        rv = Recorder("via", 0, raise_at=3)
        out, exc = drain(GEN_FUNCS[name](None, g[0], ff_via=rv))
        check(isinstance(exc, Stop) and len(rv.calls) == 3, name + ": exception of ff_via comes through")
        check(LIST_FUNCS[name](None, g[0]) == full, name + ": graph unharmed by the exception (via)")
        # KeyboardInterrupt thrown into a suspended generator
        gen = GEN_FUNCS[name](None, g[0])
        first = next(gen)
        try:
            gen.throw(KeyboardInterrupt())
            check(False, name + ": throw() swallowed")
        except KeyboardInterrupt:
            check(True, "")
        check(first is g[0] and drain(gen) == ([], None), name + ": finished after throw()")
        gen = GEN_FUNCS[name](None, g[0])
        next(gen)
        gen.close()
        check(drain(gen) == ([], None), name + ": finished after close()")
        gen = GEN_FUNCS[name](None, g[0])
        check(next(gen) is g[0] and gen.send("ignored") is full[1], name + ": send() is like next()")

    # --- vertices that cannot be hashed ---------------------------------------
    n1, n2, n3 = (NoHashVertex(attributes={"lbl": x}) for x in ("n1", "n2", "n3"))
    DirectedEdge(n1, n2)
    DirectedEdge(n2, n3)
    DirectedEdge(n3, n1)
    check([lab(x) for x in depthfirst.dft_iterative(None, n1)] == ["n1", "n2", "n3"], "dfti: unhashable vertices")
    nu = Universe(vertices=[n1, n2])
    check([lab(x) for x in depthfirst.dft_iterative(nu, n1)] == ["n1", "n2"], "dfti: unhashable vertices in universe")
    for name in ("bft", "dftr"):
        out, exc = drain(GEN_FUNCS[name](None, n1))
        check(out == [] and isinstance(exc, TypeError), name + ": unhashable vertices: TypeError before anything comes out")
        rr = Recorder("res", 0)
        out, exc = drain(GEN_FUNCS[name](None, n1, ff_result=rr))
        check(isinstance(exc, TypeError) and rr.calls == [], name + ": unhashable: ff_result not consulted")
        out, exc = drain(GEN_FUNCS[name](Universe(), n1))
        check((name == "bft" and exc is None) or isinstance(exc, ValueError), name + ": universe checks come first")

    # --- vertices that compare equal ------------------------------------------
    k1, k2, k3, k4 = (KeyVertex(attributes={"lbl": x}) for x in ("k1", "k2", "k3", "k4"))
    k1.key, k2.key, k3.key, k4.key = 1, 2, 1, 4
    DirectedEdge(k1, k2)
    DirectedEdge(k2, k3)  # k3 == k1: counts as visited
    DirectedEdge(k3, k4)
    for name in LIST_FUNCS:
        check([lab(x) for x in LIST_FUNCS[name](None, k1)] == ["k1", "k2"], name + ": equal vertices are one vertex")
    ku = Universe()
    ku.add_vertex(k3)
    ku.add_vertex(k2)
    for name in LIST_FUNCS:
        check([lab(x) for x in LIST_FUNCS[name](ku, k1)] == ["k1", "k2"], name + ": membership is by equality")

    # --- a universe is a vertex too --------------------------------------------
    m1 = Universe(attributes={"lbl": "m1"})
    m2 = Universe(attributes={"lbl": "m2"})
    inner = Vertex(attributes={"lbl": "inner"}, universes=[m1])
    DirectedEdge(m1, m2)
    DirectedEdge(m2, inner)
    for name in LIST_FUNCS:
        check([lab(x) for x in LIST_FUNCS[name](None, m1)] == ["m1", "m2", "inner"], name + ": universes as vertices")
        check([lab(x) for x in LIST_FUNCS[name](m1, inner)] == ["inner"], name + ": universe bound")
        check(isinstance(run_list(LIST_FUNCS[name], m1, m1)[1], ValueError), name + ": universe is not a member of itself")

    # --- long chains -------------------------------------------------------------
    chain = [Vertex(attributes={"lbl": i}) for i in range(3000)]
    for x, y in zip(chain, chain[1:]):
        DirectedEdge(x, y)
    check(breadthfirst.bft(None, chain[0]) == chain, "bft: chain of 3000")
    check(depthfirst.dft_iterative(None, chain[0]) == chain, "dfti: chain of 3000")
    check(depthfirst.dft_recursive(None, chain[2700]) == chain[2700:], "dftr: chain of 300")
    cu = Universe(vertices=chain[:50])
    for name in LIST_FUNCS:
        check(LIST_FUNCS[name](cu, chain[0]) == chain[:50], name + ": chain cut by the universe")
    # wide: many links on one vertex, many of them to the same neighbor
    hub = Vertex(attributes={"lbl": "hub"})
    rim = [Vertex(attributes={"lbl": i}) for i in range(40)]
    for rep in range(14):
        for x in rim:
            DirectedEdge(hub, x) if rep % 2 else UnDirectedEdge(x, hub)
    for name in LIST_FUNCS:
        out = LIST_FUNCS[name](None, hub)
        check(out[0] is hub and len(out) == 41 and len(set(map(id, out))) == 41, name + ": hub with 560 links")
    check(breadthfirst.bft(None, hub)[1:] == rim, "bft: hub order")
    check(depthfirst.dft_recursive(None, hub)[1:] == rim, "dftr: hub order")
    check(depthfirst.dft_iterative(None, hub)[1:] == rim[::-1], "dfti: hub order")


###############################################################################
# part B: seeded random differential test against the oracle


def settings(rng, simple):
    ds = rng.choice([FWD, FWD, ANY, BWD])
    uh = rng.choice([U_NON, U_NB, U_ERR])
    return ds, uh


def part_b(rounds=1500):
    for seed in range(rounds):
        rng = random.Random(seed * 7919 + 13)
        vkind = rng.choice(["plain"] * 6 + ["key"] * 3 + ["nohash"])
        Vertex.NEIGHBOR_CACHING = rng.random() < 0.5
        ds, uh = settings(rng, False)
        via_mode = rng.choice([None, "plain", "exotic", "raise"])
        res_mode = rng.choice([None, "plain", "exotic", "raise", "falsy"])

        def mk(kind, mode):
            if mode is None:
                return None
            return Recorder(
                kind,
                seed,
                raise_at=rng_raise if mode == "raise" else None,
                exotic=(mode == "exotic"),
                falsy=(mode == "falsy"),
            )

        rng_raise = rng.randint(1, 6)
        mutate_seed = rng.randint(0, 10**6)
        mutate_p = rng.choice([0.0, 0.0, 0.3])

        results = {}
        for name in ("bft", "dftr", "dfti"):
            lib = build(seed, vkind)
            twin = build(seed, vkind)
            lvia, lres = mk("via", via_mode), mk("res", res_mode)
            tvia, tres = mk("via", via_mode), mk("res", res_mode)
            kw = dict(direction_sensitive=ds, unknown_handling=uh, ff_via=lvia, ff_result=lres)
            tag = "seed %d %s" % (seed, name)

            state = random.getstate()

            # -- generator form, in lock step with the reference, with changes
            #    to both graphs in between
            gen = GEN_FUNCS[name](lib.uni, lib.start, **kw)
            ref = REFS[name](twin.uni, twin.start, ds, uh, tvia, tres)
            mrng_a, mrng_b = random.Random(mutate_seed), random.Random(mutate_seed)
            got, want = [], []
            while True:
                try:
                    x = next(gen)
                    ex = None
                except StopIteration:
                    x, ex = None, "stop"
                except BaseException as exc:  # pylint: disable=broad-except
                    x, ex = None, type(exc).__name__
                try:
                    y = next(ref)
                    ey = None
                except StopIteration:
                    y, ey = None, "stop"
                except BaseException as exc:  # pylint: disable=broad-except
                    y, ey = None, type(exc).__name__
                if ex == "TypeError" and vkind == "nohash" and name != "dfti":
                    # the reference hashes at the same place
                    pass
                check(ex == ey, "%s: ending %s, expected %s" % (tag, ex, ey))
                if ex is not None or ey is not None:
                    break
                got.append(lab(x))
                want.append(lab(y))
                check(x is None or any(x is v for v in lib.verts), tag + ": foreign object handed out")
                if got != want:
                    break
                if mutate_p and mrng_a.random() < mutate_p:
                    mrng_b.random()
                    try:
                        w_mutate(lib, mrng_a)
                        ea = None
                    except Exception as exc:  # pylint: disable=broad-except
                        ea = type(exc).__name__
                    try:
                        w_mutate(twin, mrng_b)
                        eb = None
                    except Exception as exc:  # pylint: disable=broad-except
                        eb = type(exc).__name__
                    check(ea == eb, tag + ": twins diverged while being changed")
                elif mutate_p:
                    mrng_b.random()
            check(got == want, "%s: listing %s, expected %s" % (tag, got, want))
            check(drain(gen) == ([], None), tag + ": generator not finished")
            for lcb, tcb, what in ((lvia, tvia, "ff_via"), (lres, tres, "ff_result")):
                if lcb is not None:
                    check(lcb.calls == tcb.calls, "%s: %s calls differ" % (tag, what))
            check(random.getstate() == state, tag + ": random module touched")

            # -- list form on a fresh copy: same as the generator form when
            #    nothing is changed on the way
            if not mutate_p:
                lib2 = build(seed, vkind)
                l2via, l2res = mk("via", via_mode), mk("res", res_mode)
                out, exc = run_list(
                    LIST_FUNCS[name], lib2.uni, lib2.start,
                    direction_sensitive=ds, unknown_handling=uh, ff_via=l2via, ff_result=l2res,
                )
                if exc is None:
                    check([lab(x) for x in out] == got and ex == "stop", tag + ": list form differs from generator form")
                    check(type(out) is list, tag + ": not a list")
                else:
                    check(type(exc).__name__ == ex, tag + ": list form ends differently")
                if l2via is not None:
                    check(l2via.calls == lvia.calls, tag + ": list form ff_via calls")
                if l2res is not None:
                    check(l2res.calls == lres.calls, tag + ": list form ff_result calls")

                # -- the property itself: set of reached vertices
                if ex == "stop" and vkind == "plain" and via_mode != "raise" and res_mode != "raise":
                    pure_via = mk("via", via_mode)
                    reach = o_reach(lib2.uni, lib2.start, ds, uh, pure_via, lib2.verts + [None])
                    if lib2.uni is not None and not lib2.uni.vertices:
                        # only bft gets here: it lists nothing at all
                        reach = set()
                    # without ff_result: exactly the reachable ones, once each
                    l3via = mk("via", via_mode)
                    plain, exc3 = run_list(
                        LIST_FUNCS[name], lib2.uni, lib2.start,
                        direction_sensitive=ds, unknown_handling=uh, ff_via=l3via,
                    )
                    check(exc3 is None, tag + ": second run raised")
                    if exc3 is None:
                        ids = [id(x) for x in plain]
                        check(len(ids) == len(set(ids)), tag + ": repetition in listing")
                        check(set(ids) == reach, tag + ": reached set is not the reachable set")
                        check(not plain or plain[0] is lib2.start, tag + ": does not begin with start")
                        # ff_result only removes entries
                        if lres is not None and not lres.falsy:
                            keepers = {c[0] for c in lres.calls}
                            check(keepers == {lab(x) for x in plain}, tag + ": ff_result not asked about everything reached")
                            check(
                                [l for l in got if l is not None] == [lab(x) for x in plain if lab(x) in got and x is not None],
                                tag + ": ff_result changed the order",
                            )
                        elif lres is None or lres.falsy:
                            check([lab(x) for x in plain] == got, tag + ": listing not reproducible")
                        results[name] = {lab(x) for x in plain}
        if len(results) == 3:
            check(results["bft"] == results["dftr"] == results["dfti"], "seed %d: traversals disagree as sets" % seed)
    Vertex.NEIGHBOR_CACHING = False


###############################################################################
# part C: copies, threads, caching, attribute names


def labels(func, w, **kw):
    out, exc = run_list(func, w.uni, w.start, **kw)
    return ([lab(x) for x in out] if out is not None else None), sig(exc)


def stats():
    txt = Vertex.total_cache_stats()
    nums = {}
    for line in txt.splitlines():
        if ":" in line:
            k, v = line.split(":")
            nums[k.strip()] = int(v)
    return nums


def part_c():
    from edgegraph.output import nrpickler

    for seed in range(120):
        rng = random.Random(seed)
        cache = bool(seed % 2)
        Vertex.NEIGHBOR_CACHING = cache
        ds, uh = rng.choice([FWD, ANY, BWD]), rng.choice([U_NON, U_NB])
        kw = dict(direction_sensitive=ds, unknown_handling=uh)
        orig = build(seed, "plain", allow_none=False, nmax=8)
        twin = build(seed, "plain", allow_none=False, nmax=8)
        before_names = [sorted(k for k in vars(v) if not k.startswith("_")) for v in orig.verts if not isinstance(v, SlotVertex)]
        before_link_names = [sorted(k for k in vars(e) if not k.startswith("_")) for e in orig.links if not isinstance(e, SubDirected)]
        base = {n: labels(LIST_FUNCS[n], orig, **kw) for n in LIST_FUNCS}
        for n in LIST_FUNCS:
            ref, exc = drain(REFS[n](twin.uni, twin.start, ds, uh, None, None))
            check(base[n] == ([lab(x) for x in ref] if exc is None else None, sig(exc)), "C seed %d %s: baseline" % (seed, n))

        # copies of the whole world (graph, universe, start) ...
        how = seed % 3
        if how == 0:
            dup = copy.deepcopy(orig)
        elif how == 1:
            dup = pickle.loads(pickle.dumps(orig))
        else:
            dup = pickle.loads(nrpickler.dumps(orig))
        check(dup.start is not orig.start, "C: copy is a copy")
        for n in LIST_FUNCS:
            check(labels(LIST_FUNCS[n], dup, **kw) == base[n], "C seed %d %s: copy traverses like the original" % (seed, n))
            out, exc = run_list(LIST_FUNCS[n], dup.uni, dup.start, **kw)
            if out:
                check(all(any(x is v for v in dup.verts) for x in out), "C: copy hands out its own vertices")
        # ... that are then changed, in step with the twin
        ma, mb = random.Random(seed + 1000), random.Random(seed + 1000)
        for step in range(6):
            try:
                w_mutate(dup, ma)
            except Exception:  # pylint: disable=broad-except
                pass
            try:
                w_mutate(twin, mb)
            except Exception:  # pylint: disable=broad-except
                pass
            for n in LIST_FUNCS:
                ref, exc = drain(REFS[n](twin.uni, twin.start, ds, uh, None, None))
                want = ([lab(x) for x in ref] if exc is None else None, sig(exc))
                check(labels(LIST_FUNCS[n], dup, **kw) == want, "C seed %d %s: changed copy, step %d" % (seed, n, step))
        # the original did not notice
        for n in LIST_FUNCS:
            check(labels(LIST_FUNCS[n], orig, **kw) == base[n], "C seed %d %s: original changed with the copy" % (seed, n))
        after_names = [sorted(k for k in vars(v) if not k.startswith("_")) for v in orig.verts if not isinstance(v, SlotVertex)]
        after_link_names = [sorted(k for k in vars(e) if not k.startswith("_")) for e in orig.links if not isinstance(e, SubDirected)]
        check(before_names == after_names and before_link_names == after_link_names, "C: traversals left attributes behind")
        check(all(v["visited"] is False and v["stack"] == "mine" for v in orig.verts), "C: user attributes touched")

        # caching on or off makes no difference; toggling in between neither
        Vertex.NEIGHBOR_CACHING = not cache
        for n in LIST_FUNCS:
            check(labels(LIST_FUNCS[n], orig, **kw) == base[n], "C seed %d %s: caching toggled" % (seed, n))
        Vertex.NEIGHBOR_CACHING = cache

        # worker threads, several at once, list and generator forms
        box = {}

        def work(n, k):
            try:
                if k % 2:
                    box[(n, k)] = labels(LIST_FUNCS[n], orig, **kw)
                else:
                    out, exc = drain(GEN_FUNCS[n](orig.uni, orig.start, **kw))
                    box[(n, k)] = ([lab(x) for x in out] if exc is None else None, sig(exc))
            except BaseException as exc:  # pylint: disable=broad-except
                box[(n, k)] = exc

        threads = [threading.Thread(target=work, args=(n, k)) for n in LIST_FUNCS for k in range(3)]
        for t in threads:
            t.start()
        for t in threads:
            t.join()
        for (n, k), val in box.items():
            check(val == base[n], "C seed %d %s: worker thread result" % (seed, n))
        # generator made in one thread, consumed in another, long after
        if base["bft"][1] is None:
            made = {}
            t = threading.Thread(target=lambda: made.update({n: GEN_FUNCS[n](orig.uni, orig.start, **kw) for n in GEN_FUNCS}))
            t.start()
            t.join()
            gc.collect()
            for n in GEN_FUNCS:
                out, exc = drain(made[n])
                check(([lab(x) for x in out] if exc is None else None, sig(exc)) == base[n], "C: generator from another thread")

    # cache statistics: every reached vertex is expanded exactly once
    Vertex.NEIGHBOR_CACHING = True
    for seed in range(60):
        w = build(seed + 5000, "plain", allow_none=False, allow_odd=False)
        for n in LIST_FUNCS:
            s0 = stats()
            out, exc = run_list(LIST_FUNCS[n], w.uni, w.start, direction_sensitive=ANY)
            s1 = stats()
            if exc is None:
                asked = (s1["Hits"] + s1["Misses"]) - (s0["Hits"] + s0["Misses"])
                check(asked == len(out), "C: %s asked neighbors() %d times for %d vertices" % (n, asked, len(out)))
                check(s1["Invalidations"] == s0["Invalidations"], "C: traversal invalidated a cache")
                # second time round everything is a hit
                s2 = stats()
                again = LIST_FUNCS[n](w.uni, w.start, direction_sensitive=ANY)
                s3 = stats()
                check(again == out and s3["Misses"] == s2["Misses"], "C: %s second run not served from the cache" % n)
    Vertex.NEIGHBOR_CACHING = False

    # nothing keeps the vertices alive once a traversal is over
    v = Vertex()
    ref = weakref.ref(v)
    for n in LIST_FUNCS:
        LIST_FUNCS[n](None, v)
        g = GEN_FUNCS[n](None, v)
        next(g)
        del g
    was = gc.isenabled()
    gc.disable()
    try:
        del v
        check(ref() is None, "C: a finished traversal keeps its vertices alive")
    finally:
        if was:
            gc.enable()


###############################################################################
# part D: neighbors() itself, which every traversal leans on


def part_d(rounds=150):
    for seed in range(rounds):
        Vertex.NEIGHBOR_CACHING = bool(seed % 2)
        lib = build(seed + 9000, "plain", nmax=7)
        twin = build(seed + 9000, "plain", nmax=7)
        for v, tv in zip(lib.verts, twin.verts):
            for ds in (FWD, ANY, BWD, 3, True, 0.0):
                for uh in (U_NON, U_NB, U_ERR, 7):
                    for mode in (None, "plain", "exotic", "raise"):
                        tag = "D seed %d %s ds=%r uh=%r %s" % (seed, lab(v), ds, uh, mode)
                        lcb = None if mode is None else Recorder("via", seed, raise_at=2 if mode == "raise" else None, exotic=mode == "exotic")
                        tcb = None if mode is None else Recorder("via", seed, raise_at=2 if mode == "raise" else None, exotic=mode == "exotic")
                        got, gexc = run_list(helpers.neighbors, v, ds, uh, lcb)
                        want, wexc = run_list(o_neighbors, tv, ds, uh, tcb)
                        check(sig(gexc) == sig(wexc), "%s: raised %s, expected %s" % (tag, sig(gexc), sig(wexc)))
                        if lcb is not None:
                            check(lcb.calls == tcb.calls, tag + ": filterfunc calls differ")
                        if gexc is None and wexc is None and mode != "raise":
                            check(type(got) is list and [lab(x) for x in got] == [lab(x) for x in want], tag + ": neighbors differ")
                            check(all(x is None or any(x is m for m in lib.verts) for x in got), tag + ": foreign neighbor")
                            # asked again (from the cache, if that is on): the same
                            # answer in a list of its own
                            again = helpers.neighbors(v, direction_sensitive=ds, unknown_handling=uh, filterfunc=lcb)
                            check(again == got and again is not got, tag + ": second answer differs / is shared")
                            got.append("scribble")
                            third = helpers.neighbors(v, ds, uh, lcb)
                            check(third == again, tag + ": caller's changes leaked into later answers")
    Vertex.NEIGHBOR_CACHING = False


def main():
    old_limit = sys.getrecursionlimit()
    part_a()
    part_b()
    part_c()
    part_d()
    check(sys.getrecursionlimit() == old_limit, "recursion limit changed")
    print("%d checks, %d failures" % (CHECKS[0], len(FAILS)))
    return 1 if FAILS else 0


if __name__ == "__main__":
    sys.exit(main())
