#!/usr/bin/env python3
# -*- coding: utf-8 -*-
"""
Equivalence / conformance check for property C11:

    "Adjacency builders build exactly the described graph; bad input rejected
    whole"

Exercises edgegraph.builder.adjlist.load_adj_dict,
edgegraph.builder.adjmatrix.load_adj_matrix and
edgegraph.builder.explicit.link_from_to (+ the link_directed / link_undirected
wrappers) through the public API only.

Two oracles are used:

* an abstract *model* (pure python, indices only) that is driven by a
  simulation of what the property statement / docstrings prescribe, step by
  step.  It predicts the complete observable state (``Universe.vertices``,
  ``Vertex.links``, ``Vertex.universes``, link ends and types, neighbors(),
  find_links()) after complete *and* interrupted runs, as well as the exact
  sequence of calls made into user-supplied objects (vertex subclasses, link
  classes, containers, cells);
* a second, much more naive oracle working directly from the raw input
  (first-mention order, counting listed pairs / truthy cells, symmetric closure
  for undirected types).

Exit status 0 iff everything matches.  Run as

    PYTHONPATH=<worktree> python equiv.py
"""

import collections
import pickle
import random
import sys
import traceback

from edgegraph.structure import (
    Vertex,
    Universe,
    Link,
    DirectedEdge,
    UnDirectedEdge,
    TwoEndedLink,
)
from edgegraph.builder import adjlist, adjmatrix, explicit
from edgegraph.traversal import helpers

###############################################################################
# plumbing


class Boom(Exception):
    """Raised by instrumented user objects (fault injection)."""


class ModelBoom(Exception):
    """Raised by the simulation at the point where Boom is expected."""


class Mismatch(AssertionError):
    """Observed behaviour differs from the oracle."""


def check(cond, *msg):
    if not cond:
        raise Mismatch(" ".join(str(m) for m in msg))


def same(real, expected):
    """Element-wise identity of two sequences."""
    real = list(real)
    expected = list(expected)
    return len(real) == len(expected) and all(
        a is b for a, b in zip(real, expected)
    )


LOG = []
CREATED = []


class Fault:
    kind = None
    countdown = 0
    when = "pre"


def arm(fault):
    if fault is None:
        Fault.kind = None
        Fault.countdown = 0
        Fault.when = "pre"
    else:
        Fault.kind, Fault.countdown, Fault.when = fault


def tick(kind):
    if Fault.kind == kind:
        Fault.countdown -= 1
        return Fault.countdown == 0
    return False


def tagof(obj):
    if isinstance(obj, Vertex):
        return getattr(obj, "tag", "?")
    return obj


###############################################################################
# instrumented user classes


class _JoinLogger:
    def add_to_universe(self, universe):
        LOG.append(("join", self.tag))
        hit = tick("join")
        if hit and Fault.when == "pre":
            raise Boom("join")
        super().add_to_universe(universe)
        if hit:
            raise Boom("join")


class LVertex(_JoinLogger, Vertex):
    pass


class LUniverse(_JoinLogger, Universe):
    pass


class _LinkLogger:
    def __init__(self, v1=None, v2=None, **kwargs):
        LOG.append(("link", type(self).__name__, tagof(v1), tagof(v2)))
        hit = tick("link")
        if hit and Fault.when == "pre":
            raise Boom("link")
        super().__init__(v1, v2, **kwargs)
        CREATED.append(self)
        if hit:
            raise Boom("link")


class LDi(_LinkLogger, DirectedEdge):
    pass


class LUn(_LinkLogger, UnDirectedEdge):
    pass


class LTwo(_LinkLogger, TwoEndedLink):
    pass


LOGGING_KINDS = (LDi, LUn, LTwo)
PLAIN_KINDS = (DirectedEdge, UnDirectedEdge, TwoEndedLink)
ALL_KINDS = LOGGING_KINDS + PLAIN_KINDS


class HyperLink(Link):
    """A legal Link subclass that is not two-ended (has no .other())."""


class LMatrix(list):
    def __len__(self):
        LOG.append(("mlen",))
        return super().__len__()

    def __iter__(self):
        LOG.append(("miter",))
        return super().__iter__()


class LRow(list):
    idx = None

    def __len__(self):
        LOG.append(("rlen", self.idx))
        return super().__len__()

    def __iter__(self):
        LOG.append(("riter", self.idx))
        return super().__iter__()


class LSide(list):
    def __len__(self):
        LOG.append(("slen",))
        return super().__len__()

    def __iter__(self):
        LOG.append(("siter",))
        return super().__iter__()

    def __getitem__(self, idx):
        LOG.append(("sget", idx))
        return super().__getitem__(idx)


class Cell:
    def __init__(self, truth, i, j):
        self.truth = truth
        self.i = i
        self.j = j

    def __bool__(self):
        LOG.append(("bool", self.i, self.j))
        return self.truth


class LenCell:
    """Truthiness through __len__ only."""

    def __init__(self, n):
        self.n = n

    def __len__(self):
        return self.n


class LDict(dict):
    def items(self):
        LOG.append(("items",))
        return super().items()


class CountingBool:
    def __init__(self, truth):
        self.truth = truth
        self.calls = 0

    def __bool__(self):
        self.calls += 1
        return self.truth


FALSY = [0, False, None, "", 0.0, [], (), LenCell(0)]
TRUTHY = [1, True, "x", 2.5, [0], -1, object(), LenCell(3)]

###############################################################################
# the abstract model


class Model:
    def __init__(self, n):
        self.n = n
        self.links = [[] for _ in range(n)]  # per vertex: link ids, in order
        self.unis = [[] for _ in range(n)]  # per vertex: universe keys
        self.members = collections.OrderedDict()  # universe key -> [vertex]
        self.edges = collections.OrderedDict()  # link id -> (kind, src, dst)

    def link(self, kind, src, dst):
        lid = len(self.edges)
        self.edges[lid] = (kind, src, dst)
        self.links[src].append(lid)
        if dst != src:
            self.links[dst].append(lid)
        return lid

    def join(self, vert, ukey):
        if ukey not in self.unis[vert]:
            self.unis[vert].append(ukey)
        mem = self.members.setdefault(ukey, [])
        if vert not in mem:
            mem.append(vert)

    def other(self, lid, vert):
        _, src, dst = self.edges[lid]
        return dst if vert == src else src

    def first_between(self, a, b):
        for lid in self.links[a]:
            if self.other(lid, a) == b:
                return lid
        return None

    def neighbors(self, vert, sens):
        out = []
        for lid in self.links[vert]:
            kind, src, dst = self.edges[lid]
            oth = self.other(lid, vert)
            if sens == helpers.DIR_SENS_ANY:
                out.append(oth)
            elif issubclass(kind, UnDirectedEdge):
                out.append(oth)
            elif issubclass(kind, DirectedEdge):
                if sens == helpers.DIR_SENS_FORWARD and src == vert:
                    out.append(oth)
                elif sens == helpers.DIR_SENS_BACKWARD and dst == vert:
                    out.append(oth)
            else:
                out.append(oth)  # LNK_UNKNOWN_NEIGHBOR is used throughout
        return out

    def find_links(self, a, b, sensitive):
        out = set()
        for lid in self.links[a]:
            kind, src, _ = self.edges[lid]
            if self.other(lid, a) != b:
                continue
            if not sensitive:
                out.add(lid)
            elif issubclass(kind, UnDirectedEdge):
                out.add(lid)
            elif issubclass(kind, DirectedEdge):
                if src == a:
                    out.add(lid)
            else:
                out.add(lid)
        return out


class World:
    """Real objects + the model that mirrors them."""

    def __init__(self, rng, n, plain_ok=True, nested=True):
        self.V = []
        self.loggable = []
        self.model = Model(n)
        self.real = {}
        self.U = {}
        for i in range(n):
            roll = rng.random()
            if roll < 0.55 or not plain_ok:
                vert = LVertex(attributes={"tag": i})
                loggable = True
            elif roll < 0.70:
                vert = LUniverse(attributes={"tag": i})
                loggable = True
            elif roll < 0.80:
                vert = Universe(attributes={"tag": i})
                loggable = False
            else:
                vert = Vertex(attributes={"tag": i})
                loggable = False
            self.V.append(vert)
            self.loggable.append(loggable)

    def add_pre_universe(self, key, members):
        uni = Universe()
        self.U[key] = uni
        self.model.members[key] = []
        for i in members:
            uni.add_vertex(self.V[i])
            self.model.join(i, key)

    def nest(self, host, members):
        """V[host] is a Universe itself; make some vertices live in it."""
        key = ("vert", host)
        self.U[key] = self.V[host]
        self.model.members.setdefault(key, [])
        for i in members:
            self.V[i].add_to_universe(self.V[host])
            self.model.join(i, key)

    def add_pre_link(self, kind, src, dst):
        lid = self.model.link(kind, src, dst)
        self.real[lid] = kind(self.V[src], self.V[dst])
        return lid

    def populate(self, rng):
        n = len(self.V)
        if n == 0:
            return
        for k in range(rng.choice([0, 0, 1, 2])):
            members = [i for i in range(n) if rng.random() < 0.5]
            rng.shuffle(members)
            self.add_pre_universe(("pre", k), members)
        for host in range(n):
            if isinstance(self.V[host], Universe) and rng.random() < 0.5:
                members = [i for i in range(n) if rng.random() < 0.4]
                self.nest(host, members)
        for _ in range(rng.choice([0, 0, 1, 2, 4])):
            self.add_pre_link(
                rng.choice(PLAIN_KINDS), rng.randrange(n), rng.randrange(n)
            )

    # ---------------------------------------------------------------- checks

    def resolve(self, new_lids, result):
        """
        Find the real objects behind what the model says was created.

        Links are located through the position they must have in the link
        tuple of their origin vertex.
        """
        m = self.model
        if "new" in m.members and m.members["new"]:
            first = self.V[m.members["new"][0]]
            check(len(first.universes) > 0, "nobody joined the new universe")
            candidate = first.universes[-1]
            if result is not None:
                check(result is candidate, "returned universe is not the one")
            self.U["new"] = candidate
        elif result is not None:
            self.U["new"] = result
            m.members.setdefault("new", [])
        elif "new" in m.members:
            del m.members["new"]
        for lid in new_lids:
            _, src, _ = m.edges[lid]
            pos = m.links[src].index(lid)
            links = self.V[src].links
            check(pos < len(links), "link", lid, "missing on its origin")
            self.real[lid] = links[pos]

    def verify(self, ctx=""):
        m = self.model
        objs = [self.real[lid] for lid in m.edges]
        check(len({id(o) for o in objs}) == len(objs), ctx, "links not distinct")
        for lid, (kind, src, dst) in m.edges.items():
            obj = self.real[lid]
            check(type(obj) is kind, ctx, "link", lid, "type", type(obj), kind)
            ends = (self.V[src], self.V[dst])
            check(type(obj.vertices) is tuple, ctx, "Link.vertices type")
            check(same(obj.vertices, ends), ctx, "link", lid, "ends")
            check(obj.v1 is ends[0] and obj.v2 is ends[1], ctx, "v1/v2", lid)
            check(obj.universes == [], ctx, "link joined a universe")
        for i, vert in enumerate(self.V):
            check(type(vert.links) is tuple, ctx, "Vertex.links type")
            check(
                same(vert.links, [self.real[lid] for lid in m.links[i]]),
                ctx,
                f"links of vertex {i}:",
                [tagof(l.v1) for l in vert.links],
                [tagof(l.v2) for l in vert.links],
                "model",
                [m.edges[lid] for lid in m.links[i]],
            )
            check(
                same(vert.universes, [self.U[u] for u in m.unis[i]]),
                ctx,
                f"universes of vertex {i}",
                len(vert.universes),
                m.unis[i],
            )
        for ukey, mem in m.members.items():
            uni = self.U[ukey]
            check(type(uni.vertices) is list, ctx, "Universe.vertices type")
            check(
                same(uni.vertices, [self.V[i] for i in mem]),
                ctx,
                f"members of universe {ukey}:",
                [tagof(v) for v in uni.vertices],
                "model",
                mem,
            )
            check(uni.laws is not None and uni.laws.applies_to is uni, "laws")
        unk = helpers.LNK_UNKNOWN_NEIGHBOR
        for i, vert in enumerate(self.V):
            for sens in (
                helpers.DIR_SENS_FORWARD,
                helpers.DIR_SENS_ANY,
                helpers.DIR_SENS_BACKWARD,
            ):
                expected = [self.V[j] for j in m.neighbors(i, sens)]
                for _ in range(2):  # second time possibly from the cache
                    got = helpers.neighbors(vert, sens, unk)
                    check(
                        same(got, expected),
                        ctx,
                        f"neighbors({i}, {sens})",
                        [tagof(v) for v in got],
                        [tagof(v) for v in expected],
                    )
            for j, wert in enumerate(self.V):
                for sensitive in (True, False):
                    got = helpers.find_links(vert, wert, sensitive, unk)
                    expected = {
                        id(self.real[lid])
                        for lid in m.find_links(i, j, sensitive)
                    }
                    check(
                        {id(l) for l in got} == expected,
                        ctx,
                        f"find_links({i}, {j}, {sensitive})",
                    )


class Sim:
    """Drives the model the way the property statement prescribes."""

    def __init__(self, world, fault=None):
        self.w = world
        self.m = world.model
        self.fault = fault
        self.count = {"join": 0, "link": 0}
        self.events = []
        self.new = []

    def _hit(self, kind):
        if self.fault is not None and self.fault[0] == kind:
            self.count[kind] += 1
            return self.count[kind] == self.fault[1]
        return False

    def emit(self, *event):
        self.events.append(tuple(event))

    def join(self, vert):
        hit = False
        if self.w.loggable[vert]:
            self.emit("join", vert)
            hit = self._hit("join")
            if hit and self.fault[2] == "pre":
                raise ModelBoom
        self.m.join(vert, "new")
        if hit:
            raise ModelBoom

    def link(self, kind, src, dst):
        hit = False
        if kind in LOGGING_KINDS:
            self.emit("link", kind.__name__, src, dst)
            hit = self._hit("link")
            if hit and self.fault[2] == "pre":
                raise ModelBoom
        self.new.append(self.m.link(kind, src, dst))
        if hit:
            raise ModelBoom

    def adj_dict(self, spec, kind):
        self.emit("items")
        for key, vals in spec:
            self.join(key)
            for pos, val in enumerate(vals):
                self.emit("gen", key, pos, len(self.m.links[key]))
                self.link(kind, key, val)
                self.join(val)
            self.emit("genend", key, len(self.m.links[key]))

    def adj_matrix(self, truth, side, kind):
        """truth: list of rows of bools (any shape); side: vertex indices."""
        self.emit("mlen")
        self.emit("slen")
        size = len(truth)
        if len(side) != size:
            raise ValueError
        self.emit("miter")
        for i, row in enumerate(truth):
            self.emit("rlen", i)
            if len(row) != size:
                self.emit("rlen", i)
                raise ValueError
        self.m.members.setdefault("new", [])
        self.emit("siter")
        for vert in side:
            self.join(vert)
        self.emit("miter")
        for i, row in enumerate(truth):
            self.emit("riter", i)
            for j, cell in enumerate(row):
                self.emit("bool", i, j)
                if cell:
                    self.emit("sget", i)
                    self.emit("sget", j)
                    self.link(kind, side[i], side[j])


CHANNELS = {
    "join": "vertex",
    "link": "link",
    "items": "dict",
    "gen": "gen",
    "genend": "gen",
    "mlen": "matrix",
    "miter": "matrix",
    "rlen": "row",
    "riter": "row",
    "slen": "side",
    "siter": "side",
    "sget": "side",
    "bool": "cell",
}


def filtered(events, enabled):
    return [e for e in events if CHANNELS[e[0]] in enabled]


def cache_size():
    """Number of vertices ever seen by the cache statistics (public API)."""
    text = Vertex.total_cache_stats()
    for line in text.splitlines():
        if line.startswith("Size:"):
            return int(line.split()[1])
    return None


###############################################################################
# naive oracle, straight from the raw input


def naive_check(world, uni, pairs, mention, kind, ctx):
    """
    Only valid for worlds without pre-existing links.

    pairs: listed (origin, destination) index pairs in input order
    mention: vertex indices in order of first mention / side array order
    """
    V = world.V
    order = []
    for i in mention:
        if i not in order:
            order.append(i)
    check(same(uni.vertices, [V[i] for i in order]), ctx, "naive: members")
    all_links = []
    for vert in V:
        for lnk in vert.links:
            if not any(lnk is k for k in all_links):
                all_links.append(lnk)
    check(len(all_links) == len(pairs), ctx, "naive: number of links")
    check(all(type(l) is kind for l in all_links), ctx, "naive: link types")
    directed = issubclass(kind, DirectedEdge)
    for i, vert in enumerate(V):
        want = collections.Counter()
        for src, dst in pairs:
            if src == i:
                want[dst] += 1
            elif dst == i and not directed:
                want[src] += 1
        got = collections.Counter(
            tagof(v)
            for v in helpers.neighbors(
                vert, helpers.DIR_SENS_FORWARD, helpers.LNK_UNKNOWN_NEIGHBOR
            )
        )
        check(got == want, ctx, f"naive: neighbors of {i}", got, want)
        for j, wert in enumerate(V):
            cnt = sum(1 for p in pairs if p == (i, j))
            if not directed and i != j:
                cnt += sum(1 for p in pairs if p == (j, i))
            found = helpers.find_links(
                vert, wert, True, helpers.LNK_UNKNOWN_NEIGHBOR
            )
            check(len(found) == cnt, ctx, f"naive: find_links({i},{j})")
            for lnk in found:
                if directed:
                    check(lnk.v1 is vert and lnk.v2 is wert, ctx, "naive: dir")
    # created in input order: visible in the per-vertex order of the links
    for i, vert in enumerate(V):
        want = []
        for src, dst in pairs:
            if src == i:
                want.append((src, dst))
            elif dst == i:
                want.append((src, dst))
        got = [(tagof(l.v1), tagof(l.v2)) for l in vert.links]
        check(got == want, ctx, f"naive: link order at {i}", got, want)


def check_pickle(world, uni, ctx):
    clone = pickle.loads(pickle.dumps(uni))
    check(clone is not uni, ctx, "pickle identity")
    check(
        [v.tag for v in clone.vertices] == [v.tag for v in uni.vertices],
        ctx,
        "pickle: members",
    )
    unk = helpers.LNK_UNKNOWN_NEIGHBOR
    for old, new in zip(uni.vertices, clone.vertices):
        check(type(old) is type(new), ctx, "pickle: vertex type")
        for sens in (helpers.DIR_SENS_FORWARD, helpers.DIR_SENS_BACKWARD):
            a = [tagof(v) for v in helpers.neighbors(old, sens, unk)]
            b = [tagof(v) for v in helpers.neighbors(new, sens, unk)]
            check(a == b, ctx, "pickle: neighbors", a, b)
        check(
            [type(l) for l in old.links] == [type(l) for l in new.links],
            ctx,
            "pickle: link types",
        )
        check(len(old.universes) == len(new.universes), ctx, "pickle: unis")


###############################################################################
# random differential: builders


def make_values(rng, world, key, vals, enabled):
    """Build the value container of one adjacency dictionary entry."""
    verts = [world.V[j] for j in vals]
    flavour = rng.choice(["list", "tuple", "gen", "iter", "dictkeys"])
    if flavour == "dictkeys" and len(set(vals)) != len(vals):
        flavour = "list"
    if flavour == "list":
        return verts
    if flavour == "tuple":
        return tuple(verts)
    if flavour == "iter":
        return iter(verts)
    if flavour == "dictkeys":
        return dict.fromkeys(verts)

    enabled.add(("gen", key))

    def gen():
        for pos, vert in enumerate(verts):
            LOG.append(("gen", key, pos, len(world.V[key].links)))
            yield vert
        LOG.append(("genend", key, len(world.V[key].links)))

    return gen()


def run_case(world, sim_call, real_call, enabled, fault, ctx, validates):
    """
    Common part of one differential run: simulate, run for real, compare.

    Returns the universe (or None if the call raised).
    """
    sim = Sim(world, fault)
    expected_exc = None
    try:
        sim_call(sim)
    except ModelBoom:
        expected_exc = Boom
    except ValueError:
        expected_exc = ValueError

    del LOG[:]
    del CREATED[:]
    random.seed(20240611)
    rstate = random.getstate()
    size_before = cache_size()
    arm(fault)
    got_exc = None
    result = None
    try:
        result = real_call()
    except (Boom, ValueError) as exc:
        got_exc = type(exc)
    finally:
        arm(None)
    log = list(LOG)
    check(random.getstate() == rstate, ctx, "random.* was used")
    check(got_exc is expected_exc, ctx, "exception", got_exc, expected_exc)
    if got_exc is None:
        check(type(result) is Universe, ctx, "result type", type(result))
    size_after = cache_size()
    if size_before is not None:
        grown = 0 if (expected_exc is ValueError and validates) else 1
        check(size_after - size_before == grown, ctx, "objects created")

    def gen_enabled(event):
        # generator events carry the key they belong to
        return ("gen", event[1]) in enabled

    want = [
        e
        for e in sim.events
        if (
            gen_enabled(e)
            if CHANNELS[e[0]] == "gen"
            else CHANNELS[e[0]] in enabled
        )
    ]
    # an interrupted generator never reports its end; neither does the model
    check(log == want, ctx, "call sequence\n got ", log, "\n want", want)

    world.resolve(sim.new, result)
    created = [
        world.real[lid]
        for lid in sim.new
        if world.model.edges[lid][0] in LOGGING_KINDS
    ]
    check(same(CREATED, created), ctx, "creation order")
    world.verify(ctx)
    return result


def random_adj_dict(rng, it):
    n = rng.choice([0, 1, 2, 3, 3, 4, 5, 6])
    world = World(rng, n)
    clean = rng.random() < 0.4
    if not clean:
        world.populate(rng)
    world.verify(f"dict#{it} setup")
    kind = rng.choice(ALL_KINDS)
    keys = [i for i in range(n) if rng.random() < 0.7]
    rng.shuffle(keys)
    spec = []
    for key in keys:
        cnt = rng.choice([0, 0, 1, 1, 2, 3, 5])
        spec.append((key, [rng.randrange(n) for _ in range(cnt)]))
    enabled = {"vertex", "link"}
    flavour = rng.choice(["dict", "ordered", "ldict"])
    if flavour == "dict":
        adj = {}
    elif flavour == "ordered":
        adj = collections.OrderedDict()
    else:
        adj = LDict()
        enabled.add("dict")
    shared = None
    for key, vals in spec:
        adj[world.V[key]] = make_values(rng, world, key, vals, enabled)
    fault = None
    if rng.random() < 0.35:
        fault = (
            rng.choice(["join", "link"]),
            rng.randrange(1, 6),
            rng.choice(["pre", "post"]),
        )
    ctx = f"dict#{it} n={n} kind={kind.__name__} spec={spec} fault={fault}"
    default = kind is UnDirectedEdge and rng.random() < 0.5

    def real_call():
        if default:
            return adjlist.load_adj_dict(adj)
        if rng.random() < 0.5:
            return adjlist.load_adj_dict(adj, kind)
        return adjlist.load_adj_dict(adjdict=adj, linktype=kind)

    uni = run_case(
        world,
        lambda sim: sim.adj_dict(spec, kind),
        real_call,
        enabled,
        fault,
        ctx,
        validates=False,
    )
    if uni is not None:
        if clean:
            pairs = [(k, v) for k, vals in spec for v in vals]
            mention = [x for k, vals in spec for x in [k] + vals]
            naive_check(world, uni, pairs, mention, kind, ctx)
        check_pickle(world, uni, ctx)
    return uni is not None


def random_adj_matrix(rng, it):
    n = rng.choice([0, 1, 2, 3, 3, 4, 5])
    world = World(rng, n)
    clean = rng.random() < 0.4
    if not clean:
        world.populate(rng)
    world.verify(f"matrix#{it} setup")
    kind = rng.choice(ALL_KINDS)
    if n == 0:
        size = 0
    else:
        size = rng.choice([0, 1, 2, 3, 4, n, n])
    if rng.random() < 0.7 and size <= n:
        side = rng.sample(range(n), size)
    else:
        side = [rng.randrange(n) for _ in range(size)] if n else []
        size = len(side)
    density = rng.choice([0.0, 0.2, 0.5, 0.9, 1.0])
    truth = [[rng.random() < density for _ in range(size)] for _ in range(size)]

    # sabotage?
    sabotage = rng.random() < 0.3
    side_len = size
    if sabotage:
        mode = rng.choice(["row", "row", "side", "both"])
        if mode in ("row", "both") and size > 0:
            for _ in range(rng.choice([1, 1, 2])):
                row = rng.randrange(size)
                newlen = rng.choice([l for l in range(size + 3) if l != size])
                truth[row] = [rng.random() < 0.5 for _ in range(newlen)]
        if mode in ("side", "both") or size == 0:
            side_len = rng.choice(
                [l for l in range(size + 3) if l != size and (n or l == 0)]
                or [size]
            )
            side = [rng.randrange(n) for _ in range(side_len)] if n else []
            side_len = len(side)

    enabled = {"vertex", "link"}
    instrument = rng.random() < 0.5
    if instrument:
        enabled |= {"matrix", "row", "side", "cell"}
        matrix = LMatrix()
        for i, trow in enumerate(truth):
            row = LRow(Cell(t, i, j) for j, t in enumerate(trow))
            row.idx = i
            list.append(matrix, row)
        sidearr = LSide(world.V[i] for i in side)
    else:
        rows = []
        for trow in truth:
            row = [rng.choice(TRUTHY) if t else rng.choice(FALSY) for t in trow]
            rows.append(tuple(row) if rng.random() < 0.3 else row)
        matrix = tuple(rows) if rng.random() < 0.3 else rows
        sidearr = [world.V[i] for i in side]
        if rng.random() < 0.3:
            sidearr = tuple(sidearr)
    fault = None
    if rng.random() < 0.3:
        fault = (
            rng.choice(["join", "link"]),
            rng.randrange(1, 6),
            rng.choice(["pre", "post"]),
        )
    ctx = (
        f"matrix#{it} n={n} kind={kind.__name__} side={side} truth={truth} "
        f"fault={fault} instrumented={instrument}"
    )
    default = kind is DirectedEdge and rng.random() < 0.5

    def real_call():
        if default:
            return adjmatrix.load_adj_matrix(matrix, sidearr)
        if rng.random() < 0.5:
            return adjmatrix.load_adj_matrix(matrix, sidearr, kind)
        return adjmatrix.load_adj_matrix(
            matrix=matrix, vertices=sidearr, linktype=kind
        )

    uni = run_case(
        world,
        lambda sim: sim.adj_matrix(truth, side, kind),
        real_call,
        enabled,
        fault,
        ctx,
        validates=True,
    )
    if uni is not None:
        if clean:
            pairs = [
                (side[i], side[j])
                for i in range(size)
                for j in range(size)
                if truth[i][j]
            ]
            naive_check(world, uni, pairs, side, kind, ctx)
        check_pickle(world, uni, ctx)
    return uni is not None


###############################################################################
# random differential: link_from_to and friends


def random_explicit(rng, it):
    n = rng.choice([1, 2, 3, 4])
    world = World(rng, n)
    world.populate(rng)
    m = world.model
    for step in range(rng.choice([3, 8, 15])):
        a = rng.randrange(n)
        b = rng.randrange(n)
        flag_truth = rng.random() < 0.6
        flavour = rng.choice(["bool", "obj", "counting", "omitted"])
        if flavour == "bool":
            flag = flag_truth
        elif flavour == "obj":
            flag = rng.choice([1, "yes", [0]] if flag_truth else [0, "", [], None])
        elif flavour == "counting":
            flag = CountingBool(flag_truth)
        else:
            flag = None
            flag_truth = False
        api = rng.choice(["from_to", "from_to_pos", "directed", "undirected"])
        if api == "directed":
            kind = DirectedEdge
        elif api == "undirected":
            kind = UnDirectedEdge
        else:
            kind = rng.choice(ALL_KINDS)
        ctx = f"explicit#{it}.{step} {api} {a}->{b} {kind.__name__} {flavour}={flag_truth}"

        existing = m.first_between(a, b) if flag_truth else None
        del LOG[:]
        random.seed(5)
        rstate = random.getstate()
        va, vb = world.V[a], world.V[b]
        if flavour == "omitted":
            if api in ("from_to", "from_to_pos"):
                got = explicit.link_from_to(va, kind, vb)
            elif api == "directed":
                got = explicit.link_directed(va, vb)
            else:
                got = explicit.link_undirected(va, vb)
        elif api == "from_to":
            got = explicit.link_from_to(va, kind, vb, dontdup=flag)
        elif api == "from_to_pos":
            got = explicit.link_from_to(va, kind, vb, flag)
        elif api == "directed":
            if rng.random() < 0.5:
                got = explicit.link_directed(va, vb, flag)
            else:
                got = explicit.link_directed(v1=va, v2=vb, dontdup=flag)
        else:
            if rng.random() < 0.5:
                got = explicit.link_undirected(va, vb, flag)
            else:
                got = explicit.link_undirected(v1=va, v2=vb, dontdup=flag)
        check(random.getstate() == rstate, ctx, "random.* was used")
        if flavour == "counting":
            check(flag.calls == 1, ctx, "dontdup tested", flag.calls, "times")
        if existing is not None:
            check(got is world.real[existing], ctx, "wrong existing link")
            check(LOG == [], ctx, "something was constructed")
        else:
            lid = m.link(kind, a, b)
            world.real[lid] = got
            want = (
                [("link", kind.__name__, a, b)] if kind in LOGGING_KINDS else []
            )
            check(LOG == want, ctx, "constructor calls", LOG, want)
        if rng.random() < 0.4:
            world.verify(ctx)
    world.verify(f"explicit#{it} end")


###############################################################################
# scripted corner cases


def fresh(n, cls=LVertex):
    return [cls(attributes={"tag": i}) for i in range(n)]


def expect(exc_type, func, *args, **kwargs):
    try:
        func(*args, **kwargs)
    except exc_type as exc:  # pylint: disable=broad-except
        check(type(exc) is exc_type, "exception type", type(exc), exc_type)
        return exc
    raise Mismatch(f"{exc_type.__name__} not raised")


def scripted_dict():
    # --- the docstring example
    v = fresh(6)
    uni = adjlist.load_adj_dict(
        {
            v[0]: [v[1], v[2], v[3]],
            v[1]: [v[2], v[3], v[4]],
            v[2]: [v[3], v[4], v[5]],
            v[3]: [v[3]],
            v[5]: [],
        }
    )
    check(same(uni.vertices, v), "doc example members")
    nbs = [sorted(x.tag for x in helpers.neighbors(y)) for y in v]
    check(
        nbs == [[1, 2, 3], [0, 2, 3, 4], [0, 1, 3, 4, 5], [0, 1, 2, 3], [1, 2], [2]],
        "doc example adjacency",
        nbs,
    )
    check(all(type(l) is UnDirectedEdge for x in v for l in x.links), "default")
    check(len(v[3].links) == 4 and v[3].links[3].vertices == (v[3], v[3]), "loop")

    # --- empty
    uni = adjlist.load_adj_dict({})
    check(type(uni) is Universe and uni.vertices == [], "empty dict")
    check(uni.universes == [] and uni.links == (), "empty dict universe")
    uni2 = adjlist.load_adj_dict({})
    check(uni2 is not uni, "fresh universe each time")

    # --- first mention order, values before they are keys, repeats
    a, b, c, d = fresh(4)
    del LOG[:]
    uni = adjlist.load_adj_dict({a: [c, c, a], b: (x for x in [a, d])}, LDi)
    check(same(uni.vertices, [a, c, b, d]), "first mention order")
    check(
        LOG
        == [
            ("join", 0),
            ("link", "LDi", 0, 2),
            ("join", 2),
            ("link", "LDi", 0, 2),
            ("join", 2),
            ("link", "LDi", 0, 0),
            ("join", 0),
            ("join", 1),
            ("link", "LDi", 1, 0),
            ("join", 0),
            ("link", "LDi", 1, 3),
            ("join", 3),
        ],
        "call order",
        LOG,
    )
    check(len(a.links) == 4 and len(c.links) == 2, "repeat creates another")
    check(a.links[0] is not a.links[1], "distinct links for repeats")
    check(a.links[2].v1 is a and a.links[2].v2 is a, "self loop")
    check([x.tag for x in helpers.neighbors(a)] == [2, 2, 0], "nb a")
    check(helpers.neighbors(c) == [], "nb c")
    check(helpers.neighbors(b) == [a, d], "nb b")
    check(a.universes == [uni] and d.universes == [uni], "one universe")

    # --- the same container object for two keys; a universe used as a vertex
    host = LUniverse(attributes={"tag": 9})
    a, b = fresh(2)
    shared = [host, b]
    uni = adjlist.load_adj_dict({a: shared, host: shared})
    check(same(uni.vertices, [a, host, b]), "shared value list")
    check(host.vertices == [], "universe-as-vertex does not gain members")
    check(host.universes == [uni], "universe-as-vertex joins")
    check(len(host.links) == 3 and host.links[1].vertices == (host, host), "ul")

    # --- already member of other universes / already linked
    a, b = fresh(2)
    old = Universe(vertices=[b])
    pre = explicit.link_directed(b, a)
    uni = adjlist.load_adj_dict({a: [b]}, DirectedEdge)
    check(b.universes == [old, uni] and old.vertices == [b], "old universe kept")
    check(a.links[0] is pre and b.links[0] is pre, "old link kept")
    check(len(a.links) == 2 and a.links[1] is b.links[1], "one new link")
    check(helpers.neighbors(a) == [b] and helpers.neighbors(b) == [a], "nbs")

    # --- value that is not a vertex: TypeError from the link class, key has
    # joined, earlier links stay
    a, b = fresh(2)
    expect(TypeError, adjlist.load_adj_dict, {a: [b, 5, b]})
    check(len(a.links) == 1 and len(b.links) == 1, "stopped at the bad value")
    check(len(a.universes) == 1 and a.universes == b.universes, "both joined")
    check(same(a.universes[0].vertices, [a, b]), "members before the failure")

    # --- None as a value: the link class accepts it, joining does not
    a = fresh(1)[0]
    expect(AttributeError, adjlist.load_adj_dict, {a: [None]}, DirectedEdge)
    check(len(a.links) == 1 and a.links[0].v2 is None, "link to None")
    check(len(a.universes) == 1, "key joined before")

    # --- None / non-vertex keys
    a = fresh(1)[0]
    expect(AttributeError, adjlist.load_adj_dict, {None: [a]})
    check(a.links == () and a.universes == [], "untouched")
    expect(AttributeError, adjlist.load_adj_dict, {7: [a]})
    check(a.links == () and a.universes == [], "untouched")

    # --- values not iterable
    a = fresh(1)[0]
    expect(TypeError, adjlist.load_adj_dict, {a: 3})
    check(len(a.universes) == 1 and a.links == (), "key joined first")

    # --- not a mapping at all
    expect(AttributeError, adjlist.load_adj_dict, [(a, [a])])
    expect(AttributeError, adjlist.load_adj_dict, None)

    # --- items() yielding something else than pairs
    class Odd:
        def items(self):
            return iter([(a,)])

    expect(ValueError, adjlist.load_adj_dict, Odd())

    # --- linktype that is an arbitrary callable
    a, b = fresh(2)
    calls = []
    del LOG[:]
    uni = adjlist.load_adj_dict({a: [b, a]}, lambda x, y: calls.append((x, y)))
    check(len(calls) == 2 and calls[0] == (a, b) and calls[1] == (a, a), "cb")
    check(a.links == () and same(uni.vertices, [a, b]), "callable linktype")
    check(LOG == [("join", 0), ("join", 1), ("join", 0)], "callable order", LOG)

    # --- StopIteration escaping from a user callback stays a StopIteration
    def stopper(x, y):
        raise StopIteration("user")

    a, b = fresh(2)
    expect(StopIteration, adjlist.load_adj_dict, {a: [b]}, stopper)
    check(len(a.universes) == 1 and b.universes == [], "state at stop")

    class StopVertex(Vertex):
        def add_to_universe(self, universe):
            raise StopIteration("user")

    a = fresh(1)[0]
    s = StopVertex()
    expect(StopIteration, adjlist.load_adj_dict, {a: [s, a]}, DirectedEdge)
    check(len(a.links) == 1 and a.links[0].v2 is s, "linked before stop")
    expect(StopIteration, adjlist.load_adj_dict, {s: [a]})
    check(len(a.links) == 1, "nothing further")

    # --- generator values that raise half way through
    a, b, c = fresh(3)

    def bad():
        yield b
        raise Boom("gen")

    expect(Boom, adjlist.load_adj_dict, {a: bad(), c: [a]})
    check(len(a.links) == 1 and len(b.universes) == 1, "first value done")
    check(c.universes == [] and c.links == (), "later keys untouched")

    # --- the generator observes that its previous value is fully handled
    a, b, c = fresh(3)
    seen = []

    def peek():
        seen.append((len(a.links), len(b.universes), len(c.universes)))
        yield b
        seen.append((len(a.links), len(b.universes), len(c.universes)))
        yield c
        seen.append((len(a.links), len(b.universes), len(c.universes)))

    adjlist.load_adj_dict({a: peek()})
    check(seen == [(0, 0, 0), (1, 1, 0), (2, 1, 1)], "lazy consumption", seen)


def scripted_matrix():
    # --- the docstring example
    v = fresh(6)
    uni = adjmatrix.load_adj_matrix(
        [
            [0, 1, 1, 1, 0, 0],
            [0, 0, 1, 1, 1, 0],
            [0, 0, 0, 1, 1, 1],
            [0, 0, 0, 1, 0, 0],
            [0] * 6,
            [0] * 6,
        ],
        v,
    )
    check(same(uni.vertices, v), "doc example members")
    nbs = [[x.tag for x in helpers.neighbors(y)] for y in v]
    check(nbs == [[1, 2, 3], [2, 3, 4], [3, 4, 5], [3], [], []], "doc adj", nbs)
    check(all(type(l) is DirectedEdge for x in v for l in x.links), "default")

    # --- empty
    uni = adjmatrix.load_adj_matrix([], [])
    check(type(uni) is Universe and uni.vertices == [], "empty matrix")
    uni = adjmatrix.load_adj_matrix((), ())
    check(uni.vertices == [], "empty tuples")

    # --- undirected: either triangle sets the link, both set two links
    a, b, c = fresh(3)
    uni = adjmatrix.load_adj_matrix(
        [[0, 1, 0], [1, 0, 0], [1, 0, 1]], [a, b, c], UnDirectedEdge
    )
    check(sorted(x.tag for x in helpers.neighbors(a)) == [1, 1, 2], "undir a")
    check(helpers.neighbors(b) == [a, a], "undir b")
    check(helpers.neighbors(c) == [a, c], "undir c")
    check(len(helpers.find_links(a, b)) == 2, "two links a-b")
    check(a.links[0].v1 is a and a.links[1].v1 is b, "orientation row->col")
    check(c.links[1].vertices == (c, c), "diagonal gives a self loop")

    # --- all vertices join, even isolated ones, in side order, before links
    a, b, c = fresh(3)
    del LOG[:]
    uni = adjmatrix.load_adj_matrix([[0, 0, 0], [0, 0, 1], [0, 1, 0]], [c, a, b], LUn)
    check(same(uni.vertices, [c, a, b]), "side order")
    check(
        LOG
        == [
            ("join", 2),
            ("join", 0),
            ("join", 1),
            ("link", "LUn", 0, 1),
            ("link", "LUn", 1, 0),
        ],
        "matrix call order",
        LOG,
    )

    # --- the same vertex twice in the side array; the same row object reused
    a, b = fresh(2)
    row = [1, 0, "x"]
    del LOG[:]
    uni = adjmatrix.load_adj_matrix([row, row, row], (a, b, a), LDi)
    check(same(uni.vertices, [a, b]), "repeated side entries")
    check(
        [e for e in LOG if e[0] == "link"]
        == [
            ("link", "LDi", 0, 0),
            ("link", "LDi", 0, 0),
            ("link", "LDi", 1, 0),
            ("link", "LDi", 1, 0),
            ("link", "LDi", 0, 0),
            ("link", "LDi", 0, 0),
        ],
        "aliased rows",
        LOG,
    )
    check(len(a.links) == 6 and len(b.links) == 2, "aliased link counts")

    # --- shape errors: nothing is touched, not even looked at
    for matrix, cnt in [
        ([[1, 1], [1]], 2),
        ([[1, 1], [1, 1, 1]], 2),
        ([[1]], 2),
        ([[1, 1], [1, 1]], 1),
        ([[1, 1], [1, 1]], 3),
        ([[1, 1]], 1),
        ([[]], 1),
        ([], 1),
        ([[1, 0, 1], 5], 2),  # the first offending row decides
        ([[1, 0], [0, 1]], 0),
    ]:
        v = fresh(cnt)
        old = Universe(vertices=v)
        for x in v:
            explicit.link_undirected(x, v[0])
        before = [(x.links, x.universes) for x in v]
        del LOG[:]
        size = cache_size()
        exc = expect(ValueError, adjmatrix.load_adj_matrix, matrix, v, LDi)
        check(isinstance(exc.args[0], str) and exc.args[0], "has a message")
        check(LOG == [], "shape error touched something", LOG)
        check(cache_size() == size, "shape error created a universe")
        check(before == [(x.links, x.universes) for x in v], "state changed")
        check(same(old.vertices, v), "old universe changed")

    # --- things without a length
    v = fresh(2)
    del LOG[:]
    expect(TypeError, adjmatrix.load_adj_matrix, iter([[0, 0], [0, 0]]), v)
    expect(TypeError, adjmatrix.load_adj_matrix, [[0, 0], [0, 0]], iter(v))
    expect(TypeError, adjmatrix.load_adj_matrix, [[0, 0], 5], v)
    expect(TypeError, adjmatrix.load_adj_matrix, [7, [0, 0]], v)
    expect(TypeError, adjmatrix.load_adj_matrix, None, v)
    expect(TypeError, adjmatrix.load_adj_matrix, [[0, 0], [0, 0]], None)
    check(LOG == [] and all(x.universes == [] for x in v), "TypeError touched")

    # --- rows that have a length but cannot be iterated: found out late
    class Sized:
        def __len__(self):
            return 2

    a, b = fresh(2)
    expect(TypeError, adjmatrix.load_adj_matrix, [[0, 1], Sized()], [a, b])
    check(len(a.links) == 1 and len(b.universes) == 1, "first row was done")

    # --- a row whose __len__ raises StopIteration: comes out unchanged
    class StopRow(list):
        def __len__(self):
            raise StopIteration("user")

    a, b = fresh(2)
    expect(StopIteration, adjmatrix.load_adj_matrix, [[0, 1], StopRow([1, 1])], [a, b])
    check(a.universes == [] and a.links == (), "untouched after StopIteration")

    class StopCell:
        def __bool__(self):
            raise StopIteration("user")

    expect(StopIteration, adjmatrix.load_adj_matrix, [[1, StopCell()], [1, 1]], [a, b])
    check(len(a.links) == 1 and len(b.links) == 0, "stopped at the cell")
    check(len(a.universes) == 1 and len(b.universes) == 1, "both joined")

    # --- side array entries that are not vertices
    a = fresh(1)[0]
    expect(AttributeError, adjmatrix.load_adj_matrix, [[0, 0], [0, 0]], [a, None])
    check(len(a.universes) == 1, "first joined, then failure")
    expect(AttributeError, adjmatrix.load_adj_matrix, [[1]], "x")

    # --- linktype that is an arbitrary callable, cells of many kinds
    a, b = fresh(2)
    calls = []
    uni = adjmatrix.load_adj_matrix(
        [[None, "0"], [LenCell(0), LenCell(1)]],
        [a, b],
        lambda x, y: calls.append((x, y)),
    )
    check(calls == [(a, b), (b, b)] and a.links == (), "callable linktype")
    check(same(uni.vertices, [a, b]), "callable linktype members")

    # --- the side array is indexed at link time (origin first)
    a, b, c = fresh(3)
    side = LSide([a, b, c])
    del LOG[:]
    adjmatrix.load_adj_matrix([[0, 0, 0], [0, 0, 0], [1, 0, 1]], side, LDi)
    check(
        LOG
        == [
            ("slen",),
            ("siter",),
            ("join", 0),
            ("join", 1),
            ("join", 2),
            ("sget", 2),
            ("sget", 0),
            ("link", "LDi", 2, 0),
            ("sget", 2),
            ("sget", 2),
            ("link", "LDi", 2, 2),
        ],
        "side array access",
        LOG,
    )


def scripted_explicit():
    a, b, c = fresh(3)
    l1 = explicit.link_from_to(a, TwoEndedLink, b)
    check(type(l1) is TwoEndedLink and l1.vertices == (a, b), "plain")
    l2 = explicit.link_from_to(a, DirectedEdge, b)
    check(l2 is not l1 and a.links == (l1, l2), "dup allowed by default")
    check(explicit.link_from_to(a, DirectedEdge, b, dontdup=True) is l1, "1st")
    check(explicit.link_from_to(b, UnDirectedEdge, a, dontdup=True) is l1, "rev")
    check(explicit.link_directed(b, a, dontdup=True) is l1, "wrapper")
    check(explicit.link_undirected(a, b, True) is l1, "wrapper positional")
    check(a.links == (l1, l2) and b.links == (l1, l2), "nothing created")
    l3 = explicit.link_from_to(a, LUn, c, dontdup=True)
    check(type(l3) is LUn and l3.vertices == (a, c), "created when absent")
    l4 = explicit.link_directed(c, c, dontdup=True)
    check(l4.vertices == (c, c) and c.links == (l3, l4), "loop created")
    check(explicit.link_undirected(c, c, dontdup=True) is l4, "loop found")
    check(type(explicit.link_directed(a, b)) is DirectedEdge, "directed")
    check(type(explicit.link_undirected(a, b)) is UnDirectedEdge, "undirected")

    # None ends
    a, b = fresh(2)
    l1 = explicit.link_from_to(None, DirectedEdge, a)
    check(l1.vertices == (None, a) and a.links == (l1,), "None origin")
    l2 = explicit.link_from_to(a, DirectedEdge, None)
    check(l2.vertices == (a, None) and a.links == (l1, l2), "None target")
    check(explicit.link_from_to(a, LDi, None, dontdup=True) is l1, "None found")
    expect(AttributeError, explicit.link_from_to, None, DirectedEdge, a, True)
    check(a.links == (l1, l2), "no link after failure")
    l3 = explicit.link_from_to(a, DirectedEdge, b, dontdup=True)
    check(l3.vertices == (a, b), "None is not b")

    # non vertices
    expect(TypeError, explicit.link_from_to, a, DirectedEdge, 5)
    expect(TypeError, explicit.link_from_to, 5, DirectedEdge, a)
    expect(AttributeError, explicit.link_from_to, 5, DirectedEdge, a, True)
    expect(TypeError, explicit.link_from_to, a, None, b)
    check(a.links == (l1, l2, l3), "failed calls leave nothing")

    # links that are not two-ended get asked, in order
    a, b = fresh(2)
    first = explicit.link_directed(a, b)
    hyper = HyperLink(vertices=[a, b])
    check(a.links == (first, hyper), "setup")
    check(explicit.link_from_to(a, LDi, b, dontdup=True) is first, "before")
    a, b = fresh(2)
    hyper = HyperLink(vertices=[a, b])
    first = explicit.link_directed(a, b)
    expect(AttributeError, explicit.link_from_to, a, LDi, b, True)
    check(a.links == (hyper, first), "nothing created")

    # other() is consulted once per link until the first hit
    asked = []

    class Nosy(DirectedEdge):
        def other(self, end):
            asked.append(self)
            return super().other(end)

    a, b, c = fresh(3)
    n1 = Nosy(a, c)
    n2 = Nosy(b, a)
    n3 = Nosy(a, b)
    check(explicit.link_from_to(a, Nosy, b, dontdup=True) is n2, "first hit")
    check(asked == [n1, n2], "other() calls")
    del asked[:]
    n4 = explicit.link_from_to(b, Nosy, c, dontdup=True)
    check(asked == [n2, n3] and n4.vertices == (b, c), "other() calls, miss")
    del asked[:]
    explicit.link_from_to(a, Nosy, b)
    check(asked == [], "no scan without dontdup")

    # v1 is asked for its links once by the scan (only with dontdup), and
    # once more by the link being attached to it
    class Watched(Vertex):
        reads = 0

        @property
        def links(self):
            type(self).reads += 1
            return super().links

    w = Watched()
    b, c = fresh(2)
    first = explicit.link_from_to(w, DirectedEdge, b)
    check(Watched.reads == 1, "links read without dontdup", Watched.reads)
    Watched.reads = 0
    check(explicit.link_from_to(w, LDi, b, dontdup=1) is first, "watched hit")
    check(Watched.reads == 1, "links read on a hit", Watched.reads)
    Watched.reads = 0
    explicit.link_undirected(w, c, dontdup="y")
    check(Watched.reads == 2, "links read on a miss", Watched.reads)
    Watched.reads = 0
    explicit.link_undirected(w, w, dontdup="y")
    check(Watched.reads == 3, "links read on a miss, loop", Watched.reads)
    Watched.reads = 0
    explicit.link_directed(b, w, 0)
    explicit.link_from_to(b, UnDirectedEdge, w, dontdup=True)
    check(Watched.reads == 1, "only v1 is scanned", Watched.reads)

    # exception from other() propagates, also StopIteration
    class Stop(DirectedEdge):
        def other(self, end):
            raise StopIteration("user")

    a, b = fresh(2)
    Stop(a, b)
    expect(StopIteration, explicit.link_from_to, a, DirectedEdge, b, True)
    check(len(a.links) == 1, "nothing created after StopIteration")

    # a constructor that raises: propagates, in both modes
    def boom(x, y):
        raise Boom("ctor")

    a, b = fresh(2)
    only = explicit.link_directed(a, b)
    expect(Boom, explicit.link_from_to, a, boom, b)
    expect(Boom, explicit.link_from_to, b, boom, b, True)
    check(explicit.link_from_to(a, boom, b, True) is only, "not called")
    check(explicit.link_from_to(b, boom, a, CountingBool(True)) is only, "nc")
    check(a.links == (only,) and b.links == (only,), "ctor failure state")
    got = explicit.link_from_to(a, lambda x, y: (x, y), b)
    check(got == (a, b), "whatever the callable returns")


###############################################################################


def main():
    sys.setrecursionlimit(10000)
    counts = collections.Counter()
    for caching in (False, True):
        Vertex.NEIGHBOR_CACHING = caching
        scripted_dict()
        scripted_matrix()
        scripted_explicit()
        rng = random.Random(1100 + caching)
        for it in range(450):
            counts["dict ok" if random_adj_dict(rng, it) else "dict exc"] += 1
        for it in range(450):
            counts["mat ok" if random_adj_matrix(rng, it) else "mat exc"] += 1
        for it in range(150):
            random_explicit(rng, it)
    Vertex.NEIGHBOR_CACHING = False
    print("C11 equiv: all checks passed", dict(counts))
    return 0


if __name__ == "__main__":
    try:
        sys.exit(main())
    except Exception:  # pylint: disable=broad-except
        traceback.print_exc()
        print("C11 equiv: FAILED")
        sys.exit(1)
