#!/usr/bin/env python3
# -*- coding: utf-8 -*-

"""
Equivalence / conformance program for property C16 (plain-text rendering).

Run from the worktree root as

    PYTHONPATH=/tmp/r2/C16 /venv/bin/python equiv.py

Only the public API of edgegraph is used.  The program keeps an *independent*
book-keeping model of every graph it builds (who is linked to whom, in which
order) and derives from it -- following the property statement and the
documentation, not the library code -- what ``basic_render`` (and
``helpers.neighbors``, which it relies on) have to produce:

* the text (one line per member vertex, `` -> ``, neighbours joined by ``, ``),
* the exact sequence of calls made to the user's callbacks,
* the exception that escapes when a callback raises, and what was called
  before it,
* the neighbour-cache statistics that the public ``total_cache_stats`` shows.

Exit status 0 means everything agreed.
"""

import pickle
import random
import re
import sys

from edgegraph.structure import (
    Vertex,
    Universe,
    Link,
    TwoEndedLink,
    DirectedEdge,
    UnDirectedEdge,
)
from edgegraph.builder import explicit, adjlist
from edgegraph.traversal import helpers
from edgegraph.output import plaintext, nrpickler

CHECKS = 0
FAILS = []


def check(cond, msg):
    """Count a check; remember a failure."""
    global CHECKS
    CHECKS += 1
    if not cond:
        FAILS.append(msg)
        if len(FAILS) <= 25:
            print("FAIL:", msg)


def same_objs(got, want):
    """Two sequences hold the very same objects, in the same order."""
    return len(got) == len(want) and all(a is b for a, b in zip(got, want))


def same_trace(got, want):
    """Two callback traces are the same: same tags, same (identical) objects."""
    if len(got) != len(want):
        return False
    for a, b in zip(got, want):
        if len(a) != len(b) or a[0] != b[0]:
            return False
        for x, y in zip(a[1:], b[1:]):
            if x is not y:
                return False
    return True


def set_caching(flag):
    Vertex.NEIGHBOR_CACHING = flag


def stats():
    """Hits / misses / invalidations / insertions as the public API shows."""
    text = Vertex.total_cache_stats()
    if "DISABLED" in text:
        return None
    out = {}
    for line in text.splitlines():
        m = re.match(r"(\w+):\s+(\d+)$", line)
        if m:
            out[m.group(1)] = int(m.group(2))
    return out


###############################################################################
# link classes the library does not know about


class OddLink(TwoEndedLink):
    """Two-ended, but neither directed nor undirected."""


class BareLink(Link):
    """A link class without an ``other`` method."""


class BothWays(UnDirectedEdge, DirectedEdge):
    """Claims to be both; the undirected reading has to win."""


class NamedVertex(Vertex):
    """A vertex subclass with its own repr."""

    def __repr__(self):
        return f"<NV {self.i}>"


###############################################################################
# the independent model


class Edge:
    """Book-keeping record of one link."""

    def __init__(self, kind, a, b, obj):
        self.kind = kind  # 'd', 'u', 'x' (unknown class)
        self.ends = [a, b]
        self.obj = obj


class Model:
    """
    What we know about a graph from the calls we made to build it.

    ``order``    -- members of the universe, in insertion order
    ``inc[id]``  -- the edges attached to a vertex, in attachment order
    """

    def __init__(self):
        self.uni = Universe()
        self.order = []
        self.all = []
        self.inc = {}
        self.edges = []

    # -- building ---------------------------------------------------------
    def vertex(self, i, member=True, cls=Vertex):
        v = cls(attributes={"i": i})
        self.inc[id(v)] = []
        self.all.append(v)
        if member:
            self.uni.add_vertex(v)
            self.order.append(v)
        return v

    def join(self, kind, a, b):
        cls = {"d": DirectedEdge, "u": UnDirectedEdge, "x": OddLink}[kind]
        if kind == "d":
            obj = explicit.link_directed(a, b)
        elif kind == "u":
            obj = explicit.link_undirected(a, b)
        else:
            obj = explicit.link_from_to(a, cls, b)
        e = Edge(kind, a, b, obj)
        self.edges.append(e)
        for end in (a, b):
            if end is not None and e not in self.inc[id(end)]:
                self.inc[id(end)].append(e)
        return e

    def retarget(self, e, idx, new):
        old = e.ends[idx]
        if idx == 0:
            e.obj.v1 = new
        else:
            e.obj.v2 = new
        e.ends[idx] = new
        if old is not None and not any(x is old for x in e.ends):
            self.inc[id(old)].remove(e)
        if new is not None and e not in self.inc[id(new)]:
            self.inc[id(new)].append(e)

    def far(self, e, v):
        a, b = e.ends
        if a is v:
            return b
        if b is v:
            return a
        return None

    def unlink(self, a, b):
        explicit.unlink(a, b)
        for e in list(self.inc[id(a)]):
            if self.far(e, a) is b:
                self.inc[id(a)].remove(e)
                if e in self.inc[id(b)]:
                    self.inc[id(b)].remove(e)
                e.ends = []
                self.edges.remove(e)

    def leave(self, v):
        self.uni.remove_vertex(v)
        self.order.remove(v)

    def enter(self, v):
        self.uni.add_vertex(v)
        if not any(x is v for x in self.order):
            self.order.append(v)

    # -- oracles ----------------------------------------------------------
    def forward(self, v):
        """Forward neighbours, per the documentation of neighbors()."""
        out = []
        for e in self.inc[id(v)]:
            a, b = e.ends
            if e.kind == "u":
                out.append(self.far(e, v))
            elif e.kind == "d":
                if a is v:
                    out.append(b)
            else:
                raise NotImplementedError(f"Unknown link class {type(e.obj)}")
        return out

    def neighbors(self, v, ds, uh, filt):
        """General oracle for helpers.neighbors."""
        out = []
        for e in self.inc[id(v)]:
            a, b = e.ends
            far = self.far(e, v)
            if ds == helpers.DIR_SENS_FORWARD or ds == helpers.DIR_SENS_BACKWARD:
                near_end, far_end = (
                    (a, b) if ds == helpers.DIR_SENS_FORWARD else (b, a)
                )
                if e.kind == "u":
                    cand = True
                elif e.kind == "d" and near_end is v:
                    cand = True
                elif e.kind == "d" and far_end is v:
                    cand = False
                elif uh == helpers.LNK_UNKNOWN_NONNEIGHBOR:
                    cand = False
                elif uh == helpers.LNK_UNKNOWN_NEIGHBOR:
                    cand = True
                else:
                    raise NotImplementedError(
                        f"Unknown link class {type(e.obj)}"
                    )
            elif ds == helpers.DIR_SENS_ANY:
                cand = True
            else:
                raise ValueError(
                    f"Unknown option for direction_sensitive = {ds}"
                )
            if cand and (filt is None or filt(e.obj, far)):
                out.append(far)
        return out

    def render(self, label, key, trace=None):
        """
        Oracle for basic_render, from the property statement.

        ``label``/``key`` are pure functions here; ``trace`` (if given)
        receives the calls the library is expected to make to the user's
        rfunc ('r') and sort ('s') callbacks, in order.
        """
        if not self.order:
            return None
        trace = [] if trace is None else trace
        members = list(self.order)
        if key is not None:
            trace.extend(("s", v) for v in members)
            members = sorted(members, key=key)
        lines = []
        for v in members:
            if label is not None:
                trace.append(("r", v))
                text = format(label(v)) + " -> "
            else:
                text = repr(v) + " -> "
            nbs = self.forward(v)
            if key is not None:
                trace.extend(("s", n) for n in nbs)
                nbs = sorted(nbs, key=key)
            names = []
            for n in nbs:
                if label is not None:
                    trace.append(("r", n))
                    names.append(format(label(n)))
                else:
                    names.append(repr(n))
            lines.append(text + ", ".join(names))
        return "\n".join(lines)


def lab(v):
    """Pure labelling function (robust to None ends)."""
    return "nil" if v is None else f"v{v.i}"


def keyf(v):
    """Pure sort key (robust to None ends, with ties on purpose)."""
    return -1 if v is None else v.i // 2


class Recorder:
    """Builds recording rfunc / sort callbacks around the pure functions."""

    def __init__(self, fail_at=None, exc=None):
        self.trace = []
        self.fail_at = fail_at
        self.exc = exc

    def _tick(self, tag, obj):
        self.trace.append((tag, obj))
        if self.fail_at is not None and len(self.trace) - 1 == self.fail_at:
            raise self.exc

    def rfunc(self, v):
        self._tick("r", v)
        return lab(v)

    def sort(self, v):
        self._tick("s", v)
        return keyf(v)


class Boom(Exception):
    pass


def structure_snapshot(model):
    """Public, structural state of everything in the model."""
    snap = [tuple(id(v) for v in model.uni.vertices)]
    for v in model.all:
        snap.append(
            (
                id(v),
                tuple(id(l) for l in v.links),
                tuple(id(u) for u in v.universes),
                tuple(sorted(vars(v))),
            )
        )
    for e in model.edges:
        snap.append((id(e.obj), tuple(id(x) for x in e.obj.vertices)))
    return snap


def full_check(model, tag):
    """Render ``model`` in all four callback combinations and compare."""
    before = structure_snapshot(model)
    for use_r in (False, True):
        for use_s in (False, True):
            rec = Recorder()
            want_trace = []
            want = model.render(
                lab if use_r else None, keyf if use_s else None, want_trace
            )
            got = plaintext.basic_render(
                model.uni,
                rfunc=rec.rfunc if use_r else None,
                sort=rec.sort if use_s else None,
            )
            check(
                got == want and type(got) is type(want),
                f"{tag}: text r={use_r} s={use_s}\n got={got!r}\nwant={want!r}",
            )
            check(
                same_trace(rec.trace, want_trace),
                f"{tag}: callback trace r={use_r} s={use_s}",
            )
            if got is not None:
                lines = got.split("\n")
                check(
                    len(lines) == len(model.order), f"{tag}: one line per vertex"
                )
                check(
                    all(" -> " in ln for ln in lines), f"{tag}: arrow on each line"
                )
                check(
                    not any(ln.endswith(", ") or ln.endswith(",") for ln in lines),
                    f"{tag}: no trailing separator",
                )
    check(structure_snapshot(model) == before, f"{tag}: render changed the graph")


###############################################################################
# scripted corner cases


def scripted_render():
    for caching in (False, True):
        set_caching(caching)
        tag = f"scripted[cache={caching}]"

        # empty universe: None, no callback is touched
        m = Model()
        rec = Recorder()
        check(plaintext.basic_render(m.uni) is None, f"{tag}: empty -> None")
        check(
            plaintext.basic_render(m.uni, rfunc=rec.rfunc, sort=rec.sort) is None,
            f"{tag}: empty with callbacks -> None",
        )
        check(rec.trace == [], f"{tag}: empty universe called a callback")
        full_check(m, tag + " empty")

        # a single, isolated vertex: the line still has its arrow
        a = m.vertex(0)
        check(
            plaintext.basic_render(m.uni, rfunc=lab) == "v0 -> ",
            f"{tag}: isolated vertex",
        )
        check(
            plaintext.basic_render(m.uni) == repr(a) + " -> ",
            f"{tag}: isolated vertex, repr",
        )
        full_check(m, tag + " single")

        # self loops (directed and undirected), duplicates, both directions
        b = m.vertex(1)
        c = m.vertex(2)
        m.join("d", a, a)
        m.join("u", a, a)
        m.join("d", a, b)
        m.join("d", a, b)
        m.join("d", b, a)
        m.join("u", c, a)
        m.join("u", a, c)
        check(
            plaintext.basic_render(m.uni, rfunc=lab)
            == "v0 -> v0, v0, v1, v1, v2, v2\nv1 -> v0\nv2 -> v0, v0",
            f"{tag}: loops and duplicates",
        )
        full_check(m, tag + " loops")

        # neighbours that are not members of the universe are still listed;
        # members without neighbours keep their line
        out = m.vertex(9, member=False)
        m.join("d", c, out)
        m.join("d", out, b)
        d = m.vertex(3)
        check(
            plaintext.basic_render(m.uni, rfunc=lab).split("\n")[2:]
            == ["v2 -> v0, v0, v9", "v3 -> "],
            f"{tag}: outsider neighbour / isolated member",
        )
        full_check(m, tag + " outsider")

        # an edge whose far end is None
        m.join("d", d, None)
        m.join("u", None, d)
        m.join("d", None, d)
        check(
            plaintext.basic_render(m.uni, rfunc=lab).split("\n")[3]
            == "v3 -> nil, nil",
            f"{tag}: None ends",
        )
        check(
            plaintext.basic_render(m.uni).split("\n")[3]
            == repr(d) + " -> None, None",
            f"{tag}: None ends, repr",
        )
        full_check(m, tag + " none-ends")

        # retargeting, unlinking, leaving and re-entering the universe
        m.retarget(m.edges[2], 1, c)
        full_check(m, tag + " retarget")
        m.retarget(m.edges[0], 0, b)
        full_check(m, tag + " retarget loop")
        m.unlink(a, c)
        full_check(m, tag + " unlink")
        m.leave(a)
        full_check(m, tag + " leave")
        m.enter(a)
        full_check(m, tag + " re-enter")
        m.enter(a)
        full_check(m, tag + " re-enter twice")

        # a universe is a vertex: it can be a member of another universe and
        # have neighbours of its own
        inner = Universe(attributes={"i": 40})
        m.inc[id(inner)] = []
        m.all.append(inner)
        m.enter(inner)
        m.join("d", inner, a)
        m.join("u", b, inner)
        full_check(m, tag + " universe member")

        # vertex subclasses with their own repr
        nv = m.vertex(5, cls=NamedVertex)
        m.join("d", nv, nv)
        m.join("d", a, nv)
        check(
            plaintext.basic_render(m.uni).split("\n")[-1] == "<NV 5> -> <NV 5>",
            f"{tag}: subclass repr",
        )
        full_check(m, tag + " subclass")

    set_caching(False)


def scripted_return_types():
    """What rfunc returns is put through format(), right when it is returned."""
    m = Model()
    vs = [m.vertex(i) for i in range(4)]
    m.join("d", vs[0], vs[1])
    m.join("d", vs[0], vs[2])
    m.join("u", vs[2], vs[3])

    # ints, as in the docstring example
    check(
        plaintext.basic_render(m.uni, rfunc=lambda v: v.i)
        == "0 -> 1, 2\n1 -> \n2 -> 3\n3 -> 2",
        "rfunc returning ints",
    )
    # empty strings
    check(
        plaintext.basic_render(m.uni, rfunc=lambda v: "")
        == " -> , \n -> \n -> \n -> ",
        "rfunc returning empty strings",
    )
    # strings that contain the separators themselves
    check(
        plaintext.basic_render(m.uni, rfunc=lambda v: ", " if v.i else " -> ")
        == " ->  -> , , , \n,  -> \n,  -> , \n,  -> , ",
        "rfunc returning separators",
    )
    # None / tuples / floats
    check(
        plaintext.basic_render(m.uni, rfunc=lambda v: (v.i, None))
        .split("\n")[0]
        == "(0, None) -> (1, None), (2, None)",
        "rfunc returning tuples",
    )

    class Sub(str):
        def __str__(self):
            return "STR"

        def __format__(self, spec):
            return "FMT" + str.__str__(self)

    check(
        plaintext.basic_render(m.uni, rfunc=lambda v: Sub(v.i)).split("\n")[0]
        == "FMT0 -> FMT1, FMT2",
        "rfunc returning a str subclass with __format__",
    )

    class Sub2(str):
        def __str__(self):
            return "STR" + str.__str__(self)

    check(
        plaintext.basic_render(m.uni, rfunc=lambda v: Sub2(v.i)).split("\n")[0]
        == format(Sub2(0)) + " -> " + format(Sub2(1)) + ", " + format(Sub2(2)),
        "rfunc returning a str subclass with __str__",
    )
    res = plaintext.basic_render(m.uni, rfunc=lambda v: Sub2(v.i))
    check(type(res) is str, "result is an exact str")

    # an object that changes after it was handed over: the text shows the
    # state at the time it was returned, and format comes right after the call
    log = []

    class Live:
        def __init__(self, v):
            self.v = v
            self.n = len(log)

        def __format__(self, spec):
            log.append(("f", self.v, spec))
            return f"{self.v.i}@{self.n}"

    def live(v):
        log.append(("r", v))
        return Live(v)

    got = plaintext.basic_render(m.uni, rfunc=live)
    check(
        got == "0@1 -> 1@3, 2@5\n1@7 -> \n2@9 -> 3@11\n3@13 -> 2@15",
        f"format happens right after each rfunc call: {got!r}",
    )
    want = []
    for v in [vs[0], vs[1], vs[2], vs[1], vs[2], vs[3], vs[3], vs[2]]:
        pass
    seq = [vs[0], vs[1], vs[2], vs[1], vs[2], vs[3], vs[3], vs[2]]
    for v in seq:
        want.append(("r", v))
        want.append(("f", v, ""))
    check(
        len(log) == len(want)
        and all(a[0] == b[0] and a[1] is b[1] for a, b in zip(log, want))
        and all(a[2] == "" for a in log if a[0] == "f"),
        "interleaving of rfunc and __format__ calls",
    )

    # __format__ returning a non-string is a TypeError from format()
    class BadFmt:
        def __format__(self, spec):
            return 5

    try:
        plaintext.basic_render(m.uni, rfunc=lambda v: BadFmt())
        check(False, "non-str __format__ accepted")
    except TypeError:
        check(True, "")

    # a repr that raises, on a neighbour only
    class Grumpy(Vertex):
        def __repr__(self):
            raise Boom("repr")

    g = m.vertex(7, member=False, cls=Grumpy)
    m.join("d", vs[3], g)
    try:
        plaintext.basic_render(m.uni)
        check(False, "raising repr swallowed")
    except Boom:
        check(True, "")
    check(
        plaintext.basic_render(m.uni, rfunc=lab).split("\n")[3] == "v3 -> v2, v7",
        "rfunc bypasses repr",
    )


def scripted_callables():
    """Falsy callables count as 'not given'; generators etc. as universes."""
    m = Model()
    vs = [m.vertex(i) for i in (3, 1, 2, 0)]
    m.join("d", vs[0], vs[1])
    m.join("d", vs[0], vs[3])
    m.join("u", vs[1], vs[2])

    class Quiet:
        """A callable that is falsy."""

        def __init__(self):
            self.calls = 0
            self.bools = 0

        def __bool__(self):
            self.bools += 1
            return False

        def __call__(self, v):
            self.calls += 1
            return "x"

    q1, q2 = Quiet(), Quiet()
    check(
        plaintext.basic_render(m.uni, rfunc=q1, sort=q2)
        == plaintext.basic_render(m.uni),
        "falsy callables are treated as absent",
    )
    check(q1.calls == 0 and q2.calls == 0, "falsy callables were called")
    # truthiness is looked at once per use (strict, order-of-evaluation check)
    n_nb = sum(len(m.forward(v)) for v in m.order)
    check(q1.bools == len(m.order) + n_nb, f"rfunc truthiness looked at {q1.bools}x")
    check(q2.bools == 1 + len(m.order), f"sort truthiness looked at {q2.bools}x")

    class Loud(Quiet):
        def __bool__(self):
            self.bools += 1
            return True

        def __call__(self, v):
            self.calls += 1
            return v.i

    l1, l2 = Loud(), Loud()
    check(
        plaintext.basic_render(m.uni, rfunc=l1, sort=l2)
        == "0 -> \n1 -> 2\n2 -> 1\n3 -> 0, 1",
        "truthy callable objects",
    )
    check(l1.calls == len(m.order) + n_nb, "rfunc call count")
    check(l2.calls == len(m.order) + n_nb, "sort call count")
    check(l1.bools == len(m.order) + n_nb, "rfunc truthiness count")
    check(l2.bools == 1 + len(m.order), "sort truthiness count")

    # a sort callback that becomes truthy half way (a memoising dict that is
    # also callable, filled by rfunc): the universe order was decided while it
    # was still empty, the neighbour order afterwards
    class Memo(dict):
        def __call__(self, v):
            return self[v]

    memo = Memo()

    def filling(v):
        for x in vs:
            memo[x] = x.i
        return v.i

    check(
        plaintext.basic_render(m.uni, rfunc=filling, sort=memo)
        == "3 -> 0, 1\n1 -> 2\n2 -> 1\n0 -> ",
        "sort truthiness is re-evaluated for every vertex",
    )

    # bound methods, builtins, partials
    check(
        plaintext.basic_render(m.uni, rfunc=id).split("\n")[3] == f"{id(vs[3])} -> ",
        "builtin as rfunc",
    )
    check(
        plaintext.basic_render(m.uni, rfunc=lab, sort=id)
        == Model.render(m, lab, id),
        "builtin as sort",
    )

    # the same function for both jobs
    rec = []

    def both(v):
        rec.append(v)
        return v.i

    check(
        plaintext.basic_render(m.uni, rfunc=both, sort=both)
        == "0 -> \n1 -> 2\n2 -> 1\n3 -> 0, 1",
        "same callable as rfunc and sort",
    )
    check(len(rec) == 2 * (len(m.order) + n_nb), "shared callable call count")

    # keys that cannot be compared: TypeError from sorted(), after all keys of
    # the universe were computed and before anything is rendered
    rec = Recorder()
    try:
        plaintext.basic_render(
            m.uni,
            rfunc=rec.rfunc,
            sort=lambda v: (rec.trace.append(("s", v)), object())[1],
        )
        check(False, "uncomparable keys accepted")
    except TypeError:
        check(
            same_trace(rec.trace, [("s", v) for v in m.order]),
            "uncomparable keys: what was called before",
        )

    # sort stability: all keys equal keeps universe / neighbors() order
    check(
        plaintext.basic_render(m.uni, rfunc=lab, sort=lambda v: 0)
        == plaintext.basic_render(m.uni, rfunc=lab),
        "stable sort",
    )

    # subclass of Universe whose ``vertices`` is looked at through the
    # documented attribute
    class Watched(Universe):
        looks = 0

        @property
        def vertices(self):
            type(self).looks += 1
            return super().vertices

    w = Watched()
    check(plaintext.basic_render(w) is None, "empty subclass universe")
    check(Watched.looks == 1, f"empty: vertices read {Watched.looks}x")
    Watched.looks = 0
    x = Vertex(attributes={"i": 1}, universes=[w])
    y = Vertex(attributes={"i": 0}, universes=[w])
    explicit.link_directed(x, y)
    base = Watched.looks
    check(
        plaintext.basic_render(w, rfunc=lab, sort=keyf) == "v1 -> v0\nv0 -> ",
        "subclass universe, equal keys keep order",
    )
    check(Watched.looks - base == 2, "vertices read twice per render")

    class TupleVerse(Universe):
        @property
        def vertices(self):
            return tuple(super().vertices)

    t = TupleVerse()
    check(plaintext.basic_render(t) is None, "empty tuple-universe")
    t.add_vertex(x)
    t.add_vertex(y)
    check(
        plaintext.basic_render(t, rfunc=lab) == "v1 -> v0\nv0 -> ",
        "tuple-universe",
    )

    # a universe whose membership reads differently the second time (say,
    # another thread emptied it): no vertex, no line, empty text
    class Fickle(Universe):
        answers = []

        @property
        def vertices(self):
            return type(self).answers.pop(0)

    Fickle.answers = [[x, y], []]
    check(plaintext.basic_render(Fickle(), rfunc=lab) == "", "emptied under way")
    Fickle.answers = [[x], [y, x]]
    check(
        plaintext.basic_render(Fickle(), rfunc=lab, sort=keyf) == "v0 -> \nv1 -> v0",
        "grown under way",
    )
    Fickle.answers = [[], [y, x]]
    check(plaintext.basic_render(Fickle(), rfunc=lab) is None, "empty at first look")

    # not a universe at all
    for bad in (None, 5, [x, y]):
        try:
            plaintext.basic_render(bad)
            check(False, f"{bad!r} accepted as a universe")
        except AttributeError:
            check(True, "")

    # keyword / positional forms
    check(
        plaintext.basic_render(m.uni, lab, keyf)
        == plaintext.basic_render(uni=m.uni, sort=keyf, rfunc=lab),
        "positional == keyword",
    )


def scripted_exceptions():
    """A callback that raises: same exception object, same calls before it."""
    for caching in (False, True):
        set_caching(caching)
        m = Model()
        vs = [m.vertex(i) for i in (4, 2, 5, 0, 1)]
        m.join("d", vs[0], vs[1])
        m.join("d", vs[0], vs[3])
        m.join("u", vs[1], vs[2])
        m.join("d", vs[2], vs[2])
        m.join("u", vs[4], vs[0])
        m.join("d", vs[3], vs[0])

        for use_r, use_s in ((True, False), (False, True), (True, True)):
            full = []
            model_text = m.render(
                lab if use_r else None, keyf if use_s else None, full
            )
            for exc_type in (Boom, StopIteration, KeyboardInterrupt, TypeError):
                for k in range(len(full)):
                    exc = exc_type(f"at {k}")
                    rec = Recorder(fail_at=k, exc=exc)
                    before = structure_snapshot(m)
                    try:
                        plaintext.basic_render(
                            m.uni,
                            rfunc=rec.rfunc if use_r else None,
                            sort=rec.sort if use_s else None,
                        )
                        check(False, f"exception at call {k} swallowed")
                    except BaseException as got:  # pylint: disable=broad-except
                        check(
                            got is exc,
                            f"{exc_type.__name__} at {k}: got {got!r}",
                        )
                    check(
                        same_trace(rec.trace, full[: k + 1]),
                        f"calls before the failure at {k} (r={use_r}, s={use_s})",
                    )
                    check(
                        structure_snapshot(m) == before,
                        "failed render changed the graph",
                    )
                # and afterwards everything still works
                rec = Recorder()
                check(
                    plaintext.basic_render(
                        m.uni,
                        rfunc=rec.rfunc if use_r else None,
                        sort=rec.sort if use_s else None,
                    )
                    == model_text,
                    "render after failures",
                )
    set_caching(False)


def scripted_cache_stats():
    """With caching on, one neighbors() lookup per rendered vertex."""
    set_caching(True)
    m = Model()
    vs = [m.vertex(i) for i in range(6)]
    for i in range(5):
        m.join("d", vs[i], vs[i + 1])
    m.join("u", vs[0], vs[5])

    s0 = stats()
    first = plaintext.basic_render(m.uni, rfunc=lab)
    s1 = stats()
    second = plaintext.basic_render(m.uni, rfunc=lab, sort=keyf)
    s2 = stats()
    check(first == m.render(lab, None), "cache: first render")
    check(second == m.render(lab, keyf), "cache: second render")
    check(
        (s1["Misses"] - s0["Misses"], s1["Insertions"] - s0["Insertions"])
        == (6, 6)
        and s1["Hits"] == s0["Hits"],
        "cold render: six misses, six insertions",
    )
    check(
        s2["Hits"] - s1["Hits"] == 6
        and s2["Misses"] == s1["Misses"]
        and s2["Insertions"] == s1["Insertions"],
        "warm render: six hits",
    )
    check(
        s2["Invalidations"] == s0["Invalidations"],
        "rendering never invalidates",
    )

    # a failing callback part-way: the vertices rendered so far were looked up
    rec = Recorder(fail_at=3, exc=Boom())
    m.join("d", vs[2], vs[0])  # invalidates v2 and v0
    s3 = stats()
    try:
        plaintext.basic_render(m.uni, rfunc=rec.rfunc)
    except Boom:
        pass
    s4 = stats()
    # trace: r(v0) [v0 miss] r(v1) r(v5) r(v1)<-fails before neighbors(v1)
    check(
        (s4["Misses"] - s3["Misses"], s4["Hits"] - s3["Hits"]) == (1, 0),
        f"lookups before a failure {s3} {s4}",
    )
    full_check(m, "cache after failure")

    # the sorted neighbour list must not leak into the cache
    set_caching(True)
    m2 = Model()
    a, b, c = m2.vertex(9), m2.vertex(5), m2.vertex(1)
    m2.join("d", a, b)
    m2.join("d", a, c)
    plaintext.basic_render(m2.uni, rfunc=lab, sort=lambda v: v.i)
    check(same_objs(helpers.neighbors(a), [b, c]), "cache keeps neighbors() order")
    check(
        plaintext.basic_render(m2.uni, rfunc=lab) == "v9 -> v5, v1\nv5 -> \nv1 -> ",
        "unsorted render after a sorted one",
    )
    set_caching(False)
    check(stats() is None, "stats while disabled")
    full_check(m, "cache switched off again")


def scripted_pickle():
    """Rendering survives pickling round trips (both picklers, cache on/off)."""
    for caching in (False, True):
        set_caching(caching)
        m = Model()
        vs = [m.vertex(i) for i in range(5)]
        m.join("d", vs[0], vs[1])
        m.join("u", vs[1], vs[2])
        m.join("d", vs[3], vs[3])
        m.join("d", vs[4], vs[0])
        m.join("d", vs[0], vs[4])
        want = m.render(lab, keyf)
        check(plaintext.basic_render(m.uni, lab, keyf) == want, "pre-pickle")
        for dumper in (pickle.dumps, nrpickler.dumps):
            clone = pickle.loads(dumper(m.uni))
            check(
                plaintext.basic_render(clone, lab, keyf) == want,
                f"{dumper.__module__} round trip, cache={caching}",
            )
            check(
                plaintext.basic_render(clone, lab) == m.render(lab, None),
                f"{dumper.__module__} round trip unsorted, cache={caching}",
            )
            # and the clone is still a live graph
            explicit.link_directed(clone.vertices[2], clone.vertices[3])
            check(
                plaintext.basic_render(clone, lab).split("\n")[2] == "v2 -> v1, v3",
                "clone can be extended",
            )
        check(plaintext.basic_render(m.uni, lab, keyf) == want, "original intact")
    set_caching(False)


def scripted_builders():
    """Graphs made by the builders render as their adjacency says."""
    adj = {0: [1, 2, 0], 1: [], 2: [1, 1], 3: [0]}
    verts = {k: Vertex(attributes={"i": k}) for k in adj}
    uni = adjlist.load_adj_dict(
        {verts[k]: [verts[x] for x in val] for k, val in adj.items()},
        DirectedEdge,
    )
    got = plaintext.basic_render(uni, rfunc=lambda v: v.i, sort=lambda v: v.i)
    want = "\n".join(
        f"{k} -> " + ", ".join(str(x) for x in sorted(adj[k])) for k in sorted(adj)
    )
    check(got == want, f"adjacency list render: {got!r} vs {want!r}")


###############################################################################
# helpers.neighbors, which the rendering rests upon


def neighbors_case(m, v, ds, uh, filt_kind, tag):
    """One call of helpers.neighbors against the oracle."""
    lib_trace, ora_trace = [], []

    def make(trace, fail_at):
        if filt_kind == "none":
            return None

        def filt(e, far):
            trace.append(("f", e, far))
            if fail_at is not None and len(trace) - 1 == fail_at:
                raise Boom("filter")
            if filt_kind == "even":
                return far is not None and far.i % 2 == 0
            if filt_kind == "falsy":
                return 0 if (far is None or far.i % 3) else "yes"
            return True

        return filt

    fail_at = 1 if filt_kind == "raise" else None
    ora_f = make(ora_trace, fail_at)
    try:
        want = ("ok", m.neighbors(v, ds, uh, ora_f))
    except (ValueError, NotImplementedError, Boom) as exc:
        want = ("exc", type(exc), str(exc))

    lib_f = make(lib_trace, fail_at)
    kwargs = {}
    try:
        res = helpers.neighbors(
            v, direction_sensitive=ds, unknown_handling=uh, filterfunc=lib_f
        )
        got = ("ok", res)
    except (ValueError, NotImplementedError, Boom) as exc:
        got = ("exc", type(exc), str(exc))

    if want[0] == "ok":
        check(
            got[0] == "ok" and type(got[1]) is list and same_objs(got[1], want[1]),
            f"{tag}: neighbors(ds={ds!r}, uh={uh!r}, f={filt_kind}) "
            f"got={got} want={want}",
        )
    else:
        check(got == want, f"{tag}: neighbors error got={got} want={want}")
    check(same_trace(lib_trace, ora_trace), f"{tag}: filterfunc trace")
    return got


DS_VALUES = [
    helpers.DIR_SENS_FORWARD,
    helpers.DIR_SENS_ANY,
    helpers.DIR_SENS_BACKWARD,
    3,
    -1,
    True,
    False,
    2.0,
    None,
    "0",
]
UH_VALUES = [
    helpers.LNK_UNKNOWN_NONNEIGHBOR,
    helpers.LNK_UNKNOWN_NEIGHBOR,
    helpers.LNK_UNKNOWN_ERROR,
    7,
    None,
    True,
]
FILTERS = ["none", "even", "falsy", "all", "raise"]


def scripted_neighbors():
    for caching in (False, True):
        set_caching(caching)
        tag = f"nb[cache={caching}]"
        m = Model()
        a, b, c, d = (m.vertex(i) for i in range(4))
        lonely = m.vertex(8)
        m.join("d", a, b)
        m.join("d", c, a)
        m.join("u", a, d)
        m.join("u", d, a)
        m.join("d", a, a)
        m.join("u", a, a)
        m.join("x", a, c)
        m.join("x", b, a)
        m.join("d", a, None)
        m.join("d", None, a)
        m.join("u", None, a)
        m.join("x", d, d)

        for v in m.order:
            for ds in DS_VALUES:
                for uh in UH_VALUES:
                    for fk in FILTERS:
                        # twice: the second one may come from the cache
                        neighbors_case(m, v, ds, uh, fk, tag)
                        neighbors_case(m, v, ds, uh, fk, tag + " again")

        # a vertex without links accepts anything (nothing is looked at)
        check(
            helpers.neighbors(lonely, direction_sensitive="bogus") == [],
            f"{tag}: no links, bogus direction",
        )

        # defaults are forward / error / no filter
        try:
            helpers.neighbors(a)
            check(False, f"{tag}: unknown link class accepted by default")
        except NotImplementedError as exc:
            check(
                str(exc) == f"Unknown link class {OddLink}", f"{tag}: message {exc}"
            )
        check(
            same_objs(helpers.neighbors(b, helpers.DIR_SENS_FORWARD, 0), []),
            f"{tag}: positional arguments",
        )
        check(
            same_objs(helpers.neighbors(b, helpers.DIR_SENS_ANY), [a, a]),
            f"{tag}: any direction follows everything",
        )

        # the caller owns the list it gets
        m2 = Model()
        p, q, r = (m2.vertex(i) for i in range(3))
        m2.join("d", p, q)
        m2.join("d", p, r)
        one = helpers.neighbors(p)
        one.append("junk")
        one.reverse()
        two = helpers.neighbors(p)
        check(same_objs(two, [q, r]) and two is not one, f"{tag}: list ownership")
        three = helpers.neighbors(p)
        check(three is not two and same_objs(three, [q, r]), f"{tag}: fresh lists")

        # class claiming both kinds is read as undirected
        bw = explicit.link_from_to(q, BothWays, p)
        check(same_objs(helpers.neighbors(p), [q, r, q]), f"{tag}: both-ways link")
        check(
            same_objs(helpers.neighbors(q), [p]), f"{tag}: both-ways link, far side"
        )
        check(
            same_objs(helpers.neighbors(p, helpers.DIR_SENS_BACKWARD), [q]),
            f"{tag}: both-ways link, backward",
        )
        del bw

        # a directed edge that lists the vertex in third place only: neither
        # its origin nor its destination -> handled as 'unknown'
        s, t, u = Vertex(), Vertex(), Vertex()
        e3 = explicit.link_directed(s, t)
        u.add_to_link(e3)
        check(same_objs(list(e3.vertices), [s, t, u]), f"{tag}: three-vertex edge")
        for ds in (helpers.DIR_SENS_FORWARD, helpers.DIR_SENS_BACKWARD):
            try:
                helpers.neighbors(u, ds)
                check(False, f"{tag}: third-place vertex accepted")
            except NotImplementedError as exc:
                check(
                    str(exc) == f"Unknown link class {DirectedEdge}",
                    f"{tag}: third-place message",
                )
            check(
                helpers.neighbors(u, ds, helpers.LNK_UNKNOWN_NEIGHBOR) == [None],
                f"{tag}: third-place as neighbour",
            )
            check(
                helpers.neighbors(u, ds, helpers.LNK_UNKNOWN_NONNEIGHBOR) == [],
                f"{tag}: third-place as non-neighbour",
            )
        check(
            helpers.neighbors(u, helpers.DIR_SENS_ANY) == [None],
            f"{tag}: third-place, any direction",
        )
        check(same_objs(helpers.neighbors(s), [t]), f"{tag}: three-vertex origin")

        # a link class without other(): AttributeError before anything else
        k1, k2 = Vertex(), Vertex()
        BareLink(vertices=[k1, k2])
        for ds in DS_VALUES:
            try:
                helpers.neighbors(k1, ds, helpers.LNK_UNKNOWN_NONNEIGHBOR)
                check(False, f"{tag}: bare link accepted")
            except AttributeError:
                check(True, "")

        # a half-dismantled edge: IndexError out of other()
        h1, h2 = Vertex(), Vertex()
        he = explicit.link_directed(h1, h2)
        he.unlink_from(h2)
        h1.add_to_link(he)
        try:
            helpers.neighbors(h1, helpers.DIR_SENS_ANY)
            check(False, f"{tag}: one-ended edge accepted")
        except IndexError:
            check(True, "")

        # with caching on: statistics of a failing and a succeeding lookup
        if caching:
            z1, z2 = Vertex(attributes={"i": 1}), Vertex(attributes={"i": 2})
            explicit.link_directed(z1, z2)
            explicit.link_directed(z1, z1)

            def bad(e, far):
                raise Boom()

            s0 = stats()
            for _ in range(2):
                try:
                    helpers.neighbors(z1, filterfunc=bad)
                except Boom:
                    pass
            s1 = stats()
            check(
                s1["Misses"] - s0["Misses"] == 2
                and s1["Insertions"] == s0["Insertions"]
                and s1["Hits"] == s0["Hits"],
                f"{tag}: failed lookups are not cached",
            )
            helpers.neighbors(z1)
            helpers.neighbors(z1)
            helpers.neighbors(z1, helpers.DIR_SENS_FORWARD)
            helpers.neighbors(z1, helpers.DIR_SENS_ANY)
            s2 = stats()
            check(
                (
                    s2["Misses"] - s1["Misses"],
                    s2["Insertions"] - s1["Insertions"],
                    s2["Hits"] - s1["Hits"],
                )
                == (2, 2, 2),
                f"{tag}: cache keyed by the arguments {s1} {s2}",
            )
            # unhashable filterfunc -> TypeError from the cache lookup
            class Unhashable:
                __hash__ = None

                def __call__(self, e, far):
                    return True

            try:
                helpers.neighbors(z1, filterfunc=Unhashable())
                check(False, f"{tag}: unhashable filter accepted while caching")
            except TypeError:
                check(True, "")
        else:

            class Unhashable:
                __hash__ = None

                def __call__(self, e, far):
                    return True

            z1, z2 = Vertex(), Vertex()
            explicit.link_directed(z1, z2)
            check(
                same_objs(helpers.neighbors(z1, filterfunc=Unhashable()), [z2]),
                f"{tag}: unhashable filter without caching",
            )
    set_caching(False)


def scripted_neighbors_strict():
    """
    Order-of-evaluation checks on helpers.neighbors (caching off): how often
    and in which order the ends of a directed edge and the direction argument
    are looked at.  Stricter than the documentation, but it is what callers
    with instrumented subclasses can see.
    """
    set_caching(False)
    reads = []

    class Spy(DirectedEdge):
        @property
        def v1(self):
            reads.append("v1")
            return DirectedEdge.v1.fget(self)

        @v1.setter
        def v1(self, new):
            DirectedEdge.v1.fset(self, new)

        @property
        def v2(self):
            reads.append("v2")
            return DirectedEdge.v2.fget(self)

        @v2.setter
        def v2(self, new):
            DirectedEdge.v2.fset(self, new)

    a, b, c = Vertex(), Vertex(), Vertex()
    spy = Spy(a, b)
    c.add_to_link(spy)
    table = [
        (a, helpers.DIR_SENS_FORWARD, ["v1", "v2", "v1"], [b]),
        (b, helpers.DIR_SENS_FORWARD, ["v1", "v2", "v1", "v1", "v2"], []),
        (a, helpers.DIR_SENS_BACKWARD, ["v1", "v2", "v2", "v1"], []),
        (b, helpers.DIR_SENS_BACKWARD, ["v1", "v2", "v1", "v2"], [a]),
        (a, helpers.DIR_SENS_ANY, ["v1", "v2"], [b]),
        (b, helpers.DIR_SENS_ANY, ["v1", "v2", "v1"], [a]),
        (c, helpers.DIR_SENS_ANY, ["v1", "v2"], [None]),
        (c, helpers.DIR_SENS_FORWARD, ["v1", "v2", "v1", "v2"], []),
        (c, helpers.DIR_SENS_BACKWARD, ["v1", "v2", "v2", "v1"], []),
    ]
    for vert, ds, want_reads, want in table:
        del reads[:]
        got = helpers.neighbors(vert, ds, helpers.LNK_UNKNOWN_NONNEIGHBOR)
        check(same_objs(got, want), f"spy edge result {ds} {want}")
        check(reads == want_reads, f"spy edge reads ds={ds}: {reads} vs {want_reads}")

    # the direction argument is compared once per link, to FORWARD, BACKWARD
    # and ANY in that order, and never when there is no link
    cmp_log = []

    class Dir:
        def __init__(self, val):
            self.val = val

        def __eq__(self, other):
            cmp_log.append(other)
            return self.val == other

        def __hash__(self):
            return hash(self.val)

    p, q = Vertex(), Vertex()
    explicit.link_directed(p, q)
    explicit.link_undirected(q, p)
    for val, per_link, want in (
        (0, [0], [q, q]),
        (2, [0, 2], [q]),
        (1, [0, 2, 1], [q, q]),
    ):
        del cmp_log[:]
        got = helpers.neighbors(p, Dir(val))
        check(same_objs(got, want), f"Dir({val}) result")
        check(cmp_log == per_link * 2, f"Dir({val}) comparisons {cmp_log}")
    del cmp_log[:]
    try:
        helpers.neighbors(p, Dir(9))
        check(False, "Dir(9) accepted")
    except ValueError:
        check(cmp_log == [0, 2, 1], f"Dir(9) comparisons {cmp_log}")
    del cmp_log[:]
    check(helpers.neighbors(Vertex(), Dir(9)) == [], "Dir(9) without links")
    check(cmp_log == [], "no link, no comparison")

    # same for unknown_handling: NONNEIGHBOR first, then NEIGHBOR; only for
    # links of an unknown class
    class Unk(Dir):
        pass

    r, s = Vertex(), Vertex()
    explicit.link_from_to(r, OddLink, s)
    explicit.link_directed(r, s)
    for val, want_cmp, want in ((0, [0], [s]), (1, [0, 1], [s, s])):
        del cmp_log[:]
        got = helpers.neighbors(r, helpers.DIR_SENS_FORWARD, Unk(val))
        check(same_objs(got, want), f"Unk({val}) result")
        check(cmp_log == want_cmp, f"Unk({val}) comparisons {cmp_log}")
    del cmp_log[:]
    try:
        helpers.neighbors(r, helpers.DIR_SENS_BACKWARD, Unk(2))
        check(False, "Unk(2) accepted")
    except NotImplementedError:
        check(cmp_log == [0, 1], f"Unk(2) comparisons {cmp_log}")
    del cmp_log[:]
    check(
        same_objs(helpers.neighbors(r, helpers.DIR_SENS_ANY, Unk(2)), [s, s]),
        "any direction never consults unknown_handling",
    )
    check(cmp_log == [], "any direction compared unknown_handling")

    # filterfunc is consulted only for links that are followed, with the far
    # end as second argument; its verdict is taken by truthiness
    seen = []
    x, y, z = (Vertex(attributes={"i": i}) for i in range(3))
    e1 = explicit.link_directed(x, y)
    e2 = explicit.link_directed(z, x)
    e3 = explicit.link_undirected(z, x)
    e4 = explicit.link_directed(x, x)

    def watch(e, far):
        seen.append((e, far))
        return [] if far is y else [0]

    for ds, want_seen, want in (
        (helpers.DIR_SENS_FORWARD, [(e1, y), (e3, z), (e4, x)], [z, x]),
        (helpers.DIR_SENS_BACKWARD, [(e2, z), (e3, z), (e4, x)], [z, z, x]),
        (helpers.DIR_SENS_ANY, [(e1, y), (e2, z), (e3, z), (e4, x)], [z, z, x]),
    ):
        del seen[:]
        got = helpers.neighbors(x, ds, filterfunc=watch)
        check(same_objs(got, want), f"watch result ds={ds}")
        check(
            len(seen) == len(want_seen)
            and all(a[0] is b[0] and a[1] is b[1] for a, b in zip(seen, want_seen)),
            f"watch calls ds={ds}",
        )


###############################################################################
# random differential part


def random_history(seed):
    rng = random.Random(seed)
    set_caching(rng.random() < 0.5)
    m = Model()
    tag = f"rand[{seed}]"
    n0 = rng.randrange(0, 7)
    for _ in range(n0):
        m.vertex(rng.randrange(0, 10), member=rng.random() < 0.85)
    full_check(m, tag + " start")

    steps = rng.randrange(5, 40)
    for step in range(steps):
        op = rng.random()
        verts = m.all
        if op < 0.12 or not verts:
            m.vertex(rng.randrange(0, 10), member=rng.random() < 0.8)
        elif op < 0.55:
            a = rng.choice(verts)
            b = rng.choice(verts) if rng.random() < 0.8 else a
            kind = "d" if rng.random() < 0.65 else "u"
            if rng.random() < 0.04:
                b = None
            elif rng.random() < 0.03:
                a, b = None, a
            m.join(kind, a, b)
        elif op < 0.68 and m.edges:
            e = rng.choice(m.edges)
            new = rng.choice(verts) if rng.random() < 0.95 else None
            m.retarget(e, rng.randrange(2), new)
        elif op < 0.76:
            a, b = rng.choice(verts), rng.choice(verts)
            m.unlink(a, b)
        elif op < 0.84 and m.order:
            m.leave(rng.choice(m.order))
        elif op < 0.92:
            m.enter(rng.choice(verts))
        else:
            set_caching(not Vertex.NEIGHBOR_CACHING)

        if rng.random() < 0.6:
            full_check(m, f"{tag} step {step}")

        if rng.random() < 0.3 and verts:
            v = rng.choice(verts)
            neighbors_case(
                m,
                v,
                rng.choice(DS_VALUES[:5]),
                rng.choice(UH_VALUES[:4]),
                rng.choice(FILTERS),
                tag,
            )
            check(
                same_objs(helpers.neighbors(v), m.forward(v)),
                f"{tag}: forward neighbours",
            )

        if rng.random() < 0.15 and m.order:
            # a callback failing at a random point
            use_r, use_s = rng.choice([(True, False), (False, True), (True, True)])
            full = []
            m.render(lab if use_r else None, keyf if use_s else None, full)
            if full:
                k = rng.randrange(len(full))
                exc = rng.choice([Boom, StopIteration, ValueError])("x")
                rec = Recorder(fail_at=k, exc=exc)
                try:
                    plaintext.basic_render(
                        m.uni,
                        rfunc=rec.rfunc if use_r else None,
                        sort=rec.sort if use_s else None,
                    )
                    check(False, f"{tag}: failure swallowed")
                except (Boom, StopIteration, ValueError) as got:
                    check(got is exc, f"{tag}: wrong exception {got!r}")
                check(same_trace(rec.trace, full[: k + 1]), f"{tag}: failing trace")

    # an odd link somewhere makes the default rendering fail, exactly when a
    # member vertex carrying it is reached
    if m.order and rng.random() < 0.5:
        victim = rng.choice(m.order)
        m.join("x", victim, rng.choice(m.all))
        rec = Recorder()
        try:
            plaintext.basic_render(m.uni, rfunc=rec.rfunc)
            check(False, f"{tag}: odd link rendered")
        except NotImplementedError as exc:
            check(str(exc) == f"Unknown link class {OddLink}", f"{tag}: odd message")
        want = []
        for v in m.order:
            want.append(("r", v))
            try:
                want.extend(("r", n) for n in m.forward(v))
            except NotImplementedError:
                break
        check(same_trace(rec.trace, want), f"{tag}: calls before the odd link")
    set_caching(False)


def main():
    scripted_render()
    scripted_return_types()
    scripted_callables()
    scripted_exceptions()
    scripted_cache_stats()
    scripted_pickle()
    scripted_builders()
    scripted_neighbors()
    scripted_neighbors_strict()
    for seed in range(400):
        random_history(seed)
    print(f"{CHECKS} checks, {len(FAILS)} failures")
    return 1 if FAILS else 0


if __name__ == "__main__":
    sys.exit(main())
