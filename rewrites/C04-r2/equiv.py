#!/usr/bin/env python3
"""
Equivalence check for rewrite 2 (C04): neighbors() together with the
quick-access neighbor cache it consults.  Passes on the unchanged tree and with
the rewrite applied.  Must be run in a fresh interpreter (the cache statistics
are process-wide).

Run:  cd /tmp/ref/C04 && PYTHONPATH=/tmp/ref/C04 /venv/bin/python equiv.py
"""

import copy
import itertools
import pickle
import re
import sys

from edgegraph.structure import (
    Vertex,
    Universe,
    DirectedEdge,
    UnDirectedEdge,
    TwoEndedLink,
)
from edgegraph.builder import explicit
from edgegraph.output import nrpickler, plantuml
from edgegraph.traversal import breadthfirst
from edgegraph.traversal.helpers import (
    neighbors,
    DIR_SENS_FORWARD,
    DIR_SENS_ANY,
    DIR_SENS_BACKWARD,
    LNK_UNKNOWN_NONNEIGHBOR,
    LNK_UNKNOWN_NEIGHBOR,
    LNK_UNKNOWN_ERROR,
)

FAILS = []


def check(cond, what):
    if not cond:
        FAILS.append(what)
        print("FAIL:", what)


class Other(TwoEndedLink):
    pass


class SubDir(DirectedEdge):
    pass


def same(a, b):
    if isinstance(a, type) or isinstance(b, type):
        return a is b
    return len(a) == len(b) and all(x is y for x, y in zip(a, b))


def run(*args, **kwargs):
    try:
        return neighbors(*args, **kwargs)
    except Exception as exc:  # pylint: disable=broad-except
        return type(exc)


def stats():
    """The five numbers of the public statistics report (or the text)."""
    text = Vertex.total_cache_stats()
    nums = re.findall(r"^(\w+):\s+(\d+)$", text, flags=re.M)
    return text, [int(n) for _, n in nums], [k for k, _ in nums]


def truth(vert, direction, unknown, filt):
    """What neighbors() says with the cache out of the way."""
    Vertex.NEIGHBOR_CACHING = False
    try:
        return run(vert, direction, unknown, filt)
    finally:
        Vertex.NEIGHBOR_CACHING = True


def selective(link, other):
    return other is not None and other.i % 2 == 0


def main():
    # ---------------------------------------------------------- disabled
    Vertex.NEIGHBOR_CACHING = False
    check(
        Vertex.total_cache_stats() == "Neighbor caching is DISABLED",
        "report while disabled",
    )

    # ---------------------------------------------------------- enabled
    Vertex.NEIGHBOR_CACHING = True
    text, nums, names = stats()
    check(
        names == ["Size", "Hits", "Misses", "Invalidations", "Insertions"],
        f"report layout: {text!r}",
    )
    check(text.splitlines()[0] == "=== CACHE STATISTICS OVERALL ===", "head")
    check(len(text.splitlines()) == 6 and not text.endswith("\n"), "6 lines")
    check(nums == [0, 0, 0, 0, 0], f"fresh process: all zero, got {nums}")

    vs = [Vertex(attributes={"i": i}) for i in range(5)]
    a, b, c, d, e = vs
    check(stats()[1] == [5, 0, 0, 0, 0], f"five rows: {stats()[1]}")

    DirectedEdge(a, b)
    SubDir(b, a)
    UnDirectedEdge(a, c)
    DirectedEdge(a, a)  # self loop: a is invalidated once per listing
    DirectedEdge(a, b)  # parallel
    Other(a, d)
    Other(e, a)
    UnDirectedEdge(d, None)
    inval_after_build = stats()[1][3]
    check(stats()[1][:3] == [5, 0, 0], "building neither hits nor misses")
    check(stats()[1][4] == 0, "building inserts nothing")

    combos = list(
        itertools.product(
            vs,
            (DIR_SENS_FORWARD, DIR_SENS_ANY, DIR_SENS_BACKWARD),
            (LNK_UNKNOWN_NONNEIGHBOR, LNK_UNKNOWN_NEIGHBOR, LNK_UNKNOWN_ERROR),
            (None, selective),
        )
    )
    expected = {}
    for i, (v, dr, un, fl) in enumerate(combos):
        expected[i] = truth(v, dr, un, fl)
    check(stats()[1][1:3] == [0, 0], "disabled calls are not counted")

    errors = sum(1 for r in expected.values() if isinstance(r, type))
    check(errors > 0, "some combinations raise")

    # round 1: all misses; answers that raise are not stored
    for i, (v, dr, un, fl) in enumerate(combos):
        check(same(run(v, dr, un, fl), expected[i]), f"round 1 #{i}")
    n = len(combos)
    check(
        stats()[1] == [5, 0, n, inval_after_build, n - errors],
        f"after round 1: {stats()[1]}",
    )

    # round 2: stored ones hit, raising ones miss again; answers are fresh
    # lists that the caller may spoil
    for i, (v, dr, un, fl) in enumerate(combos):
        got = run(v, dr, un, fl)
        check(same(got, expected[i]), f"round 2 #{i}")
        if not isinstance(got, type):
            got.append("spoiled")
            got.reverse()
    for i, (v, dr, un, fl) in enumerate(combos):
        check(same(run(v, dr, un, fl), expected[i]), f"round 3 #{i}")
    check(
        stats()[1]
        == [5, 2 * (n - errors), n + 2 * errors, inval_after_build, n - errors],
        f"after round 3: {stats()[1]}",
    )

    # equal-but-not-identical options share an answer (True == 1 == 1.0)
    h0 = stats()[1][1]
    check(same(neighbors(a, True, 1.0), neighbors(a, 1, 1)), "True/1.0 keys")
    check(stats()[1][1] == h0 + 2, "both were hits")

    # an unhashable filter cannot be looked up -- such a query is simply never
    # cached (since ffc7541; it was a TypeError before): the answer is the one
    # computed without the cache, and nothing is counted
    class Unhashable:
        __hash__ = None

        def __call__(self, link, other):
            return True

    before = stats()[1]
    for _ in range(2):
        check(
            same(
                run(a, filterfunc=Unhashable()),
                truth(a, DIR_SENS_FORWARD, LNK_UNKNOWN_ERROR, Unhashable()),
            ),
            "unhashable filter",
        )
        check(
            same(
                run(a, DIR_SENS_ANY, LNK_UNKNOWN_NEIGHBOR, Unhashable()),
                truth(a, DIR_SENS_ANY, LNK_UNKNOWN_NEIGHBOR, None),
            ),
            "unhashable filter, any direction",
        )
        check(run(a, [0]) is ValueError, "unhashable direction")
    check(stats()[1] == before, "uncacheable lookups leave the counters alone")
    Vertex.NEIGHBOR_CACHING = False
    check(
        same(run(a, DIR_SENS_ANY, 0, Unhashable()), truth(a, 1, 0, None)),
        "unhashable filter is fine without the cache",
    )
    Vertex.NEIGHBOR_CACHING = True

    # ---------------------------------------------- invalidation on change
    x, y, z = Vertex(), Vertex(), Vertex()
    check(neighbors(x) == [] and neighbors(x) == [], "lonely")
    edge = explicit.link_directed(x, y)
    check(same(neighbors(x), [y]), "sees new link")
    check(same(neighbors(y, DIR_SENS_BACKWARD), [x]), "other side")
    edge.v2 = z  # neither x nor the link list of x is touched directly
    check(same(neighbors(x), [z]), "end replaced: origin sees it")
    check(same(neighbors(y, DIR_SENS_BACKWARD), []), "old end sees it")
    check(same(neighbors(z, DIR_SENS_BACKWARD), [x]), "new end sees it")
    edge.v1 = z
    check(same(neighbors(z), [z]) and neighbors(x) == [], "became a loop")
    z.remove_from_link(edge)
    check(neighbors(z) == [] and neighbors(z, DIR_SENS_ANY) == [], "unlinked")

    # switched off, changed, switched on again: no stale answer comes back
    p, q = Vertex(), Vertex()
    check(neighbors(p) == [], "p alone")
    Vertex.NEIGHBOR_CACHING = False
    explicit.link_undirected(p, q)
    Vertex.NEIGHBOR_CACHING = True
    check(same(neighbors(p), [q]), "no stale answer after re-enabling")

    # a raising filter stores nothing
    def boom(link, other):
        raise StopIteration("boom")

    ins = stats()[1][4]
    check(run(p, filterfunc=boom) is StopIteration, "raising filter")
    check(run(p, filterfunc=boom) is StopIteration, "raising filter again")
    check(stats()[1][4] == ins, "nothing stored for a raising filter")

    # bad direction: stored (as []) only when there is no link to trip over
    lone = Vertex()
    check(run(lone, 99) == [] and run(lone, 99) == [], "bad direction, lone")
    check(run(p, 99) is ValueError, "bad direction, linked")

    # per-instance switch (BaseObject is a namespace)
    Vertex.NEIGHBOR_CACHING = False
    w1, w2 = Vertex(), Vertex(attributes={"NEIGHBOR_CACHING": True})
    UnDirectedEdge(w1, w2)
    m0 = stats_enabled()
    neighbors(w1), neighbors(w1), neighbors(w2), neighbors(w2)
    m1 = stats_enabled()
    check(
        [y_ - x_ for x_, y_ in zip(m0, m1)] == [0, 1, 1, 0, 1],
        f"only w2 takes part: {m0} -> {m1}",
    )
    Vertex.NEIGHBOR_CACHING = True

    # ---------------------------------------------------- copies / pickles
    s1, s2, s3 = Vertex(), Vertex(), Vertex()
    explicit.link_directed(s1, s2)
    check(same(neighbors(s1), [s2]), "s1 before copy")
    twin = copy.copy(s1)  # shares the internals of s1
    check(same(neighbors(twin), [s2]), "twin answers like s1")
    explicit.link_directed(s1, s3)
    check(same(neighbors(s1), [s2, s3]), "s1 after change")
    twin_now = neighbors(twin)
    # what the twin says is whatever the unchanged code says; what matters is
    # that it is one of the two sensible answers and stable
    check(
        same(twin_now, [s2]) or same(twin_now, [s2, s3]),
        "twin gives a sensible answer",
    )
    check(same(twin_now, [s2]), "twin keeps its own (older) answer")

    uni = Universe()
    g = [Vertex(universes=[uni], attributes={"i": i}) for i in range(4)]
    explicit.link_directed(g[0], g[1])
    explicit.link_directed(g[0], g[2])
    explicit.link_undirected(g[2], g[3])
    explicit.link_directed(g[3], g[3])
    for v in g:
        for dr in (0, 1, 2):
            neighbors(v, dr)
    for dumper in (pickle.dumps, nrpickler.dumps):
        uni2 = pickle.loads(dumper(uni))
        g2 = list(uni2.vertices)
        check([v.i for v in g2] == [0, 1, 2, 3], "loaded order")
        for dr in (0, 1, 2):
            for v, v2 in zip(g, g2):
                want = [t.i for t in neighbors(v, dr)]
                got = [t.i for t in neighbors(v2, dr)]
                check(want == got, f"loaded graph dir={dr} v{v.i}")
                check(
                    all(t in g2 for t in neighbors(v2, dr)),
                    "loaded neighbours belong to the loaded graph",
                )
        # loaded vertices keep working when their links change
        explicit.link_directed(g2[1], g2[3])
        check([t.i for t in neighbors(g2[1])] == [3], "loaded, then changed")

    check(
        [v.i for v in breadthfirst.bft(uni, g[0])] == [0, 1, 2, 3],
        "traversal through the cache",
    )

    # ------------------------------------------------ nothing new to see
    # the PlantUML renderer lists whatever dir() reports for a vertex
    src = plantuml.render_to_plantuml_src(uni, plantuml.PLANTUML_RENDER_OPTIONS)
    fields = re.findall(r"^\s+\{field\} (\w+) = ", src, flags=re.M)
    per_vertex = sorted({f for f in fields if not f.startswith("__")})
    check(
        per_vertex
        == sorted(
            [
                "NEIGHBOR_CACHING",
                "_CACHE_STATS",
                "_QA_NB_INVALID",
                "_Vertex__qa_nb_cache",
                "_links",
                "_qa_neighbors_get",
                "_qa_neighbors_insert",
                "_qa_neighbors_invalidate",
                "_qa_stats",
                "_uid",
                "_universes",
                "add_to_link",
                "add_to_universe",
                "i",
                "links",
                "remove_from_link",
                "remove_from_universe",
                "total_cache_stats",
                "uid",
                "universes",
            ]
        ),
        f"rendered fields: {per_vertex}",
    )
    check(
        list(vars(g[0]))
        == ["_uid", "i", "_universes", "_links", "_Vertex__qa_nb_cache"],
        f"instance state: {list(vars(g[0]))}",
    )
    row = re.search(r"\{field\} _CACHE_STATS = \{\d+: (\[[^\]]*\])", src)
    check(
        row is not None
        and re.fullmatch(r"\[\d+, \d+, \d+, \d+\]", row.group(1)) is not None,
        "statistics rows render as before",
    )
    cache_line = re.search(r"\{field\} _Vertex__qa_nb_cache = (.*)$", src, re.M)
    check(
        cache_line is not None
        and re.match(r"\{\((0|1|2), 2, None\): \[", cache_line.group(1)),
        f"cache renders as before: {cache_line and cache_line.group(1)[:60]}",
    )

    if FAILS:
        print(f"{len(FAILS)} check(s) failed")
        return 1
    print("equiv r2: all checks passed")
    return 0


def stats_enabled():
    """Read the report regardless of the class-wide switch."""
    saved = Vertex.NEIGHBOR_CACHING
    Vertex.NEIGHBOR_CACHING = True
    try:
        return stats()[1]
    finally:
        Vertex.NEIGHBOR_CACHING = saved


if __name__ == "__main__":
    sys.exit(main())
