#!/usr/bin/python3
# -*- coding: utf-8 -*-
"""
C18 equivalence program (rewrite 1: true-singleton registry moved / renamed).

Exercises TrueSingleton / clear_true_singleton through the PUBLIC API only, so
it must pass both on the unchanged tree and with the rewrite applied.
Exit status 0 = everything as expected.
"""

import gc
import inspect
import os
import pickle
import random
import subprocess
import sys
import weakref

from edgegraph.structure import singleton, vertex
from edgegraph.structure.singleton import TrueSingleton, clear_true_singleton

CHECKS = 0


def check(cond, msg):
    global CHECKS
    CHECKS += 1
    if not cond:
        print("FAIL:", msg)
        sys.exit(1)


# --------------------------------------------------------------------------
# module-level classes (picklable)
# --------------------------------------------------------------------------
class Rec(metaclass=TrueSingleton):
    inits = []

    def __init__(self, *args, **kwargs):
        type(self).inits.append((type(self), args, kwargs))
        self.args = args
        self.kwargs = kwargs


class RecSub(Rec):
    pass


class RecSubSub(RecSub):
    def __init__(self, *args, **kwargs):
        super().__init__(*args, **kwargs)
        self.extra = True


class Other(metaclass=TrueSingleton):
    inits = Rec.inits

    def __init__(self, *args, **kwargs):
        Rec.inits.append((type(self), args, kwargs))
        self.args = args
        self.kwargs = kwargs


class SingleTex(vertex.Vertex, metaclass=TrueSingleton):
    def __init__(self, i, *args, **kwargs):
        super().__init__(*args, **kwargs)
        self.i = i


# --------------------------------------------------------------------------
# 1. public surface
# --------------------------------------------------------------------------
def test_surface():
    public = sorted(n for n in dir(singleton) if not n.startswith("_"))
    for name in (
        "TrueSingleton",
        "clear_true_singleton",
        "semi_singleton_metaclass",
        "add_mapping",
        "drop_semi_singleton_mapping",
        "check_semi_singleton_entry_exists",
        "get_all_semi_singleton_instances",
        "clear_semi_singleton",
    ):
        check(name in public, f"public name {name} missing")
    check(issubclass(TrueSingleton, type), "TrueSingleton is not a metaclass")
    check(TrueSingleton.__mro__ == (TrueSingleton, type, object), "mro changed")
    check(
        [n for n in dir(TrueSingleton) if not n.startswith("_")]
        == [n for n in dir(type) if not n.startswith("_")],
        "TrueSingleton grew / lost public attributes",
    )
    sig = inspect.signature(clear_true_singleton)
    check(list(sig.parameters) == ["cls"], "clear_true_singleton params")
    check(sig.parameters["cls"].default is None, "clear default")
    check(clear_true_singleton() is None, "clear() returns None")
    check(clear_true_singleton(Rec) is None, "clear(cls) returns None")


# --------------------------------------------------------------------------
# 2. random interleavings against a tiny reference model
# --------------------------------------------------------------------------
def rand_args(rng):
    pool = [0, 1, -1, None, "", "x", (), (1, 2), 2.5, True, False]
    args = tuple(rng.choice(pool) for _ in range(rng.randrange(0, 4)))
    kwargs = {
        rng.choice("abcd"): rng.choice(pool) for _ in range(rng.randrange(0, 3))
    }
    return args, kwargs


def test_interleavings():
    classes = [Rec, RecSub, RecSubSub, Other]
    for seed in range(40):
        rng = random.Random(seed)
        clear_true_singleton()
        del Rec.inits[:]
        model = {}  # cls -> (instance, args, kwargs)
        dead = {c: [] for c in classes}  # former instances
        n_inits = 0
        for _ in range(120):
            roll = rng.random()
            cls = rng.choice(classes)
            if roll < 0.70:
                args, kwargs = rand_args(rng)
                obj = cls(*args, **kwargs)
                check(type(obj) is cls, "wrong type of instance")
                if cls in model:
                    inst, a, k = model[cls]
                    check(obj is inst, f"seed {seed}: not the same instance")
                else:
                    n_inits += 1
                    model[cls] = (obj, args, dict(kwargs))
                    check(
                        all(obj is not d for d in dead[cls]),
                        "instance resurrected after a clear",
                    )
                    check(
                        Rec.inits[-1] == (cls, args, kwargs),
                        "init did not run with the first call's arguments",
                    )
                inst, a, k = model[cls]
                check(obj.args == a and obj.kwargs == k, "args overwritten")
                check(len(Rec.inits) == n_inits, "init ran a wrong number of times")
                # distinct classes -> distinct instances
                others = [v[0] for c, v in model.items() if c is not cls]
                check(all(obj is not o for o in others), "instance shared")
            elif roll < 0.90:
                clear_true_singleton(cls)
                if cls in model:
                    dead[cls].append(model.pop(cls)[0])
            elif roll < 0.95:
                clear_true_singleton()
                for c in list(model):
                    dead[c].append(model.pop(c)[0])
            else:
                # clearing things that have no instance / are no singleton
                clear_true_singleton(rng.choice([int, "x", 3.5, object, (1,)]))
            # every live instance is still in place
            for c, (inst, a, k) in model.items():
                check(c(99, z=1) is inst, "untouched class lost its instance")
            check(len(Rec.inits) == n_inits, "probe constructions ran init")
    clear_true_singleton()


# --------------------------------------------------------------------------
# 3. unusual inputs
# --------------------------------------------------------------------------
def test_falsy_and_odd_arguments_to_clear():
    clear_true_singleton()
    a = Rec(1)
    b = Other(2)
    # falsy arguments mean "everything"
    for falsy in (None, 0, "", (), [], {}, 0.0, False):
        a = Rec(1)
        b = Other(2)
        clear_true_singleton(falsy)
        check(Rec(3) is not a, f"clear({falsy!r}) did not clear all")
        check(Other(4) is not b, f"clear({falsy!r}) did not clear all")
    # truthy hashable non-classes: harmless
    a, b = Rec(1), Other(2)
    for odd in (1, "Rec", (Rec,), 2.5, object(), int, type, TrueSingleton):
        clear_true_singleton(odd)
    check(Rec() is a and Other() is b, "odd clear removed something")
    # truthy unhashable: TypeError, nothing removed
    for unh in ([Rec], {Rec: 1}, {Rec}):
        try:
            clear_true_singleton(unh)
        except TypeError:
            pass
        else:
            check(False, "unhashable clear did not raise TypeError")
    check(Rec() is a and Other() is b, "failed clear removed something")
    clear_true_singleton()


def test_falsy_class():
    """A class whose metaclass makes it falsy: clear(cls) clears everything."""

    class FalsyMeta(TrueSingleton):
        def __bool__(cls):
            return False

    class LenMeta(TrueSingleton):
        def __len__(cls):
            return 0

    class F(metaclass=FalsyMeta):
        pass

    class L(metaclass=LenMeta):
        pass

    for weird in (F, L):
        clear_true_singleton()
        w, a = weird(), Rec(1)
        check(weird() is w, "falsy class is no singleton")
        clear_true_singleton(weird)
        check(weird() is not w, "falsy class not cleared")
        check(Rec(2) is not a, "clear(falsy class) must clear all")
    clear_true_singleton()


def test_falsy_instances():
    class Empty(metaclass=TrueSingleton):
        def __len__(self):
            return 0

    class No(metaclass=TrueSingleton):
        def __bool__(self):
            return False

        def __eq__(self, other):
            return False

        __hash__ = None

    class Liar(metaclass=TrueSingleton):
        def __eq__(self, other):
            return True

        def __hash__(self):
            return 0

    for cls in (Empty, No, Liar):
        first = cls()
        check(cls() is first and cls() is first, "falsy/odd instance re-made")
        clear_true_singleton(cls)
        check(cls() is not first, "falsy/odd instance not cleared")
    check(Liar() is not Empty(), "equal instances of distinct classes merged")
    clear_true_singleton()


def test_new_returning_none_or_foreign():
    calls = []

    class Nothing(metaclass=TrueSingleton):
        def __new__(cls, *a, **k):
            calls.append("new")
            return None

        def __init__(self, *a, **k):
            calls.append("init")

    check(Nothing(1) is None, "None from __new__ must be returned")
    check(Nothing(2) is None, "None from __new__ must be returned")
    check(calls == ["new"], f"a stored None must not be re-created: {calls}")
    clear_true_singleton(Nothing)
    check(Nothing() is None and calls == ["new", "new"], "clear of None entry")

    marker = object()

    class Foreign(metaclass=TrueSingleton):
        def __new__(cls):
            calls.append("foreign")
            return marker

    check(Foreign() is marker and Foreign() is marker, "foreign object")
    check(calls.count("foreign") == 1, "foreign __new__ re-run")
    clear_true_singleton()


def test_failing_constructor():
    class Boom(Exception):
        pass

    class Fragile(metaclass=TrueSingleton):
        fail = True
        inits = 0

        def __init__(self, tag):
            Fragile.inits += 1
            if Fragile.fail:
                raise Boom(tag)
            self.tag = tag

    keep = Rec("keep")
    for tag in ("a", "b"):
        try:
            Fragile(tag)
        except Boom as exc:
            check(exc.args == (tag,), "wrong exception payload")
        else:
            check(False, "constructor failure swallowed")
    check(Fragile.inits == 2, "failed construction must not be remembered")
    Fragile.fail = False
    ok = Fragile("c")
    check(ok.tag == "c" and Fragile.inits == 3, "retry after failure")
    Fragile.fail = True
    check(Fragile("d") is ok and Fragile.inits == 3, "cached after success")
    # bad signature -> TypeError, nothing stored
    try:
        Fragile()
    except TypeError:
        check(False, "existing instance must shadow the signature error")
    clear_true_singleton(Fragile)
    try:
        Fragile()
    except TypeError:
        pass
    else:
        check(False, "signature error expected")
    check(Rec() is keep, "failure disturbed another class")
    clear_true_singleton()


def test_reentrancy():
    # __init__ constructs its own class once more: the OUTER object wins
    class Nest(metaclass=TrueSingleton):
        depth = 0
        made = []

        def __init__(self):
            Nest.made.append(self)
            if Nest.depth == 0:
                Nest.depth += 1
                self.inner = Nest()

    outer = Nest()
    check(len(Nest.made) == 2, "nested construction count")
    check(outer is Nest.made[0], "outer call must return its own object")
    check(outer.inner is Nest.made[1], "inner call returns the inner object")
    check(Nest() is outer, "the outer object stays registered")
    check(len(Nest.made) == 2, "no further construction")

    # __init__ clears everything: the new object is still registered after
    class Wiper(metaclass=TrueSingleton):
        def __init__(self, what):
            clear_true_singleton(what)

    clear_true_singleton()
    r = Rec(1)
    w = Wiper(None)
    check(Wiper(Rec) is w, "object built while clearing all must be kept")
    check(Rec(2) is not r, "clear from inside __init__ had no effect")
    clear_true_singleton()
    r = Rec(1)
    w2 = Wiper(Wiper)
    check(w2 is not w and Wiper(None) is w2, "self-clear inside __init__")
    check(Rec(2) is r, "targeted clear inside __init__ hit another class")

    # __del__ of a dropped instance constructs again
    class Phoenix(metaclass=TrueSingleton):
        log = []

        def __init__(self, again):
            self.again = again

        def __del__(self):
            if self.again:
                Phoenix.log.append(Phoenix(False))

    Phoenix(True)
    clear_true_singleton(Phoenix)
    gc.collect()
    check(len(Phoenix.log) == 1, "__del__ did not run on targeted clear")
    check(Phoenix(True) is Phoenix.log[0], "object made in __del__ is live")
    # (the same game with clear-all is deliberately NOT played: on the
    # unchanged code CPython 3.12 crashes there -- the attribute cache of the
    # metaclass still points at the dict that is being torn down)
    del Phoenix.log[:]
    clear_true_singleton(Phoenix)
    clear_true_singleton()


def test_lifetimes():
    clear_true_singleton()

    class Held(metaclass=TrueSingleton):
        pass

    ref = weakref.ref(Held())
    gc.collect()
    check(ref() is not None, "the instance must be held strongly")
    check(Held() is ref(), "unreferenced instance was re-made")
    clear_true_singleton(Held)
    gc.collect()
    check(ref() is None, "targeted clear must release the instance")
    ref = weakref.ref(Held())
    clear_true_singleton()
    gc.collect()
    check(ref() is None, "clear-all must release the instance")

    # a class with a live instance is kept alive, and released by clear
    def make():
        class Local(metaclass=TrueSingleton):
            pass

        Local()
        return weakref.ref(Local)

    cref = make()
    gc.collect()
    check(cref() is not None, "class with live instance must stay alive")
    inst = cref()()
    check(cref()() is inst, "kept-alive class lost its instance")
    del inst
    clear_true_singleton()
    gc.collect()
    check(cref() is None, "clear-all must release the class")
    cref = make()
    clear_true_singleton(cref())
    gc.collect()
    check(cref() is None, "targeted clear must release the class")


def test_sub_metaclass_and_multiple_bases():
    class Meta2(TrueSingleton):
        made = 0

        def __call__(cls, *a, **k):
            Meta2.made += 1
            return super().__call__(*a, **k)

    class M(metaclass=Meta2):
        def __init__(self, v=None):
            self.v = v

    class Plain:
        pass

    class Mixed(Plain, Rec):
        pass

    clear_true_singleton()
    m = M(5)
    check(M(6) is m and m.v == 5 and Meta2.made == 2, "sub-metaclass")
    r = Rec(1)
    x = Mixed(2)
    check(type(x) is Mixed and x is not r and Mixed(3) is x, "mixed bases")
    check(x.args == (2,), "mixed bases args")
    clear_true_singleton(Rec)
    check(Mixed() is x and M() is m, "parent clear hit the subclass")
    check(Rec(7) is not r, "parent not cleared")
    clear_true_singleton(Mixed)
    check(Mixed(8) is not x and Mixed().args == (8,), "subclass clear")
    clear_true_singleton()
    check(M(9) is not m and M().v == 9, "clear-all with sub-metaclass")
    clear_true_singleton()


def test_pickling():
    clear_true_singleton()
    r1 = Rec(1, k=2)
    for proto in range(pickle.HIGHEST_PROTOCOL + 1):
        data = pickle.dumps([r1, Rec(5)], protocol=proto)
        back = pickle.loads(data)
        check(back[0] is back[1], "pickle memo broken")
        check(back[0] is not r1, "unpickling must not go through the registry")
        check(type(back[0]) is Rec, "unpickled type")
        check(vars(back[0]) == {"args": (1,), "kwargs": {"k": 2}}, "state")
        check(Rec() is r1, "unpickling replaced the live instance")
    clear_true_singleton(Rec)
    back = pickle.loads(data)
    check(Rec(3) is not back[0], "unpickling registered an instance")
    st = SingleTex(1)
    st2 = SingleTex(2)
    check(st is st2 and st.i == 1, "vertex singleton")
    # (plain pickle: dill-based nrpickler would pickle a __main__ class by
    # value, which is a different and very slow story)
    back = pickle.loads(pickle.dumps([st, st2]))
    check(back[0] is back[1] and back[0] is not st and back[0].i == 1, "vpickle")
    check(sorted(vars(back[0])) == sorted(vars(st)), "pickled attribute set")
    check(
        not any("ingleton" in k for k in vars(st)),
        "singleton bookkeeping leaked into the instance",
    )
    check(
        not any("ingleton" in k for k in vars(SingleTex)),
        "singleton bookkeeping leaked into the user's class namespace",
    )
    clear_true_singleton()


FRESH = r"""
from edgegraph.structure import singleton
class A(metaclass=singleton.TrueSingleton):
    def __init__(self, *a, **k): self.a, self.k = a, k
class B(A): pass
singleton.clear_true_singleton(A)      # nothing there yet
singleton.clear_true_singleton()       # nothing there yet
a, b = A(1, x=2), B(3)
assert A() is a and B(9, y=1) is b and a is not b
assert (a.a, a.k, b.a, b.k) == ((1,), {"x": 2}, (3,), {})
singleton.clear_true_singleton(A)
assert B() is b and A(4) is not a and A().a == (4,)
singleton.clear_true_singleton()
assert B(5) is not b and B().a == (5,)
print("fresh-ok")
"""


def test_fresh_interpreter():
    env = dict(os.environ)
    out = subprocess.run(
        [sys.executable, "-c", FRESH], env=env, capture_output=True, text=True
    )
    check(out.returncode == 0, f"fresh interpreter failed: {out.stderr}")
    check(out.stdout.strip() == "fresh-ok", "fresh interpreter output")


def main():
    test_surface()
    test_interleavings()
    test_falsy_and_odd_arguments_to_clear()
    test_falsy_class()
    test_falsy_instances()
    test_new_returning_none_or_foreign()
    test_failing_constructor()
    test_reentrancy()
    test_lifetimes()
    test_sub_metaclass_and_multiple_bases()
    test_pickling()
    test_fresh_interpreter()
    print(f"equiv OK ({CHECKS} checks) on {singleton.__file__}")
    return 0


if __name__ == "__main__":
    sys.exit(main())
