#!/usr/bin/env python3
"""
equiv.py for C05 / rewrite 1 (storage of the per-vertex neighbor cache and of
the cache statistics in edgegraph/structure/vertex.py).

Uses only the public API.  Exit status 0 = everything as expected.

  1. a scripted history whose exact ``Vertex.total_cache_stats()`` text is known
  2. a seeded random interleaving of mutations, flag toggles and queries; every
     answer obtained with caching enabled (first call = miss, second = hit) is
     compared with the answer recomputed with caching disabled and with an
     independent oracle written against ``links`` / ``vertices`` only
  3. corner cases: ownership of the returned list, equal-but-not-identical
     arguments, unhashable arguments, falsy vertices, None ends, self loops,
     vertices listed three times in a link, traversals / searches
  4. a graph pickled with a warm cache and loaded in a fresh interpreter
"""

import os
import pickle
import random
import subprocess
import sys
import tempfile

import edgegraph
from edgegraph.structure import (
    Vertex,
    Universe,
    DirectedEdge,
    UnDirectedEdge,
    TwoEndedLink,
)
from edgegraph.builder import explicit
from edgegraph.traversal import helpers, breadthfirst, depthfirst
from edgegraph.output import nrpickler

FWD, ANY, BWD = (
    helpers.DIR_SENS_FORWARD,
    helpers.DIR_SENS_ANY,
    helpers.DIR_SENS_BACKWARD,
)
U_NON, U_NB, U_ERR = (
    helpers.LNK_UNKNOWN_NONNEIGHBOR,
    helpers.LNK_UNKNOWN_NEIGHBOR,
    helpers.LNK_UNKNOWN_ERROR,
)

CHECKS = 0


def check(cond, msg):
    global CHECKS
    CHECKS += 1
    if not cond:
        print("FAIL:", msg)
        sys.exit(1)


class FalsyVertex(Vertex):
    """A vertex that is falsy and has length zero."""

    def __bool__(self):
        return False

    def __len__(self):
        return 0


class OddLink(TwoEndedLink):
    """A two-ended link of a class unknown to neighbors()."""


def ff_even(e, v2):
    return v2 is not None and v2.i % 2 == 0


def ff_directed(e, v2):
    return type(e) is DirectedEdge


def outcome(fn, *args, **kwargs):
    """Result of a call: ("ok", value) or ("exc", exception class)."""
    try:
        return ("ok", fn(*args, **kwargs))
    except Exception as exc:  # pylint: disable=broad-except
        return ("exc", type(exc))


def same(o1, o2):
    """Outcomes are equal; lists are compared element-wise by identity."""
    if o1[0] != o2[0]:
        return False
    if o1[0] == "exc":
        return o1[1] is o2[1]
    a, b = o1[1], o2[1]
    if isinstance(a, list) and isinstance(b, list):
        return (
            type(a) is type(b)
            and len(a) == len(b)
            and all(x is y for x, y in zip(a, b))
        )
    return a is b


def oracle(vert, ds, uh, ff):
    """neighbors() re-implemented from the documentation, public API only."""
    out = []
    for lnk in vert.links:
        ends = lnk.vertices
        if vert is ends[0]:
            other = ends[1]
        elif vert is ends[1]:
            other = ends[0]
        else:
            other = None
        if ds == ANY:
            role = "take"
        elif ds in (FWD, BWD):
            near, far = (0, 1) if ds == FWD else (1, 0)
            if isinstance(lnk, UnDirectedEdge):
                role = "take"
            elif isinstance(lnk, DirectedEdge) and ends[near] is vert:
                role = "take"
            elif isinstance(lnk, DirectedEdge) and ends[far] is vert:
                role = "skip"
            else:
                role = "unknown"
        else:
            raise ValueError("direction")
        if role == "unknown":
            if uh == U_NON:
                role = "skip"
            elif uh == U_NB:
                role = "take"
            else:
                raise NotImplementedError("unknown link")
        if role == "take" and (ff is None or ff(lnk, other)):
            out.append(other)
    return out


ARGSETS = [
    (ds, uh, ff)
    for ds in (FWD, ANY, BWD)
    for uh in (U_NON, U_NB, U_ERR)
    for ff in (None, ff_even, ff_directed)
]


def uncached(fn, *args, **kwargs):
    """Outcome of a call made with caching disabled (flag restored after)."""
    before = Vertex.NEIGHBOR_CACHING
    Vertex.NEIGHBOR_CACHING = False
    try:
        return outcome(fn, *args, **kwargs)
    finally:
        Vertex.NEIGHBOR_CACHING = before


def check_vertex(vert, tag):
    for ds, uh, ff in ARGSETS:
        want = outcome(oracle, vert, ds, uh, ff)
        plain = uncached(helpers.neighbors, vert, ds, uh, ff)
        first = outcome(helpers.neighbors, vert, ds, uh, ff)
        second = outcome(
            helpers.neighbors,
            vert,
            direction_sensitive=ds,
            unknown_handling=uh,
            filterfunc=ff,
        )
        where = f"{tag}: neighbors(v{vert.i}, {ds}, {uh}, {ff})"
        check(same(want, plain), f"{where}: uncached answer != oracle")
        check(same(plain, first), f"{where}: first answer != uncached")
        check(same(plain, second), f"{where}: second answer != uncached")
        if first[0] == "ok":
            check(first[1] is not second[1], f"{where}: list handed out twice")


def traversal_outcomes(uni, start):
    res = []
    for trav in (
        breadthfirst.bft,
        depthfirst.dft_recursive,
        depthfirst.dft_iterative,
    ):
        for ds in (FWD, ANY, BWD):
            res.append(
                outcome(
                    trav,
                    uni,
                    start,
                    direction_sensitive=ds,
                    unknown_handling=U_NON,
                )
            )
        res.append(
            outcome(trav, uni, start, unknown_handling=U_NB, ff_via=ff_even)
        )
    for srch in (
        breadthfirst.bfs,
        depthfirst.dfs_recursive,
        depthfirst.dfs_iterative,
    ):
        for val in (3, 6, 99):
            res.append(outcome(srch, uni, start, "i", val))
    return res


# --------------------------------------------------------------------------
# 1. scripted history with known statistics (must run first: "Size" counts
#    every vertex and universe created in this process so far)
# --------------------------------------------------------------------------
def part_stats():
    Vertex.NEIGHBOR_CACHING = False
    check(
        Vertex.total_cache_stats() == "Neighbor caching is DISABLED",
        "stats text while disabled",
    )
    a, b, c = Vertex(attributes={"i": 0}), Vertex(uid=77), Vertex(uid="seven")
    e1 = explicit.link_directed(a, b)  # not counted: caching is off
    Vertex.NEIGHBOR_CACHING = True
    check(helpers.neighbors(a) == [b], "stats: a -> b")  # miss + insert
    check(helpers.neighbors(a) == [b], "stats: a -> b again")  # hit
    check(helpers.neighbors(a, FWD) == [b], "stats: a -> b positional")  # hit
    check(helpers.neighbors(a, 0.0, 2.0) == [b], "stats: equal key")  # hit
    check(helpers.neighbors(b, BWD) == [a], "stats: b <- a")  # miss + insert
    e2 = explicit.link_undirected(a, c)  # invalidations
    check(helpers.neighbors(a) == [b, c], "stats: a -> b, c")  # miss + insert
    e1.v2 = c  # invalidations
    check(helpers.neighbors(a) == [c, c], "stats: a -> c, c")  # miss + insert
    check(helpers.neighbors(c, ANY) == [a, a], "stats: c any")  # miss + insert
    explicit.unlink(a, c)
    check(helpers.neighbors(a) == [], "stats: a isolated")  # miss + insert
    check(helpers.neighbors(a) == [], "stats: a isolated again")  # hit
    text = Vertex.total_cache_stats()
    expected = STATS_EXPECTED
    check(text == expected, f"stats text:\n{text}\n-- expected:\n{expected}")
    check(isinstance(text, str), "stats type")
    Vertex.NEIGHBOR_CACHING = False
    check(
        Vertex.total_cache_stats() == "Neighbor caching is DISABLED",
        "stats text while disabled (2)",
    )
    del e2


STATS_EXPECTED = """=== CACHE STATISTICS OVERALL ===
Size:          3
Hits:          4
Misses:        6
Invalidations: 21
Insertions:    6"""


# --------------------------------------------------------------------------
# 2. random interleaving
# --------------------------------------------------------------------------
def part_random(seed, steps):
    rnd = random.Random(seed)
    Vertex.NEIGHBOR_CACHING = rnd.random() < 0.5
    inner = Universe()
    outer = Universe()
    outer.add_vertex(inner)  # nested universes
    verts = []
    for i in range(7):
        cls = FalsyVertex if i in (2, 5) else Vertex
        v = cls(attributes={"i": i}, universes=[outer] if i % 2 else [inner, outer])
        verts.append(v)
    links = []

    def pick():
        return rnd.choice(verts)

    for step in range(steps):
        op = rnd.randrange(13)
        tag = f"seed {seed} step {step} op {op}"
        if op == 0:
            links.append(explicit.link_directed(pick(), pick()))
        elif op == 1:
            links.append(explicit.link_undirected(pick(), pick()))
        elif op == 2:
            v = pick()
            links.append(explicit.link_from_to(v, OddLink, pick()))
        elif op == 3:
            # (these two look at existing links and fail on one-ended ones)
            made = outcome(explicit.link_directed, pick(), pick(), dontdup=True)
            if made[0] == "ok" and made[1] not in links:
                links.append(made[1])
        elif op == 4:
            outcome(explicit.unlink, pick(), pick())
        elif op == 5 and links:
            lnk = rnd.choice(links)
            outcome(setattr, lnk, "v1", rnd.choice(verts + [None]))
        elif op == 6 and links:
            lnk = rnd.choice(links)
            outcome(setattr, lnk, "v2", rnd.choice(verts + [None]))
        elif op == 7 and links:
            rnd.choice(links).unlink_from(pick())
        elif op == 8 and links:
            pick().remove_from_link(rnd.choice(links))
        elif op == 9 and links and rnd.random() < 0.3:
            # may list a third vertex in a two-ended link
            pick().add_to_link(rnd.choice(links))
        elif op == 10:
            Vertex.NEIGHBOR_CACHING = not Vertex.NEIGHBOR_CACHING
        elif op == 11:
            cls = rnd.choice([DirectedEdge, UnDirectedEdge])
            links.append(cls(pick(), None))
        elif op == 12:
            v = pick()
            links.append(DirectedEdge(v, v))  # self loop

        # queries; some with caching in its current state, then all enabled
        v = pick()
        cur = outcome(helpers.neighbors, v, ANY)
        check(same(cur, outcome(oracle, v, ANY, U_ERR, None)), f"{tag}: any")
        flag = Vertex.NEIGHBOR_CACHING
        Vertex.NEIGHBOR_CACHING = True
        for v in verts:
            check_vertex(v, tag)
        start = pick()
        for uni in (outer, inner, None):
            cached_res = traversal_outcomes(uni, start)
            plain_res = uncached(traversal_outcomes, uni, start)[1]
            check(
                len(cached_res) == len(plain_res)
                and all(same(x, y) for x, y in zip(cached_res, plain_res)),
                f"{tag}: traversals / searches from v{start.i} differ",
            )
        Vertex.NEIGHBOR_CACHING = flag


# --------------------------------------------------------------------------
# 3. corner cases
# --------------------------------------------------------------------------
def part_corners():
    Vertex.NEIGHBOR_CACHING = True
    a, b, c = (Vertex(attributes={"i": i}) for i in range(3))
    explicit.link_directed(a, b)
    explicit.link_undirected(a, c)

    # the caller owns the returned list
    got = helpers.neighbors(a)
    got.append("junk")
    got.reverse()
    again = helpers.neighbors(a)
    check(again == [b, c] and again is not got, "mutating a result leaks")
    again.clear()
    check(helpers.neighbors(a) == [b, c], "clearing a cached result leaks")

    # equal-but-not-identical arguments share answers; all agree with uncached
    for ds in (0, False, 0.0, 1, True, 1.0, 2, 2.0):
        for uh in (2, 2.0, 1, True):
            plain = uncached(helpers.neighbors, a, ds, uh)
            check(same(plain, outcome(helpers.neighbors, a, ds, uh)), "eq key 1")
            check(same(plain, outcome(helpers.neighbors, a, ds, uh)), "eq key 2")

    # invalid direction: ValueError only when there is a link to look at
    lonely = Vertex(attributes={"i": 9})
    for flag in (True, False):
        Vertex.NEIGHBOR_CACHING = flag
        check(outcome(helpers.neighbors, a, 7) == ("exc", ValueError), "dir 7")
        check(outcome(helpers.neighbors, a, 7) == ("exc", ValueError), "dir 7b")
        check(helpers.neighbors(lonely, 7) == [], "dir 7 without links")
        check(helpers.neighbors(lonely, 7) == [], "dir 7 without links (2)")
    # unhashable arguments cannot be looked up when caching is enabled: such a
    # query is simply never cached (since ffc7541; a TypeError before that) and
    # leaves the statistics alone
    Vertex.NEIGHBOR_CACHING = True
    stats_before = Vertex.total_cache_stats()
    for _ in range(2):
        check(
            outcome(helpers.neighbors, a, [0]) == ("exc", ValueError),
            "unhashable",
        )
        check(helpers.neighbors(lonely, [0]) == [], "unhashable, no links")
    check(Vertex.total_cache_stats() == stats_before, "unhashable: not counted")
    Vertex.NEIGHBOR_CACHING = False
    check(outcome(helpers.neighbors, a, [0]) == ("exc", ValueError), "unhashable off")
    check(helpers.neighbors(lonely, [0]) == [], "unhashable off, no links")

    # a filter that raises leaves nothing behind
    Vertex.NEIGHBOR_CACHING = True
    calls = []

    def moody(e, v2):
        calls.append(v2)
        if len(calls) == 2:
            raise KeyError("moody")
        return True

    check(outcome(helpers.neighbors, a, ANY, U_ERR, moody) == ("exc", KeyError), "moody 1")
    check(helpers.neighbors(a, ANY, U_ERR, moody) == [b, c], "moody 2")
    check(helpers.neighbors(a, ANY, U_ERR, moody) == [b, c], "moody 3 (cached)")
    check(calls == [b, c, b, c], f"moody call log {calls}")

    # flag switched while answers are stored; mutation while disabled
    Vertex.NEIGHBOR_CACHING = True
    check(helpers.neighbors(b, BWD) == [a], "toggle 0")
    Vertex.NEIGHBOR_CACHING = False
    d = Vertex(attributes={"i": 3})
    e = explicit.link_directed(d, b)
    Vertex.NEIGHBOR_CACHING = True
    check(helpers.neighbors(b, BWD) == [a, d], "toggle 1: stale answer")
    Vertex.NEIGHBOR_CACHING = False
    e.v1 = c
    Vertex.NEIGHBOR_CACHING = True
    check(helpers.neighbors(b, BWD) == [a, c], "toggle 2: stale answer")
    check(helpers.neighbors(d, FWD) == [], "toggle 3: stale answer")
    check(helpers.neighbors(c, ANY) == [a, b], "toggle 4: stale answer")

    # per-instance and per-subclass flag
    class Quiet(Vertex):
        NEIGHBOR_CACHING = False

    q = Quiet(attributes={"i": 4})
    explicit.link_undirected(q, a)
    check(helpers.neighbors(q) == [a], "subclass flag 1")
    explicit.link_undirected(q, b)
    check(helpers.neighbors(q) == [a, b], "subclass flag 2")
    check(helpers.neighbors(a, ANY) == [b, c, q], "subclass flag 3")

    # vertices created with links= / a link built around existing vertices
    lnk = UnDirectedEdge()
    check(lnk.vertices == (None, None), "empty edge")
    f = Vertex(attributes={"i": 5}, links=[lnk])
    check(lnk.vertices == (None, None, f), "third vertex")
    check(
        outcome(helpers.neighbors, f) == ("ok", [None]),
        "third vertex of an undirected edge",
    )
    check(same(outcome(helpers.neighbors, f), uncached(helpers.neighbors, f)), "3rd")
    lnk.v1 = f
    check(lnk.vertices == (f, None, f), "first and third")
    check(helpers.neighbors(f) == [None], "first and third neighbors")
    lnk.v2 = a
    check(helpers.neighbors(f) == [a], "f -- a")
    check(helpers.neighbors(a, ANY) == [b, c, q, f], "a -- f")
    lnk.unlink_from(f)
    check(helpers.neighbors(f) == [] and lnk.vertices == (a,), "f unlinked")
    check(
        same(outcome(helpers.neighbors, a, ANY), uncached(helpers.neighbors, a, ANY)),
        "a after unlink of f",
    )
    Vertex.NEIGHBOR_CACHING = False


# --------------------------------------------------------------------------
# 4. pickle with a warm cache, load in a fresh interpreter
# --------------------------------------------------------------------------
CHILD = r"""
import pickle, sys
from edgegraph.structure import Vertex
from edgegraph.traversal import helpers, breadthfirst
from edgegraph.builder import explicit

flag = sys.argv[2] == "on"
Vertex.NEIGHBOR_CACHING = flag
with open(sys.argv[1], "rb") as fobj:
    uni = pickle.load(fobj)
verts = sorted((v for v in uni.vertices), key=lambda v: v.i)
out = []

def ask():
    for v in verts:
        for ds in (0, 1, 2):
            got = [None if n is None else n.i for n in helpers.neighbors(v, ds, 0)]
            Vertex.NEIGHBOR_CACHING = False
            plain = [None if n is None else n.i for n in helpers.neighbors(v, ds, 0)]
            Vertex.NEIGHBOR_CACHING = flag
            assert got == plain, (v.i, ds, got, plain)
            out.append((v.i, ds, got))
    out.append([v.i for v in breadthfirst.bft(uni, verts[0], unknown_handling=0)])

ask()
explicit.unlink(verts[0], verts[1])
explicit.link_directed(verts[3], verts[0])
verts[2].links[0].v2 = verts[4]
ask()
Vertex.NEIGHBOR_CACHING = not flag
flag = not flag
ask()
print(repr(out))
Vertex.NEIGHBOR_CACHING = True
print(Vertex.total_cache_stats())
"""


def part_pickle():
    results = {}
    for dump_flag in (True, False):
        Vertex.NEIGHBOR_CACHING = dump_flag
        uni = Universe()
        verts = [Vertex(attributes={"i": i}, universes=[uni]) for i in range(5)]
        explicit.link_directed(verts[0], verts[1])
        explicit.link_undirected(verts[0], verts[1])
        explicit.link_directed(verts[1], verts[2])
        explicit.link_directed(verts[2], verts[3])
        explicit.link_directed(verts[3], verts[3])
        explicit.link_from_to(verts[4], OddLink, verts[0])
        DirectedEdge(verts[4], None)
        # warm the cache (when enabled), then change the graph once more
        for v in verts:
            for ds in (FWD, ANY, BWD):
                helpers.neighbors(v, ds, U_NON)
        explicit.link_undirected(verts[1], verts[4])
        for v in verts[:3]:
            helpers.neighbors(v, ANY, U_NON)

        blob = nrpickler.dumps(uni)
        check(isinstance(blob, bytes), "pickle type")
        with tempfile.TemporaryDirectory() as tmp:
            path = os.path.join(tmp, "graph.pickle")
            with open(path, "wb") as fobj:
                fobj.write(blob)
            script = os.path.join(tmp, "child.py")
            with open(script, "w", encoding="utf-8") as fobj:
                # OddLink must be importable by the child under the same name
                fobj.write(CHILD)
            env = dict(os.environ)
            root = os.path.dirname(os.path.dirname(os.path.abspath(edgegraph.__file__)))
            env["PYTHONPATH"] = os.pathsep.join(
                [root, os.path.dirname(os.path.abspath(__file__))]
            )
            for load_flag in ("on", "off"):
                proc = subprocess.run(
                    [sys.executable, script, path, load_flag],
                    env=env,
                    capture_output=True,
                    text=True,
                    check=False,
                )
                check(
                    proc.returncode == 0,
                    f"child failed ({dump_flag}, {load_flag}):\n{proc.stderr}",
                )
                results[(dump_flag, load_flag)] = proc.stdout

        # same graph, same interpreter
        again = pickle.loads(blob)
        Vertex.NEIGHBOR_CACHING = True
        for v in again.vertices:
            for ds in (FWD, ANY, BWD):
                first = outcome(helpers.neighbors, v, ds, U_NON)
                plain = uncached(helpers.neighbors, v, ds, U_NON)
                check(same(first, plain), "unpickled in-process")
                orig = helpers.neighbors(verts[v.i], ds, U_NON)
                check(
                    [getattr(n, "i", None) for n in first[1]]
                    == [getattr(n, "i", None) for n in orig],
                    "unpickled graph differs from the original",
                )

    answers = {k: v.split("\n", 1)[0] for k, v in results.items()}
    check(len(set(answers.values())) == 1, f"children disagree: {answers}")
    check(answers[(True, "on")] == PICKLE_EXPECTED, f"child answers:\n{answers[(True, 'on')]}")
    stats = {k: v.split("\n", 1)[1] for k, v in results.items()}
    check(stats == PICKLE_STATS_EXPECTED, f"child stats: {stats!r}")
    Vertex.NEIGHBOR_CACHING = False


PICKLE_EXPECTED = (
    "[(0, 0, [1, 1]), "
    "(0, 1, [1, 1, 4]), "
    "(0, 2, [1]), "
    "(1, 0, [0, 2, 4]), "
    "(1, 1, [0, 0, 2, 4]), "
    "(1, 2, [0, 0, 4]), "
    "(2, 0, [3]), "
    "(2, 1, [1, 3]), "
    "(2, 2, [1]), "
    "(3, 0, [3]), "
    "(3, 1, [2, 3]), "
    "(3, 2, [2, 3]), "
    "(4, 0, [None, 1]), "
    "(4, 1, [0, None, 1]), "
    "(4, 2, [1]), [0, 1, 2, 4, 3], (0, 0, []), "
    "(0, 1, [4, 3]), "
    "(0, 2, [3]), "
    "(1, 0, [4, 4]), "
    "(1, 1, [4, 4]), "
    "(1, 2, [4]), "
    "(2, 0, [3]), "
    "(2, 1, [3]), "
    "(2, 2, []), "
    "(3, 0, [3, 0]), "
    "(3, 1, [2, 3, 0]), "
    "(3, 2, [2, 3]), "
    "(4, 0, [None, 1]), "
    "(4, 1, [0, None, 1, 1]), "
    "(4, 2, [1, 1]), [0], (0, 0, []), "
    "(0, 1, [4, 3]), "
    "(0, 2, [3]), "
    "(1, 0, [4, 4]), "
    "(1, 1, [4, 4]), "
    "(1, 2, [4]), "
    "(2, 0, [3]), "
    "(2, 1, [3]), "
    "(2, 2, []), "
    "(3, 0, [3, 0]), "
    "(3, 1, [2, 3, 0]), "
    "(3, 2, [2, 3]), "
    "(4, 0, [None, 1]), "
    "(4, 1, [0, None, 1, 1]), "
    "(4, 2, [1, 1]), [0]]"
)
def _stats_text(size, hits, misses, invalidations, insertions):
    return (
        "=== CACHE STATISTICS OVERALL ===\n"
        f"Size:          {size}\n"
        f"Hits:          {hits}\n"
        f"Misses:        {misses}\n"
        f"Invalidations: {invalidations}\n"
        f"Insertions:    {insertions}\n"
    )


# (caching while dumping, caching while loading) -> statistics of the child;
# the answers stored in the pickle show up as additional hits
PICKLE_STATS_EXPECTED = {
    (True, "on"): _stats_text(5, 16, 20, 21, 20),
    (True, "off"): _stats_text(5, 1, 15, 0, 15),
    (False, "on"): _stats_text(5, 6, 30, 21, 30),
    (False, "off"): _stats_text(5, 1, 15, 0, 15),
}


def main():
    check("/" in edgegraph.__file__, "edgegraph location")
    part_stats()
    for seed in (5, 17, 2024):
        part_random(seed, 60)
    part_corners()
    part_pickle()
    print(f"equiv.py: all {CHECKS} checks passed ({edgegraph.__file__})")
    return 0


if __name__ == "__main__":
    sys.exit(main())
