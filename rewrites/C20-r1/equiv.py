#!/usr/bin/env python3
"""
equiv.py for C20 / rewrite 1 (randgraph: fan-out helper + dict comprehension).

Checks the C20 property on a grid of inputs, and compares randgraph() against
an independent index-level replay of the algorithm driven by the same seeds
(vertex order in the universe, link order on every vertex, RNG state left
behind, exceptions for unusual inputs).  Exit status 0 = all as expected.
"""

import random
import sys
from fractions import Fraction

from edgegraph.structure import (
    DirectedEdge,
    UnDirectedEdge,
    TwoEndedLink,
    Universe,
    Vertex,
)
from edgegraph.builder import randgraph as rg

FAILS = []


def check(cond, msg):
    if not cond:
        FAILS.append(msg)


class MyEdge(TwoEndedLink):
    """A user-defined two-ended link type."""


class CountingFlag:
    """ensurelink stand-in which counts how often its truth value is asked."""

    def __init__(self, val):
        self.val = val
        self.asked = 0

    def __bool__(self):
        self.asked += 1
        return self.val


def replay(count, connectivity, ensurelink):
    """
    Index-level model: returns (universe order, per-vertex link lists) as
    indices, consuming the global RNG exactly like randgraph is documented /
    observed to do (one randint, one sample per vertex).
    """
    if connectivity is None:
        connectivity = 5 / count
    rows = []
    pop = list(range(count))
    for i in range(count):
        k = int(random.randint(1, max(1, i)) * connectivity)
        if ensurelink:
            k = max(k, 1)
        k = min(k, count)
        rows.append(random.sample(pop, k))
    order = []
    links = {i: [] for i in range(count)}
    for i, row in enumerate(rows):
        if i not in order:
            order.append(i)
        for j in row:
            links[i].append((i, j))
            if j != i:
                links[j].append((i, j))
            if j not in order:
                order.append(j)
    return order, links


def observe(uni):
    order = [v.i for v in uni.vertices]
    links = {
        v.i: [(lnk.v1.i, lnk.v2.i) for lnk in v.links] for v in uni.vertices
    }
    return order, links


def prop(uni, count, edge, ensurelink, tag):
    check(type(uni) is Universe, f"{tag}: not a Universe")
    verts = uni.vertices
    check(len(verts) == count, f"{tag}: {len(verts)} vertices")
    check(
        sorted(v.i for v in verts) == list(range(count)), f"{tag}: bad i's"
    )
    check(all(type(v) is Vertex for v in verts), f"{tag}: vertex type")
    check(all(v.universes == [uni] for v in verts), f"{tag}: universes")
    for v in verts:
        for lnk in v.links:
            check(type(lnk) is edge, f"{tag}: link type {type(lnk)}")
            check(len(lnk.vertices) == 2, f"{tag}: link arity")
            check(
                all(any(e is w for w in verts) for e in lnk.vertices),
                f"{tag}: link end outside universe",
            )
            check(any(e is v for e in lnk.vertices), f"{tag}: foreign link")
        if ensurelink:
            check(
                any(lnk.v1 is v for lnk in v.links),
                f"{tag}: vertex {v.i} is v1 of nothing",
            )


def main():
    edges = [DirectedEdge, UnDirectedEdge, MyEdge]
    conns = [None, 0, 0.0, 0.2, 0.5, 1, 1.0, Fraction(1, 3)]
    counts = [1, 2, 3, 4, 5, 6, 7, 12, 30]

    for count in counts:
        for ci, conn in enumerate(conns):
            for ensure in (True, False, None, 1, 0):
                for seed in (0, 1, 12345):
                    edge = edges[(count + ci + seed) % 3]
                    tag = f"count={count} conn={conn!r} ens={ensure!r} s={seed}"

                    random.seed(seed)
                    exp = replay(count, conn, ensure)
                    exp_state = random.getstate()

                    random.seed(seed)
                    kwargs = {"count": count, "edge": edge, "ensurelink": ensure}
                    if conn is not None:
                        kwargs["connectivity"] = conn
                    try:
                        uni = rg.randgraph(**kwargs)
                    except Exception as exc:  # pylint: disable=broad-except
                        check(False, f"{tag}: raised {exc!r}")
                        continue
                    check(random.getstate() == exp_state, f"{tag}: RNG state")
                    prop(uni, count, edge, ensure, tag)
                    check(observe(uni) == exp, f"{tag}: differs from replay")

                    # reproducible
                    random.seed(seed)
                    again = rg.randgraph(**kwargs)
                    check(again is not uni, f"{tag}: same object returned")
                    check(observe(again) == exp, f"{tag}: not reproducible")

    # defaults / positional arguments
    random.seed(99)
    exp = replay(15, None, True)
    random.seed(99)
    uni = rg.randgraph()
    prop(uni, 15, DirectedEdge, True, "defaults")
    check(observe(uni) == exp, "defaults: differs from replay")
    random.seed(7)
    exp = replay(4, 0.5, False)
    random.seed(7)
    uni = rg.randgraph(4, UnDirectedEdge, 0.5, False)
    prop(uni, 4, UnDirectedEdge, False, "positional")
    check(observe(uni) == exp, "positional: differs from replay")

    # a private Random instance is not touched; only the module-level one is
    other = random.Random(5)
    st = other.getstate()
    rg.randgraph(count=6)
    check(other.getstate() == st, "private Random instance was consumed")

    # truth value of ensurelink is asked once per vertex
    for val in (True, False):
        flag = CountingFlag(val)
        random.seed(3)
        exp = replay(9, 0.4, val)
        random.seed(3)
        uni = rg.randgraph(count=9, connectivity=0.4, ensurelink=flag)
        check(flag.asked == 9, f"flag({val}) asked {flag.asked} times")
        check(observe(uni) == exp, f"flag({val}): differs from replay")

    # count == 0 and negative counts
    try:
        rg.randgraph(count=0)
        check(False, "count=0: no ZeroDivisionError")
    except ZeroDivisionError:
        pass
    for cnt in (0, -3):
        random.seed(1)
        st = random.getstate()
        uni = rg.randgraph(count=cnt, connectivity=1)
        check(uni.vertices == [], f"count={cnt}: not empty")
        check(random.getstate() == st, f"count={cnt}: RNG consumed")
    uni = rg.randgraph(count=-3)
    check(uni.vertices == [], "count=-3 default connectivity: not empty")

    # bool count
    random.seed(2)
    uni = rg.randgraph(count=True)
    check(observe(uni) == ([0], {0: [(0, 0)]}), "count=True")

    # non-integer counts
    for bad in (2.0, 0.0, "3", None):
        try:
            rg.randgraph(count=bad, connectivity=1)
            check(False, f"count={bad!r}: no TypeError")
        except TypeError:
            pass
        try:
            rg.randgraph(count=bad)
            check(False, f"count={bad!r} (default conn): no TypeError")
        except TypeError:
            pass

    # negative connectivity: sample() refuses a negative size unless
    # ensurelink lifts it to one; exactly one randint was consumed on failure
    random.seed(11)
    random.randint(1, 1)
    exp_state = random.getstate()
    random.seed(11)
    try:
        rg.randgraph(count=5, connectivity=-1, ensurelink=False)
        check(False, "negative connectivity: no ValueError")
    except ValueError:
        check(random.getstate() == exp_state, "negative conn: RNG state")
    random.seed(11)
    exp = replay(5, -1, True)
    random.seed(11)
    uni = rg.randgraph(count=5, connectivity=-1, ensurelink=True)
    check(observe(uni) == exp, "negative conn with ensurelink")

    # connectivity above one is clamped to the population size
    random.seed(4)
    exp = replay(6, 50, True)
    random.seed(4)
    uni = rg.randgraph(count=6, connectivity=50)
    check(observe(uni) == exp, "connectivity=50")
    check(all(len(r) == 6 for r in [[l for l in v.links if l.v1 is v] for v in uni.vertices]), "conn=50 rows")

    # unusable connectivity values
    for bad, exc_t in ((float("nan"), ValueError), (float("inf"), OverflowError), ("x", ValueError)):
        try:
            rg.randgraph(count=3, connectivity=bad)
            check(False, f"connectivity={bad!r}: no {exc_t.__name__}")
        except exc_t:
            pass

    # an edge type that is not a link class fails in the build phase, after
    # all random draws were made
    random.seed(8)
    replay(4, 1, True)
    exp_state = random.getstate()
    random.seed(8)
    try:
        rg.randgraph(count=4, connectivity=1, edge=None)
        check(False, "edge=None: no TypeError")
    except TypeError:
        check(random.getstate() == exp_state, "edge=None: RNG state")

    # public surface of the module
    public = sorted(n for n in vars(rg) if not n.startswith("_"))
    check(
        public
        == sorted(
            ["annotations", "random", "Vertex", "DirectedEdge", "Universe", "adjlist", "randgraph"]
        ),
        f"public names: {public}",
    )
    import inspect

    check(
        str(inspect.signature(rg.randgraph))
        == "(count: 'int' = 15, edge: 'type' = <class "
        "'edgegraph.structure.directededge.DirectedEdge'>, connectivity: "
        "'float | None' = None, ensurelink: 'bool | None' = True) -> 'Universe'",
        f"signature: {inspect.signature(rg.randgraph)}",
    )

    if FAILS:
        for f in FAILS[:40]:
            print("FAIL:", f)
        print(f"{len(FAILS)} failure(s)")
        return 1
    print("equiv OK")
    return 0


if __name__ == "__main__":
    sys.exit(main())
