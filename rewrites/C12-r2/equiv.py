#!/usr/bin/env python3
"""
equiv.py for C12 / rewrite 2 (snapshot accessors and copying constructors of
BaseObject, Vertex, Link, Universe and UniverseLaws).

Exit status 0 = everything as expected.
"""

import collections
import pickle
import sys
import types

from edgegraph.structure import (
    BaseObject,
    Vertex,
    Universe,
    DirectedEdge,
    UnDirectedEdge,
)
from edgegraph.structure.universe import UniverseLaws
from edgegraph.traversal import helpers
from edgegraph.builder import explicit, adjlist, adjmatrix
from edgegraph.output import nrpickler

FAILS = []


def check(cond, msg):
    if not cond:
        FAILS.append(msg)
        print("FAIL:", msg)


def same(a, b):
    """Same length, pairwise identical."""
    return len(a) == len(b) and all(x is y for x, y in zip(a, b))


def raises(exc, func, *args, **kwargs):
    """True if func raises exactly an `exc` (class identity, not subclass)."""
    try:
        func(*args, **kwargs)
    except Exception as err:  # pylint: disable=broad-except
        return type(err) is exc
    return False


def base_objects(tag):
    u1, u2, u3 = Universe(), Universe(), Universe()

    # universes= is copied and de-duplicated, order of first occurrence kept
    given = [u2, u1, u2, u3, u1]
    bo = BaseObject(universes=given)
    given.clear()
    check(same(bo.universes, [u2, u1, u3]), tag + "universes= list")
    check(type(bo.universes) is list, tag + "universes is a list")
    check(bo.universes is not bo.universes, tag + "universes: new list each")

    # any iterable will do: generator, tuple, dict keys, deque
    bo2 = BaseObject(universes=(u for u in (u3, u3, u1)))
    check(same(bo2.universes, [u3, u1]), tag + "universes= generator")
    bo3 = BaseObject(universes=collections.deque([u1, u2]))
    check(same(bo3.universes, [u1, u2]), tag + "universes= deque")
    check(BaseObject(universes=()).universes == [], tag + "universes= ()")
    check(BaseObject(universes=None).universes == [], tag + "universes= None")
    check(BaseObject().universes == [], tag + "no universes")
    check(raises(TypeError, BaseObject, universes=5), tag + "universes= 5")
    check(
        raises(TypeError, BaseObject, universes=[[]]),
        tag + "unhashable universe",
    )
    # BaseObject does not tell the universes about itself
    check(u1.vertices == [], tag + "BaseObject stays out of the universe")

    # mutating the handed-out list changes nothing
    got = bo.universes
    got.append(Universe())
    got.sort(key=id)
    got[0] = None
    got.remove(None)
    got.clear()
    check(same(bo.universes, [u2, u1, u3]), tag + "universes after mutation")

    # add / remove
    bo.add_to_universe(u1)
    check(same(bo.universes, [u2, u1, u3]), tag + "add_to_universe repeat")
    u4 = Universe()
    bo.add_to_universe(u4)
    check(same(bo.universes, [u2, u1, u3, u4]), tag + "add_to_universe new")
    bo.remove_from_universe(u1)
    check(same(bo.universes, [u2, u3, u4]), tag + "remove_from_universe")
    check(
        raises(ValueError, bo.remove_from_universe, u1),
        tag + "remove_from_universe twice",
    )

    # attributes= is applied, not kept
    attrs = {"x": 1, "y": [1, 2]}
    bo4 = BaseObject(attributes=attrs, uid=77)
    attrs["x"] = 2
    attrs["z"] = 3
    check(bo4.x == 1 and not hasattr(bo4, "z"), tag + "attributes= copied")
    check(bo4.uid == 77 and bo4["y"] == [1, 2], tag + "uid / item access")
    check(
        raises(TypeError, BaseObject, attributes=[("x", 1)]),
        tag + "attributes= list",
    )


def vertices_links_universes(tag):
    uni = Universe()
    outer = Universe(vertices=[uni])
    a, b, c = (Vertex(attributes={"name": n}) for n in "abc")

    pool = [a, b, a, c]
    uni2 = Universe(vertices=pool)
    pool.clear()
    check(same(uni2.vertices, [a, b, c]), tag + "Universe(vertices=)")
    check(same(a.universes, [uni2]), tag + "vertex knows its universe")
    uni3 = Universe(vertices=(v for v in (c, c, a)))
    check(same(uni3.vertices, [c, a]), tag + "Universe(vertices=generator)")
    check(same(a.universes, [uni2, uni3]), tag + "vertex in two universes")
    check(same(outer.vertices, [uni]), tag + "nested universe")
    check(same(uni.universes, [outer]), tag + "nested universe back ref")

    got = uni2.vertices
    check(type(got) is list, tag + "Universe.vertices is a list")
    check(got is not uni2.vertices, tag + "Universe.vertices: new list each")
    got.reverse()
    got.append(None)
    del got[0]
    got.clear()
    check(same(uni2.vertices, [a, b, c]), tag + "Universe.vertices detached")

    uni2.add_vertex(b)
    check(same(uni2.vertices, [a, b, c]), tag + "add_vertex repeat")
    d = Vertex(universes=[uni2, uni2, uni3])
    check(same(uni2.vertices, [a, b, c, d]), tag + "Vertex(universes=)")
    check(same(d.universes, [uni2, uni3]), tag + "Vertex(universes=) dedup")
    uni2.remove_vertex(b)
    check(same(uni2.vertices, [a, c, d]), tag + "remove_vertex")
    check(b.universes == [], tag + "remove_vertex back ref")
    check(raises(ValueError, uni2.remove_vertex, b), tag + "remove twice")
    d.remove_from_universe(uni3)
    check(same(uni3.vertices, [c, a]), tag + "remove_from_universe")
    check(same(d.universes, [uni2]), tag + "remove_from_universe back ref")

    # links
    l1 = DirectedEdge(a, b)
    l2 = DirectedEdge(a, b)
    l3 = UnDirectedEdge(a, a)
    l4 = DirectedEdge(None, a)
    l5 = DirectedEdge(None, None)
    check(type(a.links) is tuple, tag + "Vertex.links is a tuple")
    check(same(a.links, (l1, l2, l3, l4)), tag + "Vertex.links")
    check(Vertex().links == (), tag + "no links")
    check(type(l3.vertices) is tuple, tag + "Link.vertices is a tuple")
    check(same(l3.vertices, (a, a)), tag + "self loop lists a twice")
    check(l4.vertices == (None, a), tag + "open end")
    check(l5.vertices == (None, None), tag + "two open ends")
    check(not hasattr(a.links, "append"), tag + "links cannot be appended to")

    given = [l1, l2, l1]
    e = Vertex(links=given)
    given.clear()
    check(same(e.links, (l1, l2)), tag + "Vertex(links=)")
    check(same(l1.vertices, (a, b, e)), tag + "Vertex(links=) back ref")

    # unlink_from: absent, None, self-loop, listed once
    stranger = Vertex()
    l1.unlink_from(stranger)
    check(same(l1.vertices, (a, b, e)), tag + "unlink_from stranger")
    l1.unlink_from(None)
    check(same(l1.vertices, (a, b, e)), tag + "unlink_from None (absent)")
    l5.unlink_from(None)
    check(l5.vertices == (None,), tag + "unlink_from None drops one end")
    l5.unlink_from(None)
    check(l5.vertices == (), tag + "unlink_from None drops the other end")
    l5.unlink_from(None)
    check(l5.vertices == (), tag + "unlink_from None on empty link")
    l3.unlink_from(a)
    check(l3.vertices == (), tag + "unlink_from self loop drops both")
    check(same(a.links, (l1, l2, l4)), tag + "self loop gone from vertex")
    l1.unlink_from(e)
    check(same(l1.vertices, (a, b)), tag + "unlink_from third vertex")
    check(same(e.links, (l2,)), tag + "third vertex forgot the link")
    l4.unlink_from(a)
    check(l4.vertices == (None,), tag + "unlink_from keeps the open end")
    check(raises(IndexError, lambda: l4.v2), tag + "v2 of a one-ended link")

    # remove_from_link / add_to_link
    b.remove_from_link(l2)
    check(same(l2.vertices, (a, e)), tag + "remove_from_link")
    b.add_to_link(l2)
    b.add_to_link(l2)
    check(same(l2.vertices, (a, e, b)), tag + "add_to_link once")
    check(same(b.links, (l1, l2)), tag + "b links")

    for caching in (False, True):
        Vertex.NEIGHBOR_CACHING = caching
        n1 = helpers.neighbors(a)
        check(same(n1, [b, e]), tag + f"neighbors caching={caching}")
        n1.clear()
        check(
            same(helpers.neighbors(a), [b, e]),
            tag + f"neighbors again caching={caching}",
        )
        fl = helpers.find_links(a, b)
        check(fl == {l1}, tag + "find_links")
        fl.clear()
        check(helpers.find_links(a, b) == {l1}, tag + "find_links again")

    # builders take their own notes of what they are given
    p, q, r = Vertex(), Vertex(), Vertex()
    adj = {p: [q, r], q: [r], r: []}
    built = adjlist.load_adj_dict(adj)
    adj[p].clear()
    adj.clear()
    check(same(built.vertices, [p, q, r]), tag + "load_adj_dict vertices")
    check(same(helpers.neighbors(p), [q, r]), tag + "load_adj_dict links")
    side = [p, q, r]
    matrix = [[0, 1, 0], [0, 0, 1], [1, 0, 0]]
    built2 = adjmatrix.load_adj_matrix(matrix, side)
    side.clear()
    matrix[0][1] = 0
    check(same(built2.vertices, [p, q, r]), tag + "load_adj_matrix vertices")
    check(
        same(helpers.neighbors(r, direction_sensitive=helpers.DIR_SENS_ANY),
             [p, q, q, p]),
        tag + "load_adj_matrix links",
    )
    return uni2


class A(Vertex):
    pass


class B(Vertex):
    pass


class MyMap(collections.abc.Mapping):
    """A mapping that is not a dict."""

    def __init__(self, pairs):
        self.pairs = list(pairs)

    def __getitem__(self, key):
        for k, v in self.pairs:
            if k == key:
                return v
        raise KeyError(key)

    def __iter__(self):
        return (k for k, _ in self.pairs)

    def __len__(self):
        return len(self.pairs)


def laws(tag):
    check(UniverseLaws().edge_whitelist is None, tag + "no whitelist")
    check(
        UniverseLaws(edge_whitelist=None).edge_whitelist is None,
        tag + "None whitelist",
    )

    inner_a = {A: DirectedEdge, B: UnDirectedEdge}
    inner_b = collections.OrderedDict([(A, UnDirectedEdge)])
    given = {A: inner_a, B: inner_b}
    law = UniverseLaws(edge_whitelist=given, cycles=False)
    expect = {
        A: {A: DirectedEdge, B: UnDirectedEdge},
        B: {A: UnDirectedEdge},
    }

    # taken in: a deep-enough copy
    inner_a[A] = None
    inner_a.clear()
    inner_b[B] = DirectedEdge
    del given[B]
    given[Vertex] = {}
    wl = law.edge_whitelist
    check(wl == expect, tag + "whitelist copied at construction")
    check(list(wl) == [A, B], tag + "whitelist key order")
    check(list(wl[A]) == [A, B], tag + "whitelist inner key order")

    # handed out: read-only, fresh every time
    check(type(wl) is types.MappingProxyType, tag + "outer proxy")
    check(
        all(type(v) is types.MappingProxyType for v in wl.values()),
        tag + "inner proxies",
    )
    check(law.edge_whitelist is not wl, tag + "new outer proxy each time")
    check(law.edge_whitelist[A] is not wl[A], tag + "new inner proxy each")
    try:
        wl[A] = {}
        check(False, tag + "outer proxy accepted an item")
    except TypeError:
        pass
    try:
        wl[A][B] = DirectedEdge
        check(False, tag + "inner proxy accepted an item")
    except TypeError:
        pass
    try:
        del wl[B]
        check(False, tag + "outer proxy lost an item")
    except TypeError:
        pass
    # a copy of the proxy is the caller's own business
    mine = dict(wl)
    mine.clear()
    mine_inner = dict(wl[A])
    mine_inner[A] = None
    check(law.edge_whitelist == expect, tag + "whitelist after abuse")
    check(law.cycles is False and law.multipath is True, tag + "other laws")

    # non-dict mappings are welcome
    law2 = UniverseLaws(
        edge_whitelist=MyMap([(A, MyMap([(B, DirectedEdge)])), (B, {})])
    )
    check(
        law2.edge_whitelist == {A: {B: DirectedEdge}, B: {}},
        tag + "custom mapping whitelist",
    )
    law3 = UniverseLaws(edge_whitelist=types.MappingProxyType({A: {}}))
    check(law3.edge_whitelist == {A: {}}, tag + "proxy whitelist")
    check(UniverseLaws(edge_whitelist={}).edge_whitelist == {}, tag + "empty")
    check(
        type(UniverseLaws(edge_whitelist={}).edge_whitelist)
        is types.MappingProxyType,
        tag + "empty whitelist is a proxy, not None",
    )

    # malformed ones are refused with ValueError
    for bad in ([1, 2], "abc", 5, {A: 5}, {A: [(A, B)]}, {A: None},
                {A: {B: DirectedEdge}, B: "x"}):
        check(
            raises(ValueError, UniverseLaws, edge_whitelist=bad),
            tag + f"malformed whitelist {bad!r}",
        )

    class Oops(MyMap):
        def items(self):
            return iter([(A, 1, 2)])

    check(
        raises(ValueError, UniverseLaws, edge_whitelist=Oops([])),
        tag + "items() of wrong arity",
    )
    check(
        raises(ValueError, UniverseLaws, edge_whitelist={A: Oops([])}),
        tag + "inner items() of wrong arity",
    )

    class Unhashable(MyMap):
        def items(self):
            return iter([([], {})])

    check(
        raises(TypeError, UniverseLaws, edge_whitelist=Unhashable([])),
        tag + "unhashable key is a TypeError",
    )

    class Boom(MyMap):
        def items(self):
            raise KeyError("boom")

    check(
        raises(KeyError, UniverseLaws, edge_whitelist=Boom([])),
        tag + "foreign exceptions pass through",
    )

    # laws <-> universe
    uni = Universe(laws=law)
    check(uni.laws is law and law.applies_to is uni, tag + "laws attached")
    check(uni.laws.edge_whitelist == expect, tag + "whitelist via universe")
    return law, expect


def pickles(tag, uni, law, expect):
    for dumper in (nrpickler.dumps, pickle.dumps):
        law2 = pickle.loads(dumper(law))
        # (dill pickles classes of __main__ by value: compare by name)
        shape = {
            k.__name__: {k2.__name__: v2.__name__ for k2, v2 in v.items()}
            for k, v in law2.edge_whitelist.items()
        }
        check(
            shape
            == {
                "A": {"A": "DirectedEdge", "B": "UnDirectedEdge"},
                "B": {"A": "UnDirectedEdge"},
            },
            tag + "pickled whitelist",
        )
        if dumper is pickle.dumps:
            check(law2.edge_whitelist == expect, tag + "pickled whitelist ==")
        check(
            type(law2.edge_whitelist) is types.MappingProxyType,
            tag + "pickled whitelist proxy",
        )
        check(law2.applies_to.laws is law2, tag + "pickled laws back ref")
        uni2 = pickle.loads(dumper(uni))
        names = [getattr(v, "name", None) for v in uni2.vertices]
        check(names == ["a", "c", None], tag + "pickled universe vertices")
        a2 = uni2.vertices[0]
        check(type(a2.links) is tuple and len(a2.links) == 2,
              tag + "pickled links")
        check(type(a2.universes) is list, tag + "pickled universes list")
        check(a2.universes[0] is uni2, tag + "pickled back ref")
        lst = uni2.vertices
        lst.clear()
        check(len(uni2.vertices) == 3, tag + "pickled universe detached")


def main():
    before = Vertex.NEIGHBOR_CACHING
    try:
        for caching in (False, True):
            Vertex.NEIGHBOR_CACHING = caching
            Vertex._CACHE_STATS = {}
            tag = f"[caching={caching}] "
            base_objects(tag)
            uni = vertices_links_universes(tag)
            law, expect = laws(tag)
            pickles(tag, uni, law, expect)
    finally:
        Vertex.NEIGHBOR_CACHING = before
        Vertex._CACHE_STATS = {}
    if FAILS:
        print(f"{len(FAILS)} check(s) failed")
        return 1
    print("all checks passed")
    return 0


if __name__ == "__main__":
    sys.exit(main())
