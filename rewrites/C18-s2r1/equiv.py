#!/usr/bin/python3
# -*- coding: utf-8 -*-

"""
Equivalence / conformance driver for property C18:

  "True singletons: at most one live instance per class between clears."

Only the public API is used (``TrueSingleton``, ``clear_true_singleton``, plus
``Vertex`` / ``Universe`` for the vertex flavoured cases).  The program has
three parts:

1. scripted corner cases (aliasing, falsy instances, constructors that raise,
   constructors that clear or re-enter, sub-metaclasses, odd arguments to
   ``clear_true_singleton``, pickling / copying, ...);
2. a probe-count part: a sub-metaclass with a counting ``__hash__`` /
   ``__bool__`` pins the number and order of the user-visible callbacks made
   by the metaclass and by ``clear_true_singleton``;
3. a seeded random differential run against an independent oracle written
   from the property statement alone.

Exit status 0 <=> everything is as demanded.  Run from the worktree root:

    PYTHONPATH=<worktree> /venv/bin/python equiv.py
"""

import copy
import gc
import pickle
import random
import sys

from edgegraph.structure import singleton
from edgegraph.structure import Vertex, Universe
from edgegraph.structure.singleton import TrueSingleton, clear_true_singleton

FAILURES = []
CHECKS = 0


def check(cond, msg):
    """Record one check."""
    global CHECKS
    CHECKS += 1
    if not cond:
        FAILURES.append(msg)
        print("FAIL:", msg)


def raises(exc, func, *args, **kwargs):
    """True iff func(*args, **kwargs) raises exactly an ``exc`` instance."""
    try:
        func(*args, **kwargs)
    except exc:
        return True
    except BaseException as err:  # pylint: disable=broad-except
        print("  (unexpected exception type %r)" % (err,))
        return False
    return False


# keep every object ever produced alive, so that ``is`` comparisons against
# "old" instances can never be fooled by id() reuse.
GRAVEYARD = []


def keep(obj):
    GRAVEYARD.append(obj)
    return obj


###############################################################################
# module-level classes (needed for pickling by reference)
###############################################################################


class Recorder(metaclass=TrueSingleton):
    """Singleton that records every __init__ call it receives."""

    log = []

    def __init__(self, *args, **kwargs):
        type(self).log.append((type(self).__name__, args, dict(kwargs)))
        self.args = args
        self.kwargs = kwargs


class RecorderChild(Recorder):
    """Subclass of a singleton class; must have its own instance."""


class RecorderGrandChild(RecorderChild):
    """Second level subclass."""


class PickleTex(Vertex, metaclass=TrueSingleton):
    """Singleton vertex, module level so that it can be pickled."""

    def __init__(self, i, *args, **kwargs):
        super().__init__(*args, **kwargs)
        self.i = i


###############################################################################
# part 1 -- scripted corner cases
###############################################################################


def scripted_basic():
    clear_true_singleton()
    del Recorder.log[:]

    a1 = keep(Recorder(1, two=2))
    a2 = Recorder(1, two=2)
    a3 = Recorder()
    a4 = Recorder("different", "args", k=None)
    check(a1 is a2 and a2 is a3 and a3 is a4, "basic: same object always")
    check(Recorder.log == [("Recorder", (1,), {"two": 2})], "basic: init once")
    check(a1.args == (1,) and a1.kwargs == {"two": 2}, "basic: first args kept")
    check(type(a1) is Recorder, "basic: exact type")

    # subclass instances are separate, and parent is unaffected
    c1 = keep(RecorderChild("c"))
    g1 = keep(RecorderGrandChild("g"))
    check(c1 is not a1 and g1 is not a1 and g1 is not c1, "sub: own instances")
    check(type(c1) is RecorderChild, "sub: exact type child")
    check(type(g1) is RecorderGrandChild, "sub: exact type grandchild")
    check(Recorder("x") is a1, "sub: parent untouched")
    check(RecorderChild() is c1 and RecorderGrandChild(9) is g1, "sub: stable")
    check(
        Recorder.log
        == [
            ("Recorder", (1,), {"two": 2}),
            ("RecorderChild", ("c",), {}),
            ("RecorderGrandChild", ("g",), {}),
        ],
        "sub: init log",
    )

    # clearing one class leaves every other class in place
    check(clear_true_singleton(RecorderChild) is None, "clear returns None")
    check(Recorder() is a1, "clear one: parent stays")
    check(RecorderGrandChild() is g1, "clear one: grandchild stays")
    c2 = keep(RecorderChild("c2"))
    check(c2 is not c1, "clear one: new child")
    check(c2.args == ("c2",), "clear one: new child got new args")
    check(RecorderChild("c3") is c2, "clear one: new child stable")
    check(c1.args == ("c",), "clear one: old instance untouched")
    check(len(Recorder.log) == 4, "clear one: exactly one more init")

    # clearing a class with no instance is harmless, repeatedly
    clear_true_singleton(RecorderChild)
    clear_true_singleton(RecorderChild)
    clear_true_singleton(RecorderChild)
    check(Recorder() is a1 and RecorderGrandChild() is g1, "clear empty: ok")
    c3 = keep(RecorderChild())
    check(c3 is not c2 and c3 is not c1, "clear empty: then fresh")

    # clearing everything
    check(clear_true_singleton() is None, "clear all returns None")
    a5 = keep(Recorder("again"))
    c4 = keep(RecorderChild("again"))
    g2 = keep(RecorderGrandChild("again"))
    check(a5 is not a1 and c4 is not c3 and g2 is not g1, "clear all: fresh")
    check(Recorder() is a5 and RecorderChild() is c4, "clear all: stable")
    check(RecorderGrandChild() is g2, "clear all: stable (2)")
    check(len(Recorder.log) == 8, "clear all: init count")

    # clear all twice in a row, and clear all on an empty table
    clear_true_singleton()
    clear_true_singleton()
    clear_true_singleton(None)
    check(Recorder("z") is not a5, "clear all x3: fresh")
    check(Recorder().args == ("z",), "clear all x3: args")

    # subclass constructed *before* its parent
    clear_true_singleton()
    g3 = keep(RecorderGrandChild())
    c5 = keep(RecorderChild())
    a6 = keep(Recorder())
    check(len({id(g3), id(c5), id(a6)}) == 3, "order: three objects")
    check(type(a6) is Recorder and type(c5) is RecorderChild, "order: types")
    clear_true_singleton(Recorder)
    check(RecorderGrandChild() is g3, "order: grandchild survives parent clear")
    check(RecorderChild() is c5, "order: child survives parent clear")
    check(Recorder() is not a6, "order: parent fresh")


def scripted_argument_passing():
    clear_true_singleton()

    class Args(metaclass=TrueSingleton):
        def __init__(self, *args, **kwargs):
            self.args = args
            self.kwargs = kwargs

    # generators / mutable objects are passed through untouched, by identity
    gen = (i for i in range(3))
    lst = [1, 2, 3]
    inst = keep(Args(gen, lst, lst, key=lst))
    check(inst.args[0] is gen, "args: generator identity")
    check(inst.args[1] is lst and inst.args[2] is lst, "args: aliasing")
    check(inst.kwargs["key"] is lst, "args: kwarg identity")
    check(list(gen) == [0, 1, 2], "args: generator not consumed")

    # second call: arguments are ignored completely -- not even consumed
    gen2 = (i for i in range(3))
    check(Args(gen2) is inst, "args: second call same")
    check(list(gen2) == [0, 1, 2], "args: 2nd-call generator not consumed")
    # unhashable / weird arguments on later calls are fine
    check(Args({}, [], set(), x={1: 2}) is inst, "args: unhashable later args")

    # wrong signature on first call: TypeError, nothing registered
    class Strict(metaclass=TrueSingleton):
        count = 0

        def __init__(self, a, *, b):
            type(self).count += 1
            self.a, self.b = a, b

    check(raises(TypeError, Strict), "sig: no args -> TypeError")
    check(raises(TypeError, Strict, 1, 2), "sig: too many -> TypeError")
    check(raises(TypeError, Strict, 1, c=3), "sig: bad kw -> TypeError")
    check(Strict.count == 0, "sig: init body never ran")
    s = keep(Strict(1, b=2))
    check((s.a, s.b) == (1, 2) and Strict.count == 1, "sig: good call")
    # now the signature no longer matters
    check(Strict() is s, "sig: later bad call returns instance")
    check(Strict(1, 2, 3, 4, zzz=0) is s, "sig: later bad call (2)")
    check(Strict.count == 1, "sig: still one init")

    # a class that takes ``cls`` / ``self`` / ``args`` / ``kwargs`` keywords
    class Kw(metaclass=TrueSingleton):
        def __init__(self, **kwargs):
            self.kwargs = kwargs

    k = keep(Kw(args=1, kwargs=2, instance=3, table=4))
    check(
        k.kwargs == {"args": 1, "kwargs": 2, "instance": 3, "table": 4},
        "kw: odd keyword names are passed through",
    )
    check(Kw(other=5) is k, "kw: stable")
    # ... except the one name the metaclass uses for its own first parameter
    check(raises(TypeError, lambda: Kw(cls=5)), "kw: cls= collides (hit path)")
    clear_true_singleton(Kw)
    check(raises(TypeError, lambda: Kw(cls=5)), "kw: cls= collides (miss path)")
    k2 = keep(Kw(me=1, args=(), kwargs={}))
    check(k2 is not k and k2.kwargs == {"me": 1, "args": (), "kwargs": {}},
          "kw: nothing was registered by the failed calls")


def scripted_falsy_and_odd_instances():
    clear_true_singleton()

    # an instance that is falsy / has len 0 / compares equal to everything
    class Falsy(metaclass=TrueSingleton):
        inits = 0

        def __init__(self):
            type(self).inits += 1

        def __bool__(self):
            return False

        def __len__(self):
            return 0

        def __eq__(self, other):
            return True

        __hash__ = None

    f1 = keep(Falsy())
    f2 = Falsy()
    check(f1 is f2 and Falsy.inits == 1, "falsy: same, one init")
    clear_true_singleton(Falsy)
    f3 = keep(Falsy())
    check(f3 is not f1 and Falsy.inits == 2, "falsy: fresh after clear")

    # __new__ returning None: type.__call__ skips __init__, and None *is* the
    # singleton "instance" from then on; __new__ must not be called again.
    class NewNone(metaclass=TrueSingleton):
        news = 0
        inits = 0

        def __new__(cls, *args, **kwargs):
            cls.news += 1
            return None

        def __init__(self, *args, **kwargs):
            type(self).inits += 1

    check(NewNone(1) is None, "newnone: returns None")
    check(NewNone(2) is None, "newnone: returns None again")
    check(NewNone.news == 1 and NewNone.inits == 0, "newnone: __new__ once")
    clear_true_singleton(NewNone)
    check(NewNone() is None and NewNone.news == 2, "newnone: after clear")

    # __new__ returning a foreign object (an int, another class' instance)
    class NewInt(metaclass=TrueSingleton):
        news = 0

        def __new__(cls, value=0):
            cls.news += 1
            return value

    check(NewInt(0) == 0 and NewInt(5) == 0, "newint: first value sticks")
    check(NewInt.news == 1, "newint: __new__ once")
    clear_true_singleton(NewInt)
    marker = keep(object())
    check(NewInt(marker) is marker and NewInt(7) is marker, "newint: marker")
    check(NewInt.news == 2, "newint: __new__ twice in total")

    # two singleton classes sharing one foreign object do not get confused
    class NewShared1(metaclass=TrueSingleton):
        def __new__(cls):
            return marker

    class NewShared2(metaclass=TrueSingleton):
        def __new__(cls):
            return marker

    check(NewShared1() is marker and NewShared2() is marker, "shared: both")
    clear_true_singleton(NewShared1)
    check(NewShared2() is marker, "shared: second unaffected")


def scripted_raising_constructors():
    clear_true_singleton()

    class Boom(Exception):
        pass

    class Fussy(metaclass=TrueSingleton):
        attempts = []

        def __init__(self, ok, tag=None):
            type(self).attempts.append((ok, tag))
            if not ok:
                raise Boom(tag)
            self.tag = tag

    class Bystander(metaclass=TrueSingleton):
        pass

    by = keep(Bystander())

    check(raises(Boom, Fussy, False, "a"), "raise: propagates")
    check(raises(Boom, Fussy, False, "b"), "raise: propagates again (no entry)")
    check(Fussy.attempts == [(False, "a"), (False, "b")], "raise: both ran")
    check(Bystander() is by, "raise: others untouched")
    good = keep(Fussy(True, "c"))
    check(good.tag == "c", "raise: then good instance with its own args")
    check(Fussy(False, "d") is good, "raise: failing args now ignored")
    check(Fussy.attempts == [(False, "a"), (False, "b"), (True, "c")],
          "raise: no further init")
    clear_true_singleton(Fussy)
    check(raises(Boom, Fussy, False, "e"), "raise: after clear raises again")
    check(Bystander() is by, "raise: others untouched (2)")
    good2 = keep(Fussy(True, "f"))
    check(good2 is not good and good2.tag == "f", "raise: fresh afterwards")

    # BaseException (not Exception) from __new__
    class Interrupting(metaclass=TrueSingleton):
        fail = True
        news = 0

        def __new__(cls):
            cls.news += 1
            if cls.fail:
                raise KeyboardInterrupt
            return super().__new__(cls)

    check(raises(KeyboardInterrupt, Interrupting), "raise: BaseException")
    check(raises(KeyboardInterrupt, Interrupting), "raise: BaseException 2")
    Interrupting.fail = False
    i1 = keep(Interrupting())
    check(Interrupting() is i1 and Interrupting.news == 3, "raise: recovers")

    # a KeyError raised by the constructor must come out as that very
    # KeyError (it must not be mistaken for "no entry in the table")
    class KeyErr(metaclass=TrueSingleton):
        count = 0

        def __init__(self):
            type(self).count += 1
            raise KeyError("from init")

    for _ in range(3):
        try:
            KeyErr()
        except KeyError as err:
            check(err.args == ("from init",), "keyerror: same exception")
        else:
            check(False, "keyerror: should have raised")
    check(KeyErr.count == 3, "keyerror: constructor tried each time")


def scripted_reentrancy():
    clear_true_singleton()

    class Other(metaclass=TrueSingleton):
        pass

    # __init__ that clears *everything* while running: the new instance still
    # ends up registered, every other class is reset.
    class ClearsAll(metaclass=TrueSingleton):
        inits = 0

        def __init__(self):
            type(self).inits += 1
            clear_true_singleton()

    o1 = keep(Other())
    ca1 = keep(ClearsAll())
    check(ClearsAll() is ca1, "clearsall: registered after its own clear")
    check(ClearsAll() is ca1 and ClearsAll.inits == 1, "clearsall: one init")
    o2 = keep(Other())
    check(o2 is not o1, "clearsall: others were reset")
    check(Other() is o2, "clearsall: others stable again")
    clear_true_singleton(ClearsAll)
    ca2 = keep(ClearsAll())
    check(ca2 is not ca1 and ClearsAll.inits == 2, "clearsall: second round")
    check(Other() is not o2, "clearsall: others reset again")
    check(ClearsAll() is ca2, "clearsall: second round stable")

    # __init__ that clears its own class while running (no entry yet)
    class ClearsSelf(metaclass=TrueSingleton):
        inits = 0

        def __init__(self):
            type(self).inits += 1
            clear_true_singleton(type(self))

    o3 = keep(Other())
    cs1 = keep(ClearsSelf())
    check(ClearsSelf() is cs1 and ClearsSelf.inits == 1, "clearsself: kept")
    check(Other() is o3, "clearsself: others untouched")

    # __init__ that re-enters its own constructor once
    class Reenter(metaclass=TrueSingleton):
        depth = 0
        made = []
        inner_result = None

        def __init__(self, tag):
            cls = type(self)
            self.tag = tag
            cls.made.append(self)
            if cls.depth == 0:
                cls.depth += 1
                cls.inner_result = cls("inner")
                cls.depth -= 1

    outer = keep(Reenter("outer"))
    check(len(Reenter.made) == 2, "reenter: two objects were initialised")
    check(Reenter.made[0] is outer and outer.tag == "outer", "reenter: outer")
    inner = keep(Reenter.made[1])
    check(Reenter.inner_result is inner and inner.tag == "inner",
          "reenter: inner call returned the inner object")
    check(inner is not outer, "reenter: distinct")
    check(Reenter("later") is outer, "reenter: outer is the survivor")
    check(len(Reenter.made) == 2, "reenter: no more inits")

    # __init__ that constructs *other* singletons (one of which exists)
    class Builder(metaclass=TrueSingleton):
        def __init__(self):
            self.other = Other()
            self.mine = ClearsSelf()

    b = keep(Builder())
    check(b.other is o3 and b.mine is cs1, "builder: nested lookups")
    check(Builder() is b, "builder: stable")

    # a long chain of singletons constructing each other from __init__
    chain = []

    def link_init(self):
        idx = type(self).idx
        self.next = chain[idx + 1]() if idx + 1 < len(chain) else None

    for idx in range(60):
        chain.append(TrueSingleton("Link%d" % idx, (), {"__init__": link_init, "idx": idx}))
    head = keep(chain[0]())
    node, seen = head, []
    while node is not None:
        seen.append(node)
        node = node.next
    check(len(seen) == 60, "chain: all built")
    check(all(type(n) is chain[i] for i, n in enumerate(seen)), "chain: types")
    check(all(chain[i]() is n for i, n in enumerate(seen)), "chain: registered")
    clear_true_singleton(chain[30])
    check(chain[0]() is head and chain[31]() is seen[31], "chain: others kept")
    n30 = keep(chain[30]())
    check(n30 is not seen[30] and n30.next is seen[31], "chain: relinked")

    # infinite re-entry must end in RecursionError and leave nothing behind
    class Forever(metaclass=TrueSingleton):
        stop = False
        inits = 0

        def __init__(self):
            type(self).inits += 1
            if not type(self).stop:
                type(self)()

    check(raises(RecursionError, Forever), "forever: RecursionError")
    Forever.stop = True
    before = Forever.inits
    f = keep(Forever())
    check(Forever.inits == before + 1, "forever: nothing was registered")
    check(Forever() is f, "forever: now stable")


def scripted_metaclass_subclass():
    clear_true_singleton()

    class LoggingMeta(TrueSingleton):
        calls = []

        def __call__(cls, *args, **kwargs):
            LoggingMeta.calls.append((cls.__name__, args))
            return super().__call__(*args, **kwargs)

    class Plain(metaclass=TrueSingleton):
        pass

    class Logged(metaclass=LoggingMeta):
        def __init__(self, v=None):
            self.v = v

    class LoggedChild(Logged):
        pass

    p = keep(Plain())
    l1 = keep(Logged(1))
    lc1 = keep(LoggedChild(2))
    check(Logged(3) is l1 and l1.v == 1, "submeta: singleton")
    check(LoggedChild(4) is lc1 and lc1.v == 2, "submeta: child singleton")
    check(l1 is not lc1, "submeta: separate")
    check(
        LoggingMeta.calls
        == [("Logged", (1,)), ("LoggedChild", (2,)), ("Logged", (3,)),
            ("LoggedChild", (4,))],
        "submeta: every call goes through the sub-metaclass",
    )
    clear_true_singleton(Logged)
    check(LoggedChild() is lc1 and Plain() is p, "submeta: targeted clear")
    l2 = keep(Logged(5))
    check(l2 is not l1 and l2.v == 5, "submeta: fresh")
    # a global clear covers classes of sub-metaclasses too
    clear_true_singleton()
    check(Logged(6) is not l2, "submeta: global clear covers it")
    check(LoggedChild(7) is not lc1, "submeta: global clear covers child")
    check(Plain() is not p, "submeta: global clear covers plain")

    # direct invocation of the metaclass method
    class Direct(metaclass=TrueSingleton):
        def __init__(self, *a):
            self.a = a

    d = keep(TrueSingleton.__call__(Direct, 1, 2))
    check(Direct() is d and d.a == (1, 2), "direct: metaclass __call__")
    check(type(Direct).__call__(Direct, 9) is d, "direct: again")
    # applied to a class that is not a TrueSingleton class: TypeError from
    # super(), nothing registered
    # applied to something that is not a TrueSingleton class: the registry
    # cannot be reached through it -> AttributeError, before anything else
    check(raises(AttributeError, TrueSingleton.__call__, int, 5), "direct: int")
    check(raises(AttributeError, TrueSingleton.__call__, 5), "direct: non-class")

    # class created dynamically through the metaclass
    Dyn = TrueSingleton("Dyn", (), {"__init__": lambda self, x: setattr(self, "x", x)})
    d1 = keep(Dyn(10))
    check(Dyn(11) is d1 and d1.x == 10, "dynamic: works")
    # two distinct classes with the same name & qualname are distinct keys
    Dyn2 = TrueSingleton("Dyn", (), {"__init__": lambda self, x: setattr(self, "x", x)})
    d2 = keep(Dyn2(20))
    check(d2 is not d1 and d2.x == 20 and Dyn(0) is d1, "dynamic: same name")


def scripted_clear_arguments():
    """
    ``clear_true_singleton`` dispatches on the truth value of its argument and
    uses it as a dictionary key; pin what that means for unusual arguments.
    """
    clear_true_singleton()

    class One(metaclass=TrueSingleton):
        pass

    class Two(metaclass=TrueSingleton):
        pass

    class NotSingleton:
        pass

    def both():
        return keep(One()), keep(Two())

    o, t = both()

    # truthy things that are not registered: harmless no-ops
    for arg in (NotSingleton, int, 42, "One", (1, 2), o, t, object(), 1.5,
                TrueSingleton, singleton, len, frozenset([1])):
        check(clear_true_singleton(arg) is None, "cleararg: returns None")
        check(One() is o and Two() is t, "cleararg: %r is a no-op" % (arg,))

    # truthy but unhashable: TypeError, nothing changes
    for arg in ([1], {1: 2}, {1}, bytearray(b"x")):
        check(raises(TypeError, clear_true_singleton, arg),
              "cleararg: unhashable %r -> TypeError" % (arg,))
        check(One() is o and Two() is t, "cleararg: state kept after TypeError")

    # falsy things behave like "no argument": everything is cleared
    for arg in (None, 0, "", (), [], {}, set(), 0.0, False, b"", range(0)):
        o, t = both()
        check(clear_true_singleton(arg) is None, "cleararg: returns None")
        o2, t2 = One(), Two()
        check(o2 is not o and t2 is not t, "cleararg: falsy %r clears all" % (arg,))
        keep(o2)
        keep(t2)

    # keyword form
    o, t = both()
    clear_true_singleton(cls=One)
    check(One() is not o and Two() is t, "cleararg: keyword form")
    o, t = both()
    clear_true_singleton(cls=None)
    check(One() is not o and Two() is not t, "cleararg: keyword None")

    # an object whose truth value cannot be determined
    class NoBool:
        def __bool__(self):
            raise ValueError("no truth")

    o, t = both()
    check(raises(ValueError, clear_true_singleton, NoBool()), "cleararg: nobool")
    check(One() is o and Two() is t, "cleararg: state kept after ValueError")

    # too many arguments
    check(raises(TypeError, clear_true_singleton, One, Two), "cleararg: 2 args")
    check(One() is o and Two() is t, "cleararg: state kept after TypeError")

    # an instance hashing/comparing equal to nothing registered
    class EqNothing:
        def __hash__(self):
            return hash(One)

        def __eq__(self, other):
            return False

    clear_true_singleton(EqNothing())
    check(One() is o and Two() is t, "cleararg: colliding hash, unequal")


def scripted_vertex_and_pickle():
    clear_true_singleton()

    uni = Universe()
    v1 = keep(PickleTex(1, universes=[uni], attributes={"k": "v"}))
    v2 = PickleTex(2)
    check(v1 is v2 and v1.i == 1, "vertex: singleton vertex")
    check(v1 in uni.vertices and len(uni.vertices) == 1, "vertex: in universe")
    check(v1.k == "v", "vertex: attributes")
    names_before = sorted(vars(v1))

    for proto in range(pickle.HIGHEST_PROTOCOL + 1):
        blob = pickle.dumps([v1, v2, PickleTex], protocol=proto)
        back = pickle.loads(blob)
        check(back[0] is back[1], "pickle[%d]: sharing kept" % proto)
        check(back[0] is not v1, "pickle[%d]: a copy, not the instance" % proto)
        check(back[0].i == 1 and back[0].k == "v", "pickle[%d]: payload" % proto)
        check(back[2] is PickleTex, "pickle[%d]: class by reference" % proto)
        check(sorted(vars(back[0])) == names_before, "pickle[%d]: attrs" % proto)
        check(PickleTex(3) is v1, "pickle[%d]: registry untouched" % proto)
        keep(back)

    # the metaclass and the function pickle by reference
    check(pickle.loads(pickle.dumps(TrueSingleton)) is TrueSingleton, "pickle: meta")
    check(
        pickle.loads(pickle.dumps(clear_true_singleton)) is clear_true_singleton,
        "pickle: function",
    )

    # copying bypasses the metaclass as well
    r = keep(Recorder("copy-me"))
    n = len(Recorder.log)
    c = keep(copy.copy(r))
    dc = keep(copy.deepcopy(r))
    check(c is not r and dc is not r, "copy: copies are new objects")
    check(len(Recorder.log) == n, "copy: no __init__")
    check(Recorder() is r, "copy: registry untouched")

    # after a clear the universe keeps the old vertex, the new one is separate
    clear_true_singleton(PickleTex)
    v3 = keep(PickleTex(4, attributes={"k": "w"}))
    check(v3 is not v1 and v3.i == 4, "vertex: fresh after clear")
    check(v1 in uni.vertices and v3 not in uni.vertices, "vertex: universes")
    check(sorted(n for n in vars(v3) if not n.startswith("_"))
          == sorted(n for n in names_before if not n.startswith("_")),
          "vertex: public attribute names")


def scripted_module_surface():
    public = sorted(n for n in dir(singleton) if not n.startswith("_"))
    expected = sorted(
        [
            "Callable", "Generator", "Hashable", "TrueSingleton", "annotations",
            "json", "add_mapping", "check_semi_singleton_entry_exists",
            "clear_semi_singleton", "clear_true_singleton",
            "drop_semi_singleton_mapping", "get_all_semi_singleton_instances",
            "semi_singleton_metaclass",
        ]
    )
    check(public == expected, "surface: public module names %r" % (public,))
    star = {}
    exec("from edgegraph.structure.singleton import *", star)  # pylint: disable=exec-used
    star.pop("__builtins__", None)
    check(sorted(star) == expected, "surface: star-import %r" % (sorted(star),))
    pub_meta = sorted(n for n in vars(TrueSingleton) if not n.startswith("_"))
    check(pub_meta == [], "surface: no public names on the metaclass")
    check("__call__" in vars(TrueSingleton), "surface: __call__ defined")
    check(TrueSingleton.__mro__ == (TrueSingleton, type, object), "surface: mro")
    check(TrueSingleton.__module__ == "edgegraph.structure.singleton", "surface")
    check(clear_true_singleton.__name__ == "clear_true_singleton", "surface")
    check(clear_true_singleton.__defaults__ == (None,), "surface: default None")
    check(clear_true_singleton.__kwdefaults__ is None, "surface: no kwdefaults")
    code = clear_true_singleton.__code__
    check(code.co_varnames[: code.co_argcount] == ("cls",), "surface: arg name")
    check(code.co_argcount == 1 and code.co_kwonlyargcount == 0, "surface: argc")
    check(TrueSingleton.__doc__ and clear_true_singleton.__doc__, "surface: docs")

    # semi-singletons live in a different table and are not affected
    class Semi(metaclass=singleton.semi_singleton_metaclass()):
        def __init__(self, x):
            self.x = x

    s = keep(Semi(1))
    clear_true_singleton()
    clear_true_singleton(Semi)
    check(Semi(1) is s, "surface: semi-singletons untouched by true clear")
    singleton.clear_semi_singleton(Semi)


###############################################################################
# part 2 -- number and order of user-visible callbacks
###############################################################################


def scripted_probe_counts():
    """
    A sub-metaclass may give classes a custom ``__hash__`` / ``__eq__`` /
    ``__bool__``.  Those are user callbacks; pin how often and in which order
    they are invoked, and that state is left intact when they raise.
    """
    clear_true_singleton()
    events = []

    class ProbeMeta(TrueSingleton):
        raise_on_hash = None  # countdown; raise when it hits zero
        falsy = False

        def __hash__(cls):
            events.append(("hash", cls.__name__))
            meta = type(cls)
            if meta.raise_on_hash is not None:
                meta.raise_on_hash -= 1
                if meta.raise_on_hash < 0:
                    meta.raise_on_hash = None
                    raise OverflowError("hash")
            return type.__hash__(cls)

        def __eq__(cls, other):
            events.append(("eq", cls.__name__))
            return cls is other

        def __bool__(cls):
            events.append(("bool", cls.__name__))
            return not type(cls).falsy

    class P(metaclass=ProbeMeta):
        def __init__(self, *a):
            events.append(("init", a))

    class Q(metaclass=TrueSingleton):
        pass

    q = keep(Q())

    def take():
        got = list(events)
        del events[:]
        return got

    take()
    p = keep(P(1))
    check(take() == [("hash", "P"), ("init", (1,)), ("hash", "P"), ("hash", "P")],
          "probe: miss path = lookup, construct, store, fetch")
    check(P(2) is p, "probe: hit")
    check(take() == [("hash", "P"), ("hash", "P")], "probe: hit path = 2 lookups")

    clear_true_singleton(P)
    check(take() == [("bool", "P"), ("hash", "P"), ("hash", "P")],
          "probe: clear existing = truth, lookup, delete")
    clear_true_singleton(P)
    check(take() == [("bool", "P"), ("hash", "P")],
          "probe: clear missing = truth, lookup")
    clear_true_singleton()
    check(take() == [], "probe: global clear touches no class")

    # hashing fails at the 1st lookup: constructor never runs
    ProbeMeta.raise_on_hash = 0
    check(raises(OverflowError, P, 3), "probe: hash error (lookup)")
    check(take() == [("hash", "P")], "probe: no construction happened")
    # hashing fails at the store: constructed but not registered
    ProbeMeta.raise_on_hash = 1
    check(raises(OverflowError, P, 4), "probe: hash error (store)")
    check(take() == [("hash", "P"), ("init", (4,)), ("hash", "P")],
          "probe: constructed, store failed")
    p5 = keep(P(5))
    check(take() == [("hash", "P"), ("init", (5,)), ("hash", "P"), ("hash", "P")],
          "probe: so the next call constructs again")
    # hashing fails at the final fetch: registered nevertheless
    clear_true_singleton(P)
    take()
    ProbeMeta.raise_on_hash = 2
    check(raises(OverflowError, P, 6), "probe: hash error (fetch)")
    check(take() == [("hash", "P"), ("init", (6,)), ("hash", "P"), ("hash", "P")],
          "probe: stored, fetch failed")
    p6 = keep(P(7))
    check(take() == [("hash", "P"), ("hash", "P")], "probe: it was registered")
    check(p6 is not p5 and p6 is not p, "probe: and it is the 6-instance")
    # hashing fails on the hit path's fetch
    ProbeMeta.raise_on_hash = 1
    check(raises(OverflowError, P, 8), "probe: hash error (hit fetch)")
    check(take() == [("hash", "P"), ("hash", "P")], "probe: two lookups")
    check(P() is p6, "probe: still registered")
    take()
    # hashing fails in clear: at lookup -> still there; at delete -> still there
    ProbeMeta.raise_on_hash = 0
    check(raises(OverflowError, clear_true_singleton, P), "probe: clear/lookup")
    check(take() == [("bool", "P"), ("hash", "P")], "probe: clear/lookup events")
    check(P() is p6, "probe: still registered (2)")
    take()
    ProbeMeta.raise_on_hash = 1
    check(raises(OverflowError, clear_true_singleton, P), "probe: clear/delete")
    check(take() == [("bool", "P"), ("hash", "P"), ("hash", "P")],
          "probe: clear/delete events")
    check(P() is p6, "probe: still registered (3)")
    take()

    # a *falsy class* given to clear_true_singleton clears everything
    q = keep(Q())
    ProbeMeta.falsy = True
    clear_true_singleton(P)
    check(take() == [("bool", "P")], "probe: falsy class -> only truth test")
    ProbeMeta.falsy = False
    q2 = keep(Q())
    check(q2 is not q, "probe: falsy class argument cleared all")
    p9 = keep(P(9))
    check(p9 is not p6, "probe: including itself")
    take()

    # callback that clears everything from inside the lookup of a clear:
    # the rebinding must be seen by the following delete
    class SneakyMeta(TrueSingleton):
        armed = False

        def __hash__(cls):
            if type(cls).armed:
                type(cls).armed = False
                clear_true_singleton()
            return type.__hash__(cls)

        def __eq__(cls, other):
            return cls is other

    class S(metaclass=SneakyMeta):
        pass

    s1 = keep(S())
    q3 = keep(Q())
    # armed during construction lookup: table swapped before the test
    clear_true_singleton(S)
    SneakyMeta.armed = True
    s2 = keep(S())
    check(s2 is not s1 and S() is s2, "sneaky: construct with clear in lookup")
    check(Q() is not q3, "sneaky: others cleared")
    # armed on the hit path: the table is fetched, then hashing the class
    # swaps the table; membership is decided on the *old* table (hit), the
    # final fetch goes to the *new*, empty one -> KeyError(cls)
    SneakyMeta.armed = True
    try:
        S()
    except KeyError as err:
        check(err.args == (S,), "sneaky: KeyError carries the class")
    else:
        check(False, "sneaky: hit path with clear in lookup must KeyError")
    s3 = keep(S())
    check(s3 is not s2 and S() is s3, "sneaky: afterwards a fresh instance")
    # armed in clear(S): same story -- found in the old table, deleted from
    # the new one -> KeyError(cls), and everything is cleared
    q4 = keep(Q())
    SneakyMeta.armed = True
    try:
        clear_true_singleton(S)
    except KeyError as err:
        check(err.args == (S,), "sneaky: clear KeyError carries the class")
    else:
        check(False, "sneaky: clear with clear in lookup must KeyError")
    check(S() is not s3 and Q() is not q4, "sneaky: all gone")


###############################################################################
# part 3 -- seeded random differential run against an independent oracle
###############################################################################


class Oracle:
    """
    Model written from the property statement: per class, either "no
    instance" or "the instance"; constructions with an instance return it and
    do not run __init__; constructions without one run __init__ exactly once
    with the given arguments and (if that succeeds) make the result the
    instance; clear(cls) forgets one; clear() forgets all.
    """

    def __init__(self, classes):
        self.live = {c: None for c in classes}
        self.has = {c: False for c in classes}
        self.init_calls = {c: [] for c in classes}

    def construct(self, cls, args, kwargs, will_raise):
        """Returns (expect_fresh, expected_obj)."""
        if self.has[cls]:
            return False, self.live[cls]
        self.init_calls[cls].append((args, kwargs))
        if will_raise:
            return True, None
        return True, None

    def commit(self, cls, obj):
        self.has[cls] = True
        self.live[cls] = obj

    def clear(self, cls=None):
        if cls is None:
            for key in self.has:
                self.has[key] = False
                self.live[key] = None
        elif cls in self.has:
            self.has[cls] = False
            self.live[cls] = None


class RandomFail(Exception):
    pass


def make_random_classes():
    calls = {}

    def init(self, *args, **kwargs):
        calls.setdefault(type(self), []).append((args, kwargs))
        if kwargs.get("fail"):
            raise RandomFail(args)
        self.args = args
        self.kwargs = kwargs

    class Meta2(TrueSingleton):
        pass

    class Meta3(Meta2):
        def __call__(cls, *args, **kwargs):
            return super().__call__(*args, **kwargs)

    ns = {"__init__": init}
    A = TrueSingleton("A", (), dict(ns))
    B = TrueSingleton("B", (A,), {})
    C = TrueSingleton("C", (B,), dict(ns))
    D = TrueSingleton("D", (), dict(ns))
    E = Meta2("E", (), dict(ns))
    F = Meta2("F", (A,), {})
    G = Meta3("G", (E,), {})
    def vinit(self, *args, **kwargs):
        calls.setdefault(type(self), []).append((args, kwargs))
        if kwargs.get("fail"):
            raise RandomFail(args)
        Vertex.__init__(self)
        self.args = args
        self.kwargs = kwargs

    H = Meta3("H", (Vertex,), {"__init__": vinit})
    return [A, B, C, D, E, F, G, H], calls


def random_differential(seed, steps):
    rng = random.Random(seed)
    clear_true_singleton()
    classes, calls = make_random_classes()
    for c in classes:
        calls[c] = []
    oracle = Oracle(classes)
    ever = []  # every object ever returned, kept alive

    class Stranger(metaclass=TrueSingleton):
        """never instantiated; clearing it must be harmless"""

    for step in range(steps):
        roll = rng.random()
        where = "seed %d step %d" % (seed, step)
        if roll < 0.62:
            cls = rng.choice(classes)
            nargs = rng.randrange(0, 3)
            args = tuple(rng.randrange(100) for _ in range(nargs))
            kwargs = {}
            if rng.random() < 0.3:
                kwargs["k"] = rng.randrange(100)
            will_fail = rng.random() < 0.15
            if will_fail:
                kwargs["fail"] = True
            expect_fresh, expected = oracle.construct(cls, args, kwargs, will_fail)
            n_before = len(calls[cls])
            try:
                got = cls(*args, **kwargs)
            except RandomFail as err:
                check(expect_fresh and will_fail, where + ": unexpected failure")
                check(err.args == (args,), where + ": exception payload")
                check(len(calls[cls]) == n_before + 1, where + ": one init (fail)")
                continue
            if expect_fresh:
                check(not will_fail, where + ": should have raised")
                check(all(got is not old for old in ever), where + ": not fresh")
                check(type(got) is cls, where + ": type")
                check(len(calls[cls]) == n_before + 1, where + ": one init")
                check(calls[cls][-1] == (args, kwargs), where + ": init args")
                check(got.args == args and got.kwargs == kwargs, where + ": payload")
                oracle.commit(cls, got)
                ever.append(got)
            else:
                check(got is expected, where + ": identity")
                check(len(calls[cls]) == n_before, where + ": no init")
        elif roll < 0.80:
            cls = rng.choice(classes)
            check(clear_true_singleton(cls) is None, where + ": clear returns None")
            oracle.clear(cls)
        elif roll < 0.86:
            form = rng.randrange(4)
            if form == 0:
                clear_true_singleton()
            elif form == 1:
                clear_true_singleton(None)
            elif form == 2:
                clear_true_singleton(cls=None)
            else:
                clear_true_singleton(0)
            oracle.clear()
        elif roll < 0.93:
            # harmless clears
            target = rng.choice([Stranger, int, 17, "A", object()])
            clear_true_singleton(target)
        else:
            # full audit: every class with an instance returns it, init untouched
            for cls in classes:
                if oracle.has[cls]:
                    n_before = len(calls[cls])
                    check(cls(fail=True) is oracle.live[cls], where + ": audit id")
                    check(len(calls[cls]) == n_before, where + ": audit init")

        # the oracle's init log must match the real one, always
        if step % 25 == 0:
            for cls in classes:
                check(calls[cls] == oracle.init_calls[cls], where + ": init log")

    for cls in classes:
        check(calls[cls] == oracle.init_calls[cls], "seed %d: final init log" % seed)
        if oracle.has[cls]:
            check(cls() is oracle.live[cls], "seed %d: final identity" % seed)
    # pairwise distinct live instances
    live = [oracle.live[c] for c in classes if oracle.has[c]]
    check(len({id(x) for x in live}) == len(live), "seed %d: distinct" % seed)
    clear_true_singleton()
    for cls in classes:
        n_before = len(calls[cls])
        fresh = cls()
        check(all(fresh is not old for old in ever), "seed %d: fresh at end" % seed)
        check(len(calls[cls]) == n_before + 1, "seed %d: init at end" % seed)
        ever.append(fresh)
    GRAVEYARD.append(ever)


###############################################################################
# main
###############################################################################


def main():
    gc.disable()  # nothing here depends on collection; keep ids stable
    scripted_basic()
    scripted_argument_passing()
    scripted_falsy_and_odd_instances()
    scripted_raising_constructors()
    scripted_reentrancy()
    scripted_metaclass_subclass()
    scripted_clear_arguments()
    scripted_vertex_and_pickle()
    scripted_module_surface()
    scripted_probe_counts()
    # run the scripted part a second time: it must be repeatable, i.e. it
    # must not depend on leftovers in the registry
    scripted_basic()
    scripted_reentrancy()
    scripted_probe_counts()
    for seed in range(40):
        random_differential(seed, 400)
    random_differential(12345, 5000)
    clear_true_singleton()

    print("%d checks, %d failures" % (CHECKS, len(FAILURES)))
    if FAILURES:
        for msg in FAILURES[:50]:
            print("  -", msg)
        return 1
    print("OK")
    return 0


if __name__ == "__main__":
    sys.exit(main())
