#!/usr/bin/env python3
"""
equiv.py (rewrite 2) -- exercises the neighbour lookup behind basic_render
(edgegraph.traversal.helpers.neighbors) and the statistics of the neighbour
cache (Vertex.total_cache_stats), plus the C16 rendering property itself.

Exit status 0 = everything as expected.
"""

import pickle
import sys

from edgegraph.structure import (
    Vertex,
    Universe,
    TwoEndedLink,
    Link,
    DirectedEdge,
    UnDirectedEdge,
)
from edgegraph.traversal import helpers
from edgegraph.traversal.helpers import (
    neighbors,
    DIR_SENS_FORWARD as FWD,
    DIR_SENS_BACKWARD as BWD,
    DIR_SENS_ANY as ANY,
    LNK_UNKNOWN_ERROR as U_ERR,
    LNK_UNKNOWN_NEIGHBOR as U_NB,
    LNK_UNKNOWN_NONNEIGHBOR as U_NON,
)
from edgegraph.output import plaintext

FAILS = []


def check(cond, what):
    if not cond:
        FAILS.append(what)
        print("FAIL:", what)


def raises(exc, fn, what):
    try:
        fn()
    except exc:
        return
    except BaseException as other:  # pylint: disable=broad-except
        check(False, f"{what}: wrong exception {type(other).__name__}: {other}")
        return
    check(False, f"{what}: nothing raised")


class BothEdge(UnDirectedEdge, DirectedEdge):
    """Undirected wins: it is asked first."""


class BothEdgeRev(DirectedEdge, UnDirectedEdge):
    """Still undirected: the order of the bases does not matter."""


class MyDirected(DirectedEdge):
    pass


def names(vs):
    return [None if v is None else v.name for v in vs]


def build():
    uni = Universe()
    verts = {}
    for i, n in enumerate("abcde"):
        verts[n] = Vertex(attributes={"i": i, "name": n}, universes=[uni])
    verts["x"] = Vertex(attributes={"i": 99, "name": "x"})
    spec = [
        (DirectedEdge, "a", "a"),
        (DirectedEdge, "a", "b"),
        (UnDirectedEdge, "b", "c"),
        (MyDirected, "a", "b"),
        (DirectedEdge, "c", "x"),
        (DirectedEdge, "d", "a"),
        (UnDirectedEdge, "c", "c"),
        (BothEdge, "d", "b"),
        (BothEdgeRev, "c", "d"),
    ]
    links = [cls(verts[s], verts[t]) for cls, s, t in spec]
    return uni, verts, links


def stats_text_numbers():
    txt = Vertex.total_cache_stats()
    lines = txt.split("\n")
    check(lines[0] == "=== CACHE STATISTICS OVERALL ===", "stats header")
    labels = [ln.split(":")[0] for ln in lines[1:]]
    check(
        labels == ["Size", "Hits", "Misses", "Invalidations", "Insertions"],
        "stats labels",
    )
    for ln in lines[1:]:
        check(len(ln.split(":")[0] + ":") <= 15 and ln[:15].rstrip().endswith(":"), "stats alignment " + repr(ln))
    return [int(ln[15:]) for ln in lines[1:]]


def run(caching):
    Vertex.NEIGHBOR_CACHING = caching
    Vertex._CACHE_STATS = {}

    uni, v, links = build()
    a, b, c, d, e, x = (v[n] for n in "abcdex")

    # ---- plain lookups, every direction --------------------------------
    want = {
        ("a", FWD): ["a", "b", "b"],
        ("a", BWD): ["a", "d"],
        ("a", ANY): ["a", "b", "b", "d"],
        ("b", FWD): ["c", "d"],
        ("b", BWD): ["a", "c", "a", "d"],
        ("b", ANY): ["a", "c", "a", "d"],
        ("c", FWD): ["b", "x", "c", "d"],
        ("c", BWD): ["b", "c", "d"],
        ("c", ANY): ["b", "x", "c", "d"],
        ("d", FWD): ["a", "b", "c"],
        ("d", BWD): ["b", "c"],
        ("d", ANY): ["a", "b", "c"],
        ("e", FWD): [],
        ("e", BWD): [],
        ("e", ANY): [],
        ("x", FWD): [],
        ("x", BWD): ["c"],
        ("x", ANY): ["c"],
    }
    for rounds in range(2):  # second round is served by the cache, if enabled
        for (n, direction), expected in want.items():
            got = neighbors(v[n], direction)
            check(names(got) == expected, f"neighbors({n}, {direction}) = {names(got)}")
            check(type(got) is list, "a list comes back")
            got.append("scribble")  # the caller owns the list
    check(names(neighbors(a)) == ["a", "b", "b"], "default direction is forward")
    check(
        names(neighbors(a, direction_sensitive=FWD, unknown_handling=U_NON, filterfunc=None))
        == ["a", "b", "b"],
        "keywords",
    )

    # directions that merely compare equal to the constants
    check(names(neighbors(b, 0.0)) == ["c", "d"], "0.0 is forward")
    check(names(neighbors(b, False)) == ["c", "d"], "False is forward")
    check(names(neighbors(a, True)) == ["a", "b", "b", "d"], "True is any")
    check(names(neighbors(a, 2.0)) == ["a", "d"], "2.0 is backward")

    # unknown direction: complained about only once a link is looked at
    raises(ValueError, lambda: neighbors(a, 3), "direction 3")
    raises(ValueError, lambda: neighbors(a, "forward"), "direction 'forward'")
    raises(ValueError, lambda: neighbors(a, None), "direction None")
    check(neighbors(e, 3) == [], "isolated vertex, direction 3")

    # ---- filterfunc -----------------------------------------------------
    for direction, expected_calls in (
        (FWD, [(0, "a"), (1, "b"), (3, "b")]),
        (BWD, [(0, "a"), (5, "d")]),
        (ANY, [(0, "a"), (1, "b"), (3, "b"), (5, "d")]),
    ):
        calls = []

        def ff(lnk, other):
            calls.append((links.index(lnk), other.name))
            return other is not a

        got = neighbors(a, direction, filterfunc=ff)
        check(calls == expected_calls, f"filterfunc calls dir={direction}: {calls}")
        check(names(got) == [n for _, n in expected_calls if n != "a"], f"filtered dir={direction}")
        if caching:
            # same function object again: answered from the cache, no calls
            calls.clear()
            got = neighbors(a, direction, filterfunc=ff)
            check(calls == [], "cached answer does not call the filter")
            check(names(got) == [n for _, n in expected_calls if n != "a"], "cached filtered answer")

    # truthiness of the filter's answer is what counts
    check(names(neighbors(c, FWD, filterfunc=lambda l, o: o.i % 2)) == ["b", "x", "d"], "truthy ints")
    check(names(neighbors(c, FWD, filterfunc=lambda l, o: [])) == [], "falsy lists")

    class Boom(Exception):
        pass

    def bad(lnk, other):
        raise Boom

    raises(Boom, lambda: neighbors(a, FWD, filterfunc=bad), "raising filter")
    check(names(neighbors(e, FWD, filterfunc=bad)) == [], "raising filter never asked")
    check(names(neighbors(x, FWD, filterfunc=bad)) == [], "raising filter never asked (inbound only)")
    check(names(neighbors(a, FWD)) == ["a", "b", "b"], "fine after the failure")

    # ---- links of unknown class ----------------------------------------
    p = Vertex(attributes={"name": "p"})
    q = Vertex(attributes={"name": "q"})
    r = Vertex(attributes={"name": "r"})
    d1 = DirectedEdge(p, q)
    t1 = TwoEndedLink(p, r)
    u1 = UnDirectedEdge(r, p)
    for direction, known in ((FWD, ["q", "p"]), (BWD, ["p"])):
        raises(NotImplementedError, lambda: neighbors(p, direction), "unknown -> error (default)")
        raises(NotImplementedError, lambda: neighbors(p, direction, U_ERR), "unknown -> error")
        raises(NotImplementedError, lambda: neighbors(p, direction, 17), "odd unknown_handling -> error")
        raises(NotImplementedError, lambda: neighbors(p, direction, None), "None unknown_handling -> error")
    check(names(neighbors(p, FWD, U_NON)) == ["q", "r"], "fwd, unknown skipped")
    check(names(neighbors(p, FWD, U_NB)) == ["q", "r", "r"], "fwd, unknown taken")
    check(names(neighbors(p, BWD, U_NON)) == ["r"], "bwd, unknown skipped")
    check(names(neighbors(p, BWD, U_NB)) == ["r", "r"], "bwd, unknown taken")
    check(names(neighbors(p, ANY)) == ["q", "r", "r"], "any: class never looked at")
    check(names(neighbors(p, ANY, U_ERR)) == ["q", "r", "r"], "any + error handling")
    check(names(neighbors(p, FWD, True)) == ["q", "r", "r"], "True is LNK_UNKNOWN_NEIGHBOR")
    check(names(neighbors(p, FWD, 0.0)) == ["q", "r"], "0.0 is LNK_UNKNOWN_NONNEIGHBOR")
    calls = []
    got = neighbors(p, FWD, U_NB, lambda l, o: calls.append(l) or l is not t1)
    check(names(got) == ["q", "r"] and calls == [d1, t1, u1], "filter also asked for unknown links")
    calls = []
    got = neighbors(p, FWD, U_NON, lambda l, o: calls.append(l) or True)
    check(names(got) == ["q", "r"] and calls == [d1, u1], "filter not asked for skipped links")
    # the error comes before the filter is asked about that link
    calls = []
    raises(
        NotImplementedError,
        lambda: neighbors(p, FWD, U_ERR, lambda l, o: calls.append(l) or True),
        "error with filter",
    )
    check(calls == [d1], "filter asked up to the unknown link only")

    # a directed edge that lists the vertex only as a third wheel is "unknown"
    w = Vertex(attributes={"name": "w"})
    d2 = DirectedEdge(q, r)
    w.add_to_link(d2)
    check(names(d2.vertices) == ["q", "r", "w"], "third vertex listed")
    raises(NotImplementedError, lambda: neighbors(w), "third wheel -> error")
    raises(NotImplementedError, lambda: neighbors(w, BWD), "third wheel -> error (bwd)")
    check(neighbors(w, FWD, U_NON) == [], "third wheel, skipped")
    check(neighbors(w, FWD, U_NB) == [None], "third wheel, other() is None")
    check(neighbors(w, ANY) == [None], "third wheel, any")

    # a link without other()
    z = Vertex(attributes={"name": "z"})
    Link(vertices=[z, p], _force_creation=True)
    for direction in (FWD, BWD, ANY, 3):
        raises(AttributeError, lambda: neighbors(z, direction), "generic Link has no other()")

    # an edge that lost an end
    m = Vertex(attributes={"name": "m"})
    n = Vertex(attributes={"name": "n"})
    lost = DirectedEdge(m, n)
    lost.unlink_from(n)
    check(neighbors(n) == [], "unlinked end has no neighbours left")
    raises(IndexError, lambda: neighbors(m), "edge with a single end")
    raises(IndexError, lambda: neighbors(m, ANY), "edge with a single end (any)")

    # None ends
    k = Vertex(attributes={"name": "k"})
    DirectedEdge(k, None)
    DirectedEdge(None, k)
    UnDirectedEdge(None, k)
    check(neighbors(k, FWD) == [None, None], "None ends, forward")
    check(neighbors(k, BWD) == [None, None], "None ends, backward")
    check(neighbors(k, ANY) == [None, None, None], "None ends, any")

    # ---- rendering (C16) ------------------------------------------------
    check(
        plaintext.basic_render(uni, rfunc=lambda vv: vv.name)
        == "a -> a, b, b\nb -> c, d\nc -> b, x, c, d\nd -> a, b, c\ne -> ",
        "render, universe order",
    )
    check(
        plaintext.basic_render(uni, rfunc=lambda vv: vv.i, sort=lambda vv: -vv.i)
        == "4 -> \n3 -> 2, 1, 0\n2 -> 99, 3, 2, 1\n1 -> 3, 2\n0 -> 1, 1, 0",
        "render, sorted",
    )
    got = plaintext.basic_render(uni)
    check(
        got == "\n".join(
            repr(vv) + " -> " + ", ".join(repr(o) for o in neighbors(vv))
            for vv in uni.vertices
        ),
        "render, repr",
    )
    check(plaintext.basic_render(Universe()) is None, "render, empty")

    # ---- cache statistics -----------------------------------------------
    if not caching:
        check(Vertex.total_cache_stats() == "Neighbor caching is DISABLED", "stats text, disabled")
        check(Universe.total_cache_stats() == "Neighbor caching is DISABLED", "stats text via subclass")
        return

    Vertex._CACHE_STATS = {}
    check(stats_text_numbers() == [0, 0, 0, 0, 0], "fresh table")
    check(
        Vertex.total_cache_stats()
        == "=== CACHE STATISTICS OVERALL ===\n"
        "Size:          0\n"
        "Hits:          0\n"
        "Misses:        0\n"
        "Invalidations: 0\n"
        "Insertions:    0",
        "exact stats text",
    )
    s1 = Vertex(uid=1001)
    s2 = Vertex(uid=1002)
    check(stats_text_numbers() == [2, 0, 0, 0, 0], "two rows, creation counts nothing")
    neighbors(s1)
    check(stats_text_numbers() == [2, 0, 1, 0, 1], "miss + insertion")
    neighbors(s1)
    neighbors(s1)
    check(stats_text_numbers() == [2, 2, 1, 0, 1], "two hits")
    neighbors(s1, ANY)
    check(stats_text_numbers() == [2, 2, 2, 0, 2], "another key: miss + insertion")
    ed = DirectedEdge(s1, s2)
    after_link = stats_text_numbers()
    check(after_link[:3] == [2, 2, 2] and after_link[4] == 2 and after_link[3] > 0, "linking invalidates")
    check(neighbors(s1) == [s2], "fresh answer after linking")
    check(neighbors(s2, BWD) == [s1], "backward over the new edge")
    now = stats_text_numbers()
    check(now[1] == 2 and now[2] == 4 and now[4] == 4, "two more misses + insertions")
    # a failed lookup is a miss without an insertion
    raises(ValueError, lambda: neighbors(s1, 7), "bad direction with caching")
    then = stats_text_numbers()
    check(then[2] == now[2] + 1 and then[4] == now[4] and then[1] == now[1], "miss only")
    # a vertex created with a uid seen before starts its row over
    total_before = stats_text_numbers()
    Vertex(uid=1001)
    total_after = stats_text_numbers()
    check(total_after[0] == 2, "same uid, same row")
    check(total_after[1] == 0, "hits of uid 1001 are gone: " + repr(total_after))
    # uids that compare equal share a row
    Vertex(uid=1002.0)
    check(stats_text_numbers()[0] == 2, "1002.0 == 1002")
    # the subclass sees the same table
    check(Universe.total_cache_stats() == Vertex.total_cache_stats(), "shared table")

    # vertices that never went through __init__ here get their row lazily
    Vertex._CACHE_STATS = {}
    s3 = pickle.loads(pickle.dumps(s2))
    check(stats_text_numbers() == [0, 0, 0, 0, 0], "unpickling creates no row")
    check(len(neighbors(s3, BWD)) == 1, "unpickled neighbour lookup")
    got = stats_text_numbers()
    check(got[0] == 1 and got[1] + got[2] == 1, "row appears on first use: " + repr(got))
    s3.remove_from_link(s3.links[0])
    check(stats_text_numbers()[3] >= 1, "invalidation counted on a lazily created row")

    # disabled again: text changes, counters stay put
    snapshot = stats_text_numbers()
    Vertex.NEIGHBOR_CACHING = False
    neighbors(s3)
    UnDirectedEdge(s3, s1)
    check(Vertex.total_cache_stats() == "Neighbor caching is DISABLED", "disabled text")
    Vertex.NEIGHBOR_CACHING = True
    check(stats_text_numbers() == snapshot, "nothing counted while disabled")
    check(neighbors(s3) == [s1], "answer stored before the switch-off is not reused")


def main():
    for caching in (False, True, False, True):
        run(caching)
    Vertex.NEIGHBOR_CACHING = False
    if FAILS:
        print(f"{len(FAILS)} check(s) failed")
        return 1
    print("all checks passed")
    return 0


if __name__ == "__main__":
    sys.exit(main())
