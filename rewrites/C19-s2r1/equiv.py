#!/usr/bin/python3
# -*- coding: utf-8 -*-

"""
Equivalence / conformance program for property C19:

    "A universe and its laws always point at each other, after any
    (re)assignments"

Only the public API of edgegraph is used.  The program has

* scripted corner cases (construction, moving, detaching, re-attaching after
  None, no-op assignments, one-sided ``UniverseLaws(applies_to=...)``
  constructions, aliasing, foreign / duck-typed partners, partners whose
  property raises, re-entrant partners, read-only rule attributes, the edge
  whitelist copies, pickling);
* a seeded random differential part against a *relational* oracle written
  from the property statement (the relation "u.laws is L" is a partial
  bijection that an assignment edits in the obvious way);
* a seeded random differential part against a small step-by-step reference
  model that also predicts the exact sequence of property accesses observed
  by logging subclasses, with exceptions injected at arbitrary points.

Everything is executed twice: with Vertex.NEIGHBOR_CACHING off and on.

Exit status 0 means everything is as demanded.
"""

import operator
import pickle
import random
import sys
import types

from edgegraph.structure import BaseObject, Universe, Vertex
from edgegraph.structure.universe import UniverseLaws
from edgegraph.output import nrpickler

CHECKS = 0


def ck(cond, msg):
    """Count a check; abort with a message when it fails."""
    global CHECKS
    CHECKS += 1
    if not cond:
        print("FAILED:", msg)
        sys.exit(1)


def raises(exc_type, fn):
    """Run fn(); return the exception if it is exactly of the given kind."""
    try:
        fn()
    except exc_type as exc:  # pylint: disable=broad-except
        return exc
    except BaseException as exc:  # pylint: disable=broad-except
        ck(False, f"expected {exc_type.__name__}, got {type(exc).__name__}: {exc}")
    ck(False, f"expected {exc_type.__name__}, nothing was raised")
    return None


class Boom(Exception):
    """Raised by test doubles."""


def both(u, l, msg):
    """u and l point at each other."""
    ck(u.laws is l, f"{msg}: u.laws is not the law set")
    ck(l.applies_to is u, f"{msg}: l.applies_to is not the universe")


###############################################################################
# scripted: plain life cycle


def scripted_basic():
    # construction without laws: a fresh default set, linked both ways
    u = Universe()
    d = u.laws
    ck(type(d) is UniverseLaws, "default laws have wrong type")
    both(u, d, "default construction")
    ck(d.edge_whitelist is None, "default whitelist")
    ck(d.mixed_links is False, "default mixed_links")
    ck(d.cycles is True, "default cycles")
    ck(d.multipath is True, "default multipath")
    ck(d.multiverse is False, "default multiverse")
    ck(Universe().laws is not Universe().laws, "default laws are shared")
    ck(u.vertices == [] and u.universes == [] and len(u.links) == 0, "fresh universe not empty")

    # construction with laws
    l1 = UniverseLaws(cycles=False)
    ck(l1.applies_to is None, "fresh laws are bound")
    u1 = Universe(laws=l1)
    both(u1, l1, "construction with laws")

    # construction with laws that govern another universe: they move
    u2 = Universe(laws=l1)
    both(u2, l1, "construction moves laws")
    ck(u1.laws is None, "moved laws kept by the first universe")

    # the lawless universe accepts laws again, from the universe side ...
    l2 = UniverseLaws()
    u1.laws = l2
    both(u1, l2, "laws after None (universe side)")
    # ... and from the law side
    u1.laws = None
    ck(u1.laws is None and l2.applies_to is None, "detach via universe")
    l2.applies_to = u1
    both(u1, l2, "laws after None (law side)")

    # detach via the law side
    l2.applies_to = None
    ck(u1.laws is None and l2.applies_to is None, "detach via laws")
    # repeated None is a no-op on both sides
    u1.laws = None
    l2.applies_to = None
    ck(u1.laws is None and l2.applies_to is None, "None twice")

    # replace: old set is released
    u1.laws = l2
    l3 = UniverseLaws()
    u1.laws = l3
    both(u1, l3, "replace")
    ck(l2.applies_to is None, "replaced laws still bound")

    # replace from the law side
    l2.applies_to = u1
    both(u1, l2, "replace from law side")
    ck(l3.applies_to is None, "replaced laws still bound (law side)")

    # steal: both participants had partners
    both(u2, l1, "precondition")
    u1.laws = l1
    both(u1, l1, "steal")
    ck(u2.laws is None, "victim universe keeps stolen laws")
    ck(l2.applies_to is None, "ousted laws still bound")

    # steal from law side
    u2.laws = l2
    both(u2, l2, "precondition 2")
    l1.applies_to = u2
    both(u2, l1, "steal (law side)")
    ck(u1.laws is None, "victim universe keeps stolen laws (law side)")
    ck(l2.applies_to is None, "ousted laws still bound (law side)")

    # no-op self assignments
    u2.laws = u2.laws
    l1.applies_to = l1.applies_to
    both(u2, l1, "self assignment")

    # swapping the laws of two universes through a temporary
    a, b = Universe(), Universe()
    la, lb = a.laws, b.laws
    a.laws = lb
    ck(b.laws is None and la.applies_to is None, "swap step 1")
    b.laws = la
    both(a, lb, "swap a")
    both(b, la, "swap b")

    # a chain of moves of one law set
    unis = [Universe() for _ in range(6)]
    defaults = [x.laws for x in unis]
    lx = UniverseLaws()
    for i, x in enumerate(unis):
        if i % 2:
            lx.applies_to = x
        else:
            x.laws = lx
        both(x, lx, f"chain {i}")
        for j, y in enumerate(unis):
            if j < i:
                ck(y.laws is None, "chain: left-behind universe has laws")
                ck(defaults[j].applies_to is None, "chain: ousted default bound")
            elif j > i:
                both(y, defaults[j], "chain: untouched")
    ck(defaults[i].applies_to is None, "chain: last ousted")

    # universes keep working as vertices/containers
    v = Vertex()
    u.add_vertex(v)
    ck(u.vertices == [v] and v.universes == [u], "add_vertex broken")
    u.laws = None
    ck(u.vertices == [v], "laws assignment touched vertices")
    w = Universe(vertices=[v], laws=d, uid=77, attributes={"k": 1})
    ck(w.uid == 77 and w.k == 1 and w.vertices == [v], "ctor args")
    both(w, d, "ctor args laws")
    ck(v.universes == [u, w], "vertex universes")

    # generator / repeated vertices to the constructor
    vs = [Vertex(), Vertex()]
    g = Universe(vertices=(x for x in vs + vs))
    ck(g.vertices == vs, "generator vertices")

    # subclasses without overrides behave the same
    class SubU(Universe):
        pass

    class SubL(UniverseLaws):
        pass

    su = SubU()
    ck(type(su.laws) is UniverseLaws, "subclass default laws type")
    sl = SubL(multiverse=True)
    su.laws = sl
    both(su, sl, "subclass")
    ck(sl.multiverse is True, "subclass rule")

    # identity, not equality, decides whether an assignment is a no-op
    class EqU(Universe):
        def __eq__(self, other):
            return True

        __hash__ = Universe.__hash__

    class EqL(UniverseLaws):
        def __eq__(self, other):
            return True

        __hash__ = UniverseLaws.__hash__

    e1, e2 = EqU(), EqU()
    f1, f2 = EqL(), EqL()
    e1.laws = f1
    e1.laws = f2
    both(e1, f2, "equal-but-distinct laws")
    ck(f1.applies_to is None, "equal-but-distinct laws: former")
    f2.applies_to = e2
    both(e2, f2, "equal-but-distinct universes")
    ck(e1.laws is None, "equal-but-distinct universes: former")
    # a stale partner that merely compares equal is left alone
    e1.laws = f1
    f3 = EqL(applies_to=e1)
    f3.applies_to = None
    both(e1, f1, "equal-but-distinct stale")
    both(e2, f2, "equal-but-distinct stale 2")
    ck(f3.applies_to is None, "equal-but-distinct stale 3")

    # bad constructor arguments are still rejected by the superclass, before
    # any laws are involved
    lq = UniverseLaws()
    raises(TypeError, lambda: Universe(laws=lq, attributes=[1]))
    ck(lq.applies_to is None, "failed construction bound the laws")

    # "laws" in the attributes dictionary hits the property too early
    raises(AttributeError, lambda: Universe(attributes={"laws": lq}))
    ck(lq.applies_to is None, "failed construction bound the laws (2)")


###############################################################################
# scripted: one-sided construction UniverseLaws(applies_to=u)


def scripted_onesided():
    # the constructor records applies_to verbatim and does not touch u
    u = Universe()
    d = u.laws
    l = UniverseLaws(applies_to=u)
    ck(l.applies_to is u, "ctor applies_to not recorded")
    both(u, d, "ctor applies_to touched the universe")

    # same target again: nothing to do, stays one-sided
    l.applies_to = u
    ck(l.applies_to is u, "one-sided no-op")
    both(u, d, "one-sided no-op touched the universe")

    # universe side completes the link
    u.laws = l
    both(u, l, "one-sided completed")
    ck(d.applies_to is None, "one-sided completed: old default")

    # detaching a one-sided set leaves the universe alone
    u = Universe()
    d = u.laws
    l = UniverseLaws(applies_to=u)
    l.applies_to = None
    ck(l.applies_to is None, "one-sided detach")
    both(u, d, "one-sided detach touched the universe")

    # moving a one-sided set leaves the former universe alone
    u, u2 = Universe(), Universe()
    d, d2 = u.laws, u2.laws
    l = UniverseLaws(applies_to=u)
    l.applies_to = u2
    both(u2, l, "one-sided move")
    both(u, d, "one-sided move touched the former universe")
    ck(d2.applies_to is None, "one-sided move: ousted")

    # the universe drops its own laws while a one-sided set claims it
    u = Universe()
    d = u.laws
    l = UniverseLaws(applies_to=u)
    u.laws = None
    ck(u.laws is None and d.applies_to is None, "drop")
    ck(l.applies_to is u, "drop touched the one-sided set")
    u.laws = l
    both(u, l, "claim accepted")

    # given to another universe by construction
    u = Universe()
    l = UniverseLaws(applies_to=u)
    u3 = Universe(laws=l)
    both(u3, l, "one-sided into constructor")
    ck(type(u.laws) is UniverseLaws and u.laws is not l, "former universe")
    ck(u.laws.applies_to is u, "former universe link")

    # one-sided with a non-universe
    marker = Vertex()
    l = UniverseLaws(applies_to=marker)
    ck(l.applies_to is marker, "ctor applies_to verbatim")
    ck("laws" not in vars(marker), "ctor applies_to touched the object")


###############################################################################
# scripted: aliasing and foreign partners


class SpyUniverse:
    """Duck-typed universe: records traffic on its ``laws`` attribute."""

    def __init__(self):
        self.log = []
        self.value = None
        self.fail = False
        self.on_none = None

    @property
    def laws(self):
        self.log.append(("get",))
        return self.value

    @laws.setter
    def laws(self, new):
        self.log.append(("set", new))
        if self.fail:
            raise Boom("laws")
        self.value = new
        if new is None and self.on_none is not None:
            hook, self.on_none = self.on_none, None
            hook()


class SpyLaws:
    """Duck-typed law set: records traffic on ``applies_to``."""

    def __init__(self):
        self.log = []
        self.value = None
        self.fail = False
        self.on_none = None

    @property
    def applies_to(self):
        self.log.append(("get",))
        return self.value

    @applies_to.setter
    def applies_to(self, new):
        self.log.append(("set", new))
        if self.fail:
            raise Boom("applies_to")
        self.value = new
        if new is None and self.on_none is not None:
            hook, self.on_none = self.on_none, None
            hook()


def scripted_foreign():
    # --- a universe as its own laws; BaseObjects are namespaces
    u = Universe()
    d = u.laws
    u.laws = u
    ck(u.laws is u, "u.laws = u")
    ck(d.applies_to is None, "u.laws = u: default not released")
    ck(vars(u).get("applies_to") is u, "u.laws = u: namespace attribute")
    u.laws = None
    ck(u.laws is None and u.applies_to is None, "u.laws = u undone")

    # --- a law set as its own universe
    l = UniverseLaws()
    l.applies_to = l
    ck(l.applies_to is l and vars(l).get("laws") is l, "l.applies_to = l")
    l.applies_to = None
    ck(l.applies_to is None and l.laws is None, "l.applies_to = l undone")

    # --- a vertex as laws
    u = Universe()
    d = u.laws
    v = Vertex()
    u.laws = v
    ck(u.laws is v and v.applies_to is u and d.applies_to is None, "vertex laws")
    # it stops claiming the universe on its own
    v.applies_to = "elsewhere"
    l = UniverseLaws()
    u.laws = l
    both(u, l, "after vertex laws")
    ck(v.applies_to == "elsewhere", "stale partner was reset")

    # --- object() has no attributes at all: law side
    u = Universe()
    d = u.laws
    o = object()
    raises(AttributeError, lambda: setattr(d, "applies_to", o))
    ck(d.applies_to is o, "failed attach: value not recorded")
    ck(u.laws is None, "failed attach: former universe kept the laws")
    # moving on needs to ask the recorded object, which fails again
    raises(AttributeError, lambda: setattr(d, "applies_to", u))
    ck(d.applies_to is u, "failed detach: new value not recorded")
    ck(u.laws is None, "failed detach: attach must not have happened")
    d.applies_to = u  # no-op now
    ck(u.laws is None, "no-op attach happened")
    d.applies_to = None
    ck(d.applies_to is None and u.laws is None, "cleanup")
    d.applies_to = u
    both(u, d, "recovered")

    # --- object(): universe side
    u = Universe()
    d = u.laws
    o = object()
    raises(AttributeError, lambda: setattr(u, "laws", o))
    ck(u.laws is o, "failed attach (u): value not recorded")
    ck(d.applies_to is None, "failed attach (u): old laws not released")
    l = UniverseLaws()
    raises(AttributeError, lambda: setattr(u, "laws", l))
    ck(u.laws is l, "failed detach (u): value not recorded")
    ck(l.applies_to is None, "failed detach (u): attach must not have happened")
    u.laws = l  # no-op
    ck(l.applies_to is None, "no-op attach happened (u)")
    u.laws = None
    ck(u.laws is None, "cleanup (u)")
    u.laws = l
    both(u, l, "recovered (u)")

    # --- the stock test: assigning object() to applies_to
    l = UniverseLaws(edge_whitelist={int: {str: float}})
    raises(AttributeError, lambda: setattr(l, "applies_to", object()))

    # --- spy universe: exact traffic
    l = UniverseLaws()
    s = SpyUniverse()
    l.applies_to = s
    ck(s.log == [("set", l)], f"spy attach traffic {s.log}")
    ck(l.applies_to is s and s.value is l, "spy attach state")
    s.log.clear()
    l.applies_to = s
    ck(s.log == [], "spy no-op traffic")
    u = Universe()
    d = u.laws
    l.applies_to = u
    ck(s.log == [("get",), ("set", None)], f"spy detach traffic {s.log}")
    ck(s.value is None, "spy detach state")
    both(u, l, "spy -> universe")
    ck(d.applies_to is None, "spy -> universe: ousted")

    # spy that holds something else is only asked, not reset
    l = UniverseLaws()
    s = SpyUniverse()
    l.applies_to = s
    s.value = "other"
    s.log.clear()
    l.applies_to = None
    ck(s.log == [("get",)], f"spy stale traffic {s.log}")
    ck(s.value == "other" and l.applies_to is None, "spy stale state")

    # spy raising on attach: detaching of the former universe already happened
    u = Universe()
    l = u.laws
    s = SpyUniverse()
    s.fail = True
    raises(Boom, lambda: setattr(l, "applies_to", s))
    ck(s.log == [("set", l)], f"spy failing attach traffic {s.log}")
    ck(l.applies_to is s, "spy failing attach: recorded")
    ck(u.laws is None, "spy failing attach: former universe")
    ck(s.value is None, "spy failing attach: spy")

    # spy raising on detach: the new universe is not attached
    l = UniverseLaws()
    s = SpyUniverse()
    l.applies_to = s
    s.fail = True
    s.log.clear()
    u = Universe()
    d = u.laws
    raises(Boom, lambda: setattr(l, "applies_to", u))
    ck(s.log == [("get",), ("set", None)], f"spy failing detach traffic {s.log}")
    ck(l.applies_to is u, "spy failing detach: recorded")
    both(u, d, "spy failing detach: new universe must be untouched")
    ck(s.value is l, "spy failing detach: spy")
    l.applies_to = u
    both(u, d, "spy failing detach: retry is a no-op")

    # re-entrant spy: when released it sends the laws to a third universe;
    # the outer assignment must then install the laws where they are
    # recorded *now*
    l = UniverseLaws()
    s = SpyUniverse()
    l.applies_to = s
    u2, u3 = Universe(), Universe()
    d2, d3 = u2.laws, u3.laws
    s.on_none = lambda: setattr(l, "applies_to", u3)
    s.log.clear()
    l.applies_to = u2
    ck(s.log == [("get",), ("set", None)], f"re-entrant traffic {s.log}")
    both(u3, l, "re-entrant: third universe")
    both(u2, d2, "re-entrant: second universe must be untouched")
    ck(d3.applies_to is None, "re-entrant: ousted")

    # --- spy laws: exact traffic
    u = Universe()
    d = u.laws
    sl = SpyLaws()
    u.laws = sl
    ck(sl.log == [("set", u)], f"spy laws attach traffic {sl.log}")
    ck(u.laws is sl and sl.value is u and d.applies_to is None, "spy laws attach")
    sl.log.clear()
    u.laws = sl
    ck(sl.log == [], "spy laws no-op traffic")
    u.laws = None
    ck(sl.log == [("get",), ("set", None)], f"spy laws detach traffic {sl.log}")
    ck(u.laws is None and sl.value is None, "spy laws detach")

    # stale spy laws
    u = Universe()
    sl = SpyLaws()
    u.laws = sl
    sl.value = "other"
    sl.log.clear()
    l = UniverseLaws()
    u.laws = l
    ck(sl.log == [("get",)], f"spy laws stale traffic {sl.log}")
    ck(sl.value == "other", "spy laws stale state")
    both(u, l, "spy laws stale")

    # spy laws raising on attach
    u = Universe()
    d = u.laws
    sl = SpyLaws()
    sl.fail = True
    raises(Boom, lambda: setattr(u, "laws", sl))
    ck(sl.log == [("set", u)], "spy laws failing attach traffic")
    ck(u.laws is sl and d.applies_to is None and sl.value is None, "spy laws failing attach")

    # spy laws raising on detach
    u = Universe()
    sl = SpyLaws()
    u.laws = sl
    sl.fail = True
    sl.log.clear()
    l = UniverseLaws()
    raises(Boom, lambda: setattr(u, "laws", l))
    ck(sl.log == [("get",), ("set", None)], "spy laws failing detach traffic")
    ck(u.laws is l and l.applies_to is None and sl.value is u, "spy laws failing detach")

    # re-entrant spy laws: when released, gives the universe a third law set;
    # the outer assignment then still installs the law set it was given
    u = Universe()
    sl = SpyLaws()
    u.laws = sl
    l2, l3 = UniverseLaws(), UniverseLaws()
    sl.on_none = lambda: setattr(u, "laws", l3)
    u.laws = l2
    both(u, l2, "re-entrant laws: the assigned set wins")
    ck(l3.applies_to is None, "re-entrant laws: intermediate set released")
    ck(sl.value is None, "re-entrant laws: spy")

    # partners that implement the attribute protocol themselves
    class Dyn:
        """Answers every attribute through __getattr__ / __setattr__."""

        def __init__(self):
            object.__setattr__(self, "log", [])
            object.__setattr__(self, "store", {})

        def __getattr__(self, name):
            self.log.append(("get", name))
            try:
                return self.store[name]
            except KeyError:
                raise AttributeError(name) from None

        def __setattr__(self, name, value):
            self.log.append(("set", name, value))
            self.store[name] = value

    dyn = Dyn()
    l = UniverseLaws()
    l.applies_to = dyn
    ck(dyn.log == [("set", "laws", l)], f"dyn universe attach {dyn.log}")
    del dyn.log[:]
    l.applies_to = None
    ck(dyn.log == [("get", "laws"), ("set", "laws", None)], f"dyn universe detach {dyn.log}")
    ck(l.applies_to is None, "dyn universe detach state")
    # a recorded partner without the attribute: the lookup failure escapes
    dyn2 = Dyn()
    l = UniverseLaws(applies_to=dyn2)
    exc = raises(AttributeError, lambda: setattr(l, "applies_to", None))
    ck(dyn2.log == [("get", "laws")], f"dyn universe missing attribute {dyn2.log}")
    ck(l.applies_to is None, "dyn universe missing attribute state")

    dyn = Dyn()
    u = Universe()
    d = u.laws
    u.laws = dyn
    ck(dyn.log == [("set", "applies_to", u)], f"dyn laws attach {dyn.log}")
    ck(d.applies_to is None, "dyn laws attach: ousted")
    del dyn.log[:]
    u.laws = d
    ck(dyn.log == [("get", "applies_to"), ("set", "applies_to", None)], f"dyn laws detach {dyn.log}")
    both(u, d, "dyn laws detach state")

    # construction with a spy law set
    sl = SpyLaws()
    u = Universe(laws=sl)
    ck(u.laws is sl and sl.value is u and sl.log == [("set", u)], "ctor spy laws")

    # construction with laws whose attach raises: exception escapes
    sl = SpyLaws()
    sl.fail = True
    raises(Boom, lambda: Universe(laws=sl))


###############################################################################
# scripted: rule attributes


class CountingKey:
    """Hashable key that counts how often it is hashed."""

    hashed = 0

    def __init__(self, n):
        self.n = n

    def __hash__(self):
        CountingKey.hashed += 1
        return hash(self.n)

    def __eq__(self, other):
        return self is other


class DuckMapping:
    """Only offers items(); counts the calls."""

    def __init__(self, pairs):
        self.pairs = list(pairs)
        self.calls = 0

    def items(self):
        self.calls += 1
        return iter(self.pairs)


RULES = ("mixed_links", "cycles", "multipath", "multiverse")


def scripted_rules():
    # arbitrary objects are read back by identity
    sentinels = [object(), None, 0, "yes", [1], Vertex()]
    for i, val in enumerate(sentinels):
        kwargs = {r: sentinels[(i + k) % len(sentinels)] for k, r in enumerate(RULES)}
        l = UniverseLaws(**kwargs)
        for r in RULES:
            ck(getattr(l, r) is kwargs[r], f"{r} not read back")
        # ... and stay after link traffic
        u = Universe(laws=l)
        u.laws = None
        l.applies_to = u
        for r in RULES:
            ck(getattr(l, r) is kwargs[r], f"{r} changed by linking")
        # ... and cannot be assigned or deleted
        for r in RULES + ("edge_whitelist",):
            raises(AttributeError, lambda r=r, l=l: setattr(l, r, True))
            raises(AttributeError, lambda r=r, l=l: delattr(l, r))
            raises(AttributeError, lambda r=r, l=l: l.__setitem__(r, True))
        for r in RULES:
            ck(getattr(l, r) is kwargs[r], f"{r} changed by failed assignment")
            ck(l[r] is kwargs[r], f"{r} item access")

    # positional order of the constructor
    l = UniverseLaws(None, 1, 2, 3, 4, None)
    ck((l.mixed_links, l.cycles, l.multipath, l.multiverse) == (1, 2, 3, 4), "positional")
    ck(l.edge_whitelist is None and l.applies_to is None, "positional None")

    # the descriptors are plain properties with documentation
    for r in RULES + ("edge_whitelist", "applies_to"):
        prop = getattr(UniverseLaws, r)
        ck(isinstance(prop, property), f"{r} is not a property")
        ck(bool(prop.__doc__ and prop.__doc__.strip()), f"{r} has no docstring")
        ck(prop.fdel is None, f"{r} has a deleter")
        ck((prop.fset is None) == (r != "applies_to"), f"{r} setter presence")
    ck(isinstance(Universe.laws, property) and Universe.laws.fset is not None, "laws property")

    # whitelist: deep read-only copy, fresh on every access
    inner = {str: float}
    given = {int: inner}
    l = UniverseLaws(edge_whitelist=given)
    w = l.edge_whitelist
    ck(isinstance(w, types.MappingProxyType), "whitelist type")
    ck(isinstance(w[int], types.MappingProxyType), "inner whitelist type")
    ck(w == {int: {str: float}}, "whitelist value")
    ck(l.edge_whitelist is not w, "whitelist not fresh")
    ck(l.edge_whitelist[int] is not w[int], "inner whitelist not fresh")
    raises(TypeError, lambda: operator.setitem(w, "dog", "cat"))
    raises(TypeError, lambda: operator.setitem(w[int], str, "cat"))
    # the caller's dictionaries are not shared
    inner[bytes] = int
    given[float] = {}
    del given[int]
    ck(l.edge_whitelist == {int: {str: float}}, "whitelist shares caller's dicts")
    ck(given == {float: {}}, "caller's dict modified")

    # empty whitelist is not None
    l = UniverseLaws(edge_whitelist={})
    ck(l.edge_whitelist is not None and dict(l.edge_whitelist) == {}, "empty whitelist")
    l = UniverseLaws(edge_whitelist={int: {}})
    ck(l.edge_whitelist == {int: {}}, "empty inner whitelist")

    # ordering preserved
    keys = [str, int, float, bytes, list, dict]
    l = UniverseLaws(edge_whitelist={k: {kk: k for kk in reversed(keys)} for k in keys})
    ck(list(l.edge_whitelist) == keys, "outer order")
    ck(all(list(l.edge_whitelist[k]) == keys[::-1] for k in keys), "inner order")

    # only items() is needed, and it is called exactly once per mapping, at
    # construction time only
    i1, i2 = DuckMapping([(str, float), (int, int)]), DuckMapping([])
    outer = DuckMapping([(int, i1), (str, i2)])
    l = UniverseLaws(edge_whitelist=outer)
    ck((outer.calls, i1.calls, i2.calls) == (1, 1, 1), "items() calls at construction")
    ck(l.edge_whitelist == {int: {str: float, int: int}, str: {}}, "duck whitelist")
    ck((outer.calls, i1.calls, i2.calls) == (1, 1, 1), "items() calls after reads")
    # repeated keys from items(): last wins
    l = UniverseLaws(edge_whitelist=DuckMapping([(int, {1: 1}), (int, {2: 2})]))
    ck(l.edge_whitelist == {int: {2: 2}}, "repeated keys")

    # number of hash calls on user keys
    k1, k2, k3 = CountingKey(1), CountingKey(2), CountingKey(3)
    src = {k1: {k2: k3}}
    CountingKey.hashed = 0
    l = UniverseLaws(edge_whitelist=src)
    ck(CountingKey.hashed == 4, f"hash calls at construction: {CountingKey.hashed}")
    w = l.edge_whitelist
    ck(CountingKey.hashed == 6, f"hash calls after a read: {CountingKey.hashed}")
    ck(w[k1][k2] is k3, "counting keys value")

    # structure errors
    for wrong in ({"cat": "dog"}, [1, 2, 3, 4, 5], {"cat": [1, 2, 3]}, 5, "x", {1: None}):
        exc = raises(ValueError, lambda wrong=wrong: UniverseLaws(edge_whitelist=wrong))
        ck(isinstance(exc.__cause__, AttributeError), "cause of structure error")
    exc = raises(ValueError, lambda: UniverseLaws(edge_whitelist={1: DuckMapping([(1, 2, 3)])}))
    ck(type(exc.__cause__) is ValueError, "cause of structure error (pairs)")
    # other errors are not translated
    raises(TypeError, lambda: UniverseLaws(edge_whitelist={1: DuckMapping([([], 2)])}))
    raises(TypeError, lambda: UniverseLaws(edge_whitelist=DuckMapping([([], {})])))
    raises(TypeError, lambda: UniverseLaws(edge_whitelist={1: DuckMapping([5])}))

    class Exploding:
        def items(self):
            raise Boom("items")

    raises(Boom, lambda: UniverseLaws(edge_whitelist=Exploding()))
    raises(Boom, lambda: UniverseLaws(edge_whitelist={1: Exploding()}))

    # laws are BaseObjects: uid, namespace, universes
    l = UniverseLaws()
    ck(isinstance(l, BaseObject) and isinstance(l.uid, int), "laws base")
    l.note = 5
    ck(l.note == 5 and l["note"] == 5, "laws namespace")
    u = Universe()
    l.add_to_universe(u)
    ck(l.universes == [u] and l.applies_to is None and u.laws is not l, "universes vs applies_to")


###############################################################################
# scripted: pickling


def scripted_pickling():
    u1, u2, u3 = Universe(), Universe(), Universe()
    l1 = UniverseLaws(
        edge_whitelist={int: {str: float}}, mixed_links=True, cycles=False,
        multipath=False, multiverse=True,
    )
    u1.laws = l1
    u2.laws = None
    lone = UniverseLaws(applies_to=u3)  # one-sided
    v = Vertex()
    u1.add_vertex(v)
    bundle = (u1, l1, u2, u3, lone, v)

    for name, dumps in (
        ("pickle", pickle.dumps),
        ("nrpickler", nrpickler.dumps),
    ):
        q1, m1, q2, q3, qlone, qv = pickle.loads(dumps(bundle))
        both(q1, m1, f"{name}: linked pair")
        ck(q1 is not u1 and m1 is not l1, f"{name}: not a copy")
        ck(q2.laws is None, f"{name}: lawless universe")
        ck(qlone.applies_to is q3 and q3.laws is not qlone, f"{name}: one-sided")
        both(q3, q3.laws, f"{name}: default pair")
        ck(m1.edge_whitelist == {int: {str: float}}, f"{name}: whitelist")
        ck(
            (m1.mixed_links, m1.cycles, m1.multipath, m1.multiverse)
            == (True, False, False, True),
            f"{name}: rules",
        )
        ck(q1.vertices == [qv] and qv.universes == [q1], f"{name}: vertices")
        ck(q1.uid == u1.uid and m1.uid == l1.uid, f"{name}: uids")
        # unpickled objects are fully functional
        m1.applies_to = q2
        both(q2, m1, f"{name}: move after load")
        ck(q1.laws is None, f"{name}: move after load, former")
        q3.laws = qlone
        both(q3, qlone, f"{name}: completing after load")
        raises(AttributeError, lambda m1=m1: setattr(m1, "cycles", True))

    # public (non-underscore) instance attribute names are exactly the user's
    l1.tag = "x"
    u1.tag = "y"
    ck([k for k in vars(l1) if not k.startswith("_")] == ["tag"], "public vars of laws")
    ck([k for k in vars(u1) if not k.startswith("_")] == ["tag"], "public vars of universe")


###############################################################################
# random differential part 1: relational oracle from the property statement


def random_relational(seed, steps):
    rng = random.Random(seed)
    unis, laws = [], []
    rel = {}  # universe index -> law index   (partial bijection)
    rule_vals = []

    def expect_laws(i):
        return laws[rel[i]] if i in rel else None

    def expect_applies(j):
        for i, jj in rel.items():
            if jj == j:
                return unis[i]
        return None

    def assign(i, j):
        """The pair (i, j) is requested; i or j may be None (detach)."""
        if i is not None and j is not None and rel.get(i) == j:
            return
        if i is not None:
            rel.pop(i, None)
        if j is not None:
            for ii in [ii for ii, jj in rel.items() if jj == j]:
                del rel[ii]
        if i is not None and j is not None:
            rel[i] = j

    def new_laws():
        vals = tuple(rng.choice([True, False, None, 0, 1, "s"]) for _ in RULES)
        wl = rng.choice([None, {}, {int: {str: float}}, {Vertex: {Universe: Vertex, int: str}}])
        laws.append(UniverseLaws(wl, *vals))
        rule_vals.append((wl, vals))
        return len(laws) - 1

    def verify(what):
        for i, u in enumerate(unis):
            ck(u.laws is expect_laws(i), f"seed {seed} {what}: universe {i} has wrong laws")
        for j, l in enumerate(laws):
            ck(
                l.applies_to is expect_applies(j),
                f"seed {seed} {what}: law set {j} applies to the wrong universe",
            )
            # u.laws is L  <=>  L.applies_to is u, over everything
            for i, u in enumerate(unis):
                ck((u.laws is l) == (l.applies_to is u), f"seed {seed} {what}: asymmetry")
            wl, vals = rule_vals[j]
            ck(tuple(getattr(l, r) for r in RULES) == vals, f"seed {seed} {what}: rules drifted")
            ck(
                (l.edge_whitelist is None) if wl is None else (l.edge_whitelist == wl),
                f"seed {seed} {what}: whitelist drifted",
            )

    for step in range(steps):
        op = rng.randrange(8)
        if op == 0 or not unis:
            # construction without laws
            unis.append(Universe())
            d = unis[-1].laws
            ck(type(d) is UniverseLaws, "default type")
            laws.append(d)
            rule_vals.append((None, (False, True, True, False)))
            rel[len(unis) - 1] = len(laws) - 1
            what = "Universe()"
        elif op == 1:
            # construction with existing or fresh laws
            j = rng.randrange(len(laws)) if rng.random() < 0.7 else new_laws()
            unis.append(Universe(laws=laws[j]))
            assign(len(unis) - 1, j)
            what = f"Universe(laws=L{j})"
        elif op == 2:
            new_laws()
            what = "UniverseLaws()"
        elif op in (3, 4):
            i = rng.randrange(len(unis))
            j = rng.randrange(len(laws)) if rng.random() < 0.75 else None
            unis[i].laws = None if j is None else laws[j]
            if j is None:
                assign(i, None)
            else:
                assign(i, j)
            what = f"U{i}.laws = L{j}"
        elif op in (5, 6):
            j = rng.randrange(len(laws))
            i = rng.randrange(len(unis)) if rng.random() < 0.75 else None
            laws[j].applies_to = None if i is None else unis[i]
            if i is None:
                assign(None, j)
            else:
                assign(i, j)
            what = f"L{j}.applies_to = U{i}"
        else:
            # re-assign what is there (both sides)
            i = rng.randrange(len(unis))
            unis[i].laws = unis[i].laws
            j = rng.randrange(len(laws))
            laws[j].applies_to = laws[j].applies_to
            what = "self assignment"
        # the assignment itself succeeded
        verify(f"step {step} ({what})")


###############################################################################
# random differential part 2: step model with access traces and failures

RECORDING = False
TRACE = []
FUSE = [None]


def tick(entry):
    """Record one observed property access; maybe blow up."""
    TRACE.append(entry)
    if FUSE[0] is not None:
        FUSE[0] -= 1
        if FUSE[0] == 0:
            FUSE[0] = None
            raise Boom(str(entry))


def tag_of(obj):
    if obj is None:
        return None
    return vars(obj).get("tag", "?") if hasattr(obj, "__dict__") else "?"


class LogUniverse(Universe):
    """Universe whose ``laws`` traffic is observable."""

    @property
    def laws(self):
        if RECORDING:
            tick(("U.get", tag_of(self)))
        return Universe.laws.fget(self)

    @laws.setter
    def laws(self, new):
        if RECORDING:
            tick(("U.set", tag_of(self), tag_of(new)))
        Universe.laws.fset(self, new)


class LogLaws(UniverseLaws):
    """Law set whose ``applies_to`` traffic is observable."""

    @property
    def applies_to(self):
        if RECORDING:
            tick(("L.get", tag_of(self)))
        return UniverseLaws.applies_to.fget(self)

    @applies_to.setter
    def applies_to(self, new):
        if RECORDING:
            tick(("L.set", tag_of(self), tag_of(new)))
        UniverseLaws.applies_to.fset(self, new)


class Model:
    """
    Step-by-step reference for the documented protocol.

    Universe side: no-op if unchanged; store; release the previous laws if
    they still apply here; make the given laws apply here.
    Law side: no-op if unchanged; store; make the previous universe drop these
    laws if it still has them; install these laws in the recorded universe.
    """

    class Obj:
        def __init__(self, kind, tag, logged):
            self.kind, self.tag, self.logged = kind, tag, logged
            self.ref = None  # laws of a universe / universe of laws

    def __init__(self):
        self.trace = []
        self.fuse = None

    def tick(self, entry):
        self.trace.append(entry)
        if self.fuse is not None:
            self.fuse -= 1
            if self.fuse == 0:
                self.fuse = None
                raise Boom(str(entry))

    @staticmethod
    def t(obj):
        return None if obj is None else obj.tag

    def get_laws(self, u):
        if u.logged:
            self.tick(("U.get", u.tag))
        return u.ref

    def get_applies(self, l):
        if l.logged:
            self.tick(("L.get", l.tag))
        return l.ref

    def set_laws(self, u, new):
        if u.logged:
            self.tick(("U.set", u.tag, self.t(new)))
        if new is u.ref:
            return
        old, u.ref = u.ref, new
        if old is not None and self.get_applies(old) is u:
            self.set_applies(old, None)
        if new is not None:
            self.set_applies(new, u)

    def set_applies(self, l, new):
        if l.logged:
            self.tick(("L.set", l.tag, self.t(new)))
        if new is l.ref:
            return
        old, l.ref = l.ref, new
        if old is not None and self.get_laws(old) is l:
            self.set_laws(old, None)
        if l.ref is not None:
            self.set_laws(l.ref, l)


def random_stepmodel(seed, steps):
    global RECORDING
    rng = random.Random(seed)
    model = Model()
    r_unis, m_unis, r_laws, m_laws = [], [], [], []

    def label(obj, reals):
        if obj is None:
            return None
        for kind, seq in reals:
            for idx, cand in enumerate(seq):
                if cand is obj:
                    return (kind, idx)
        return "lost"

    def compare(what):
        reals = (("U", r_unis), ("L", r_laws))
        models = (("U", m_unis), ("L", m_laws))
        for i, (ru, mu) in enumerate(zip(r_unis, m_unis)):
            ck(
                label(Universe.laws.fget(ru), reals) == label(mu.ref, models),
                f"seed {seed} {what}: laws of universe {i}: "
                f"{label(Universe.laws.fget(ru), reals)} vs model {label(mu.ref, models)}",
            )
        for j, (rl, ml) in enumerate(zip(r_laws, m_laws)):
            ck(
                label(UniverseLaws.applies_to.fget(rl), reals) == label(ml.ref, models),
                f"seed {seed} {what}: universe of law set {j}",
            )

    def run(real_fn, model_fn, what):
        """Execute the same step on both sides, with the same fuse."""
        global RECORDING
        fuse = rng.randrange(1, 7) if rng.random() < 0.3 else None
        TRACE.clear()
        model.trace.clear()
        FUSE[0] = fuse
        model.fuse = fuse
        r_exc = m_exc = r_val = m_val = None
        RECORDING = True
        try:
            r_val = real_fn()
        except Boom as exc:
            r_exc = exc
        finally:
            RECORDING = False
            FUSE[0] = None
        try:
            m_val = model_fn()
        except Boom as exc:
            m_exc = exc
        finally:
            model.fuse = None
        ck(TRACE == model.trace, f"seed {seed} {what}: trace {TRACE} vs model {model.trace}")
        ck((r_exc is None) == (m_exc is None), f"seed {seed} {what}: exception mismatch")
        if r_exc is not None:
            ck(str(r_exc) == str(m_exc), f"seed {seed} {what}: raised at a different point")
        return (r_val, m_val) if r_exc is None else None

    counter = [0]

    def fresh_tag(prefix):
        counter[0] += 1
        return f"{prefix}{counter[0]}"

    def add_laws(applies=None):
        logged = rng.random() < 0.6
        tag = fresh_tag("L")
        target = None if applies is None else r_unis[applies]
        rl = (LogLaws if logged else UniverseLaws)(applies_to=target)
        rl.tag = tag
        ml = Model.Obj("L", tag, logged)
        ml.ref = None if applies is None else m_unis[applies]
        r_laws.append(rl)
        m_laws.append(ml)
        return len(r_laws) - 1

    def add_universe(j):
        """Construct a universe, with law set j or the default."""
        logged = rng.random() < 0.6
        tag = fresh_tag("U")
        cls = LogUniverse if logged else Universe

        def real():
            return cls(attributes={"tag": tag}, laws=None if j is None else r_laws[j])

        def mod():
            mu = Model.Obj("U", tag, logged)
            if j is None:
                ml = Model.Obj("L", "?", False)
            else:
                ml = m_laws[j]
            model.set_laws(mu, ml)
            return mu

        res = run(real, mod, f"construct {tag} with L{j}")
        if res is not None:
            ru, mu = res
            r_unis.append(ru)
            m_unis.append(mu)
            if j is None:
                # adopt the default law set on both sides
                rd = Universe.laws.fget(ru)
                ck(type(rd) is UniverseLaws, "default laws type")
                r_laws.append(rd)
                m_laws.append(mu.ref)

    for step in range(steps):
        op = rng.randrange(10)
        if op == 0 or not r_unis or not r_laws:
            add_universe(None)
            what = "Universe()"
        elif op == 1:
            add_universe(rng.randrange(len(r_laws)))
            what = "Universe(laws=...)"
        elif op == 2:
            # fresh, or one-sided claim on an existing universe
            add_laws(rng.randrange(len(r_unis)) if rng.random() < 0.5 else None)
            what = "UniverseLaws(...)"
        elif op in (3, 4, 5):
            i = rng.randrange(len(r_unis))
            j = rng.randrange(len(r_laws)) if rng.random() < 0.8 else None
            what = f"U[{i}].laws = L[{j}]"
            run(
                lambda: setattr(r_unis[i], "laws", None if j is None else r_laws[j]),
                lambda: model.set_laws(m_unis[i], None if j is None else m_laws[j]),
                what,
            )
        elif op in (6, 7, 8):
            j = rng.randrange(len(r_laws))
            i = rng.randrange(len(r_unis)) if rng.random() < 0.8 else None
            what = f"L[{j}].applies_to = U[{i}]"
            run(
                lambda: setattr(r_laws[j], "applies_to", None if i is None else r_unis[i]),
                lambda: model.set_applies(m_laws[j], None if i is None else m_unis[i]),
                what,
            )
        else:
            # reads are traced as well
            i = rng.randrange(len(r_unis))
            j = rng.randrange(len(r_laws))
            what = "reads"
            res = run(
                lambda: (r_unis[i].laws, r_laws[j].applies_to),
                lambda: (model.get_laws(m_unis[i]), model.get_applies(m_laws[j])),
                what,
            )
        compare(f"step {step} ({what})")


###############################################################################


def main():
    for caching in (False, True):
        Vertex.NEIGHBOR_CACHING = caching
        scripted_basic()
        scripted_onesided()
        scripted_foreign()
        scripted_rules()
        scripted_pickling()
        for seed in range(40):
            random_relational(1000 + seed, 60)
        for seed in range(150):
            random_stepmodel(5000 + seed, 80)
    Vertex.NEIGHBOR_CACHING = False
    print(f"equiv.py: all {CHECKS} checks passed")
    return 0


if __name__ == "__main__":
    sys.exit(main())
