#!/usr/bin/env python3
"""
equiv.py for C08 / rewrite 2 (helpers.neighbors() and the per-vertex neighbor
cache that every search / traversal goes through).

Checks that bfs / dfs_recursive / dfs_iterative return the first match of
bft / dft_recursive / dft_iterative (or None) with caching off, on and toggled,
and pins down the observable behaviour of neighbors() and of the cache
(answers, ownership of returned lists, statistics text, invalidation, pickling).
Exit status 0 == everything as expected.
"""

import copy
import pickle
import random
import sys

from edgegraph.structure import (
    Vertex,
    Universe,
    DirectedEdge,
    UnDirectedEdge,
    TwoEndedLink,
)
from edgegraph.traversal import helpers, breadthfirst, depthfirst
from edgegraph.output import nrpickler
from edgegraph.builder import explicit

FWD, ANY, BWD = (
    helpers.DIR_SENS_FORWARD,
    helpers.DIR_SENS_ANY,
    helpers.DIR_SENS_BACKWARD,
)
U_NON, U_NB, U_ERR = (
    helpers.LNK_UNKNOWN_NONNEIGHBOR,
    helpers.LNK_UNKNOWN_NEIGHBOR,
    helpers.LNK_UNKNOWN_ERROR,
)

PAIRS = [
    (breadthfirst.bfs, breadthfirst.bft, "bfs"),
    (depthfirst.dfs_recursive, depthfirst.dft_recursive, "dfs_recursive"),
    (depthfirst.dfs_iterative, depthfirst.dft_iterative, "dfs_iterative"),
]

CHECKS = 0


def check(cond, msg):
    global CHECKS
    CHECKS += 1
    if not cond:
        print("FAIL:", msg)
        sys.exit(1)


class Falsy(Vertex):
    def __bool__(self):
        return False


class OtherLink(TwoEndedLink):
    """Neither directed nor undirected: an 'unknown' link class."""


class Both(UnDirectedEdge, DirectedEdge):
    """Subclass of both edge kinds; counts as undirected."""


class Box:
    def __init__(self, payload):
        self.payload = payload

    def __eq__(self, other):
        return isinstance(other, Box) and other.payload == self.payload

    def __hash__(self):
        return hash(self.payload)


def expected_neighbors(vert, direction, unknown, ff=None):
    """Independent statement of what neighbors() answers.  Returns the list, or
    the exception class that is raised."""
    out = []
    for link in vert.links:
        a, b = link.vertices
        far = b if a is vert else a
        if direction == ANY:
            take = True
        elif direction in (FWD, BWD):
            near_end, far_end = (a, b) if direction == FWD else (b, a)
            if isinstance(link, UnDirectedEdge):
                take = True
            elif isinstance(link, DirectedEdge) and near_end is vert:
                take = True
            elif isinstance(link, DirectedEdge) and far_end is vert:
                take = False
            elif unknown == U_NON:
                take = False
            elif unknown == U_NB:
                take = True
            else:
                return NotImplementedError
        else:
            return ValueError
        if take and (ff is None or ff(link, far)):
            out.append(far)
    return out


def same_objects(got, exp):
    return len(got) == len(exp) and all(x is y for x, y in zip(got, exp))


def oracle(order, attrib, val):
    for v in order:
        if hasattr(v, attrib) and getattr(v, attrib) == val:
            return v
    return None


def build_world(rng, with_unknown):
    n = rng.randrange(1, 8)
    verts = []
    for i in range(n):
        v = rng.choice([Vertex, Falsy])()
        v.idx = i
        kind = rng.randrange(3)
        if kind == 1:
            v.tag = rng.randrange(3)
        elif kind == 2:
            v.tag = Box(rng.randrange(3))
        verts.append(v)
    edge_classes = [DirectedEdge, UnDirectedEdge, DirectedEdge, Both]
    if with_unknown:
        edge_classes.append(OtherLink)
    for k in range(rng.randrange(0, 14)):
        a = rng.choice(verts)
        b = a if rng.random() < 0.15 else rng.choice(verts)
        e = rng.choice(edge_classes)(a, b)
        e.num = k
        if rng.random() < 0.2:
            e2 = type(e)(a, b)  # parallel edge
            e2.num = 100 + k
    uni = Universe()
    members = [v for v in verts if rng.random() < 0.7] or [verts[0]]
    for v in members:
        uni.add_vertex(v)
    return verts, uni, members


def check_neighbors(verts, tag):
    seen_calls = []

    def ff(link, v2):
        seen_calls.append((link, v2))
        return link.num % 2 == 0

    for v in verts:
        for direction in (FWD, ANY, BWD, 7):
            for unknown in (U_NON, U_NB, U_ERR):
                for flt in (None, ff):
                    del seen_calls[:]
                    exp = expected_neighbors(v, direction, unknown, flt)
                    exp_calls = list(seen_calls)
                    # twice: the second answer may come from the cache
                    for rnd in (1, 2):
                        del seen_calls[:]
                        try:
                            got = helpers.neighbors(v, direction, unknown, flt)
                        except (NotImplementedError, ValueError) as exc:
                            got = type(exc)
                        where = f"{tag} v{v.idx} d={direction} u={unknown} r={rnd}"
                        if isinstance(exp, list):
                            check(
                                isinstance(got, list) and same_objects(got, exp),
                                f"neighbors {where}",
                            )
                            # the caller owns the list it gets
                            got.append("junk")
                            if Vertex.NEIGHBOR_CACHING and rnd == 2:
                                check(seen_calls == [], f"filter re-run {where}")
                            else:
                                check(seen_calls == exp_calls, f"filter calls {where}")
                        else:
                            check(got is exp, f"neighbors raises {where}: {got}")


def run_worlds():
    rng = random.Random(20808)
    for world in range(50):
        with_unknown = world % 3 == 0
        verts, uni, members = build_world(rng, with_unknown)
        for caching in (False, True, True):
            Vertex.NEIGHBOR_CACHING = caching
            check_neighbors(verts, f"w{world} c={caching}")
            if with_unknown:
                # searches use the default (error) handling of unknown links;
                # covered by check_neighbors above, nothing to compare here
                continue
            for scope, starts in ((uni, members), (None, verts)):
                for start in starts:
                    for search, trav, name in PAIRS:
                        order = trav(scope, start)
                        for val in (0, 1, 2, Box(0), Box(1), Box(2), 9, 1.0):
                            for attrib in ("tag", "idx", "nope"):
                                got = search(scope, start, attrib, val)
                                exp = oracle(order, attrib, val)
                                check(
                                    got is exp,
                                    f"{name} w{world} c={caching} {attrib}={val!r}",
                                )
        Vertex.NEIGHBOR_CACHING = False


def run_cache_checks():
    # exact statistics of a fixed scenario
    Vertex._CACHE_STATS = {}  # what the test-suite's conftest does as well
    Vertex.NEIGHBOR_CACHING = False
    check(
        Vertex.total_cache_stats() == "Neighbor caching is DISABLED",
        "stats text, disabled",
    )
    Vertex.NEIGHBOR_CACHING = True
    a, b, c = (Vertex(attributes={"n": n}) for n in "abc")
    DirectedEdge(a, b)
    UnDirectedEdge(b, c)
    DirectedEdge(c, a)
    first = helpers.neighbors(a)
    check(same_objects(first, [b]), "a -> [b]")
    first.append(c)  # must not leak into the cache
    second = helpers.neighbors(a)
    check(same_objects(second, [b]) and second is not first, "fresh list per call")
    check(same_objects(helpers.neighbors(a, ANY), [b, c]), "a any -> [b, c]")
    check(same_objects(helpers.neighbors(a, BWD), [c]), "a backward -> [c]")
    check(same_objects(helpers.neighbors(a, False), [b]), "False == forward")
    for fn, _, name in PAIRS:
        check(fn(None, a, "n", "c") is c, f"{name} over cached neighbors")
        check(fn(None, a, "n", "zz") is None, f"{name} over cached neighbors")
    stats = Vertex.total_cache_stats().splitlines()
    check(stats[0] == "=== CACHE STATISTICS OVERALL ===", "stats header")
    check(stats[1] == "Size:          3", f"stats size: {stats[1]}")
    numbers = [int(line.split()[-1]) for line in stats[2:]]
    # hits, misses, invalidations, insertions
    check(numbers == [15, 5, 15, 5], f"stats numbers: {numbers}")

    # invalidation on (un)linking, also through the far end of the link
    d = Vertex(attributes={"n": "d"})
    e_ad = DirectedEdge(a, d)
    check(same_objects(helpers.neighbors(a), [b, d]), "new link is seen")
    e_ad.v2 = c
    check(same_objects(helpers.neighbors(a), [b, c]), "retargeted link is seen")
    explicit.unlink(a, b)
    check(same_objects(helpers.neighbors(a), [c]), "unlink is seen")
    for fn, _, name in PAIRS:
        check(fn(None, a, "n", "b") is b, f"{name}: b still reachable via c")
        check(fn(None, a, "n", "d") is None, f"{name}: d is gone")

    # answers stored while caching was on never come back stale after
    # disabling, relinking and re-enabling
    Vertex.NEIGHBOR_CACHING = False
    x, y, z = (Vertex(attributes={"n": n}) for n in "xyz")
    Vertex.NEIGHBOR_CACHING = True
    DirectedEdge(x, y)
    check(same_objects(helpers.neighbors(x), [y]), "x -> [y]")
    Vertex.NEIGHBOR_CACHING = False
    DirectedEdge(x, z)
    Vertex.NEIGHBOR_CACHING = True
    check(same_objects(helpers.neighbors(x), [y, z]), "no stale answer")

    # pickling with a populated cache: loads, answers and searches agree
    uni = Universe()
    p = [Vertex(attributes={"i": i}, universes=[uni]) for i in range(5)]
    for s, t in ((0, 1), (0, 2), (1, 3), (2, 3), (3, 4), (4, 0), (2, 2)):
        DirectedEdge(p[s], p[t])
    UnDirectedEdge(p[1], p[4])
    for v in p:
        helpers.neighbors(v)
        helpers.neighbors(v, ANY, U_NB)
    for dumper in (pickle.dumps, nrpickler.dumps):
        clone = pickle.loads(dumper(uni))
        q = clone.vertices
        check([v.i for v in q] == [0, 1, 2, 3, 4], "pickled universe order")
        for v, w in zip(p, q):
            got = [n.i for n in helpers.neighbors(w)]
            check(got == [n.i for n in helpers.neighbors(v)], "pickled neighbors")
            check(all(n in q for n in helpers.neighbors(w)), "pickled identity")
            got = [n.i for n in helpers.neighbors(w, ANY, U_NB)]
            exp = [n.i for n in helpers.neighbors(v, ANY, U_NB)]
            check(got == exp, "pickled neighbors, any")
        for fn, trav, name in PAIRS:
            check(
                [v.i for v in trav(clone, q[0])] == [v.i for v in trav(uni, p[0])],
                f"{name}: traversal of the clone",
            )
            for i in range(6):
                r1 = fn(uni, p[0], "i", i)
                r2 = fn(clone, q[0], "i", i)
                check(
                    (r1 is None and r2 is None) or (r1.i == r2.i and r2 in q),
                    f"{name}: search in the clone",
                )
        # the clone is independent and its cache is invalidated on change
        DirectedEdge(q[0], q[4])
        check([n.i for n in helpers.neighbors(q[0])] == [1, 2, 4], "clone relink")
        check([n.i for n in helpers.neighbors(p[0])] == [1, 2], "original intact")

    # a shallow copy answers like the original
    twin = copy.copy(p[0])
    check(same_objects(helpers.neighbors(twin), helpers.neighbors(p[0])), "copy")

    # unknown link classes and bad options, with and without a universe
    m, n = Vertex(attributes={"k": 1}), Vertex(attributes={"k": 2})
    OtherLink(m, n)
    for fn, _, name in PAIRS:
        check(fn(None, m, "k", 1) is m, f"{name}: start matches before any link")
        try:
            fn(None, m, "k", 2)
        except NotImplementedError:
            pass
        else:
            check(False, f"{name}: unknown link class must raise")
    try:
        helpers.neighbors(m, 3)
    except ValueError:
        pass
    else:
        check(False, "bad direction_sensitive must raise")
    check(helpers.neighbors(Vertex(), 3) == [], "bad option, no links: no error")

    # dangling end
    lone = Vertex(attributes={"k": 0})
    DirectedEdge(lone, None)
    check(helpers.neighbors(lone) == [None], "dangling end is listed")
    check(helpers.neighbors(lone) == [None], "dangling end is listed (cached)")

    Vertex.NEIGHBOR_CACHING = False
    Vertex._CACHE_STATS = {}


def main():
    run_worlds()
    run_cache_checks()
    print(f"equiv.py (C08 r2): {CHECKS} checks OK")
    return 0


if __name__ == "__main__":
    sys.exit(main())
