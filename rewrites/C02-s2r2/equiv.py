#!/usr/bin/env python3
"""
Equivalence / conformance program for property C02:

  "Universe membership is symmetric, ordered and duplicate-free after every
   history."

Only the public API of edgegraph is used.  The program has three parts:

  1. scripted corner cases (aliasing, self-membership, generators, repeated
     elements, subclasses that override the four membership methods, callbacks
     that raise at every possible point, ==-equal-but-distinct members,
     non-vertex members, pickling, vars());
  2. exact traces of the calls made to overridden membership methods and
     properties of user subclasses (order and number of callback calls);
  3. a seeded random differential run against an independent list-based model
     written from the property statement.

Everything is executed once with Vertex.NEIGHBOR_CACHING off and once with it
on.  Exit status 0 means that every check passed.
"""

import copy
import pickle
import random
import sys

from edgegraph.structure import BaseObject, Vertex, Universe
from edgegraph.structure.universe import UniverseLaws
from edgegraph.structure import DirectedEdge

FAILURES = []
CHECKS = [0]


def check(cond, msg):
    CHECKS[0] += 1
    if not cond:
        FAILURES.append(msg)
        if len(FAILURES) <= 40:
            print("FAIL:", msg)


def same(lst, expected):
    """Identity-wise list equality (same objects, same order)."""
    return (
        isinstance(lst, list)
        and len(lst) == len(expected)
        and all(a is b for a, b in zip(lst, expected))
    )


def raises(exc_type, fn, *args, **kwargs):
    """Return the exception instance if fn raised exactly exc_type (or a
    subclass), else None."""
    try:
        fn(*args, **kwargs)
    except exc_type as exc:  # noqa
        return exc
    except BaseException as exc:  # pragma: no cover
        FAILURES.append(f"wrong exception {exc!r}, wanted {exc_type}")
        return None
    return None


def public_vars(obj):
    return {k for k in vars(obj) if not k.startswith("_")}


# ---------------------------------------------------------------------------
# part 1: scripted corner cases
# ---------------------------------------------------------------------------


def scripted_basic():
    u = Universe()
    v = Vertex()
    check(same(u.vertices, []), "fresh universe not empty")
    check(same(v.universes, []), "fresh vertex has universes")
    check(same(u.universes, []), "fresh universe has universes")

    # return values
    check(u.add_vertex(v) is None, "add_vertex returns non-None")
    check(same(u.vertices, [v]) and same(v.universes, [u]), "add_vertex")
    check(u.add_vertex(v) is None, "add_vertex (dup) returns non-None")
    check(same(u.vertices, [v]) and same(v.universes, [u]), "add_vertex dup")
    check(v.add_to_universe(u) is None, "add_to_universe returns non-None")
    check(same(u.vertices, [v]) and same(v.universes, [u]), "add_to_uni dup")

    # returned lists are copies, and fresh each time
    got = u.vertices
    got.append(None)
    got2 = v.universes
    got2.clear()
    check(same(u.vertices, [v]) and same(v.universes, [u]), "copies leak")
    check(u.vertices is not u.vertices, "vertices not a fresh list")
    check(v.universes is not v.universes, "universes not a fresh list")
    check(type(u.vertices) is list and type(v.universes) is list, "types")

    check(u.remove_vertex(v) is None, "remove_vertex returns non-None")
    check(same(u.vertices, []) and same(v.universes, []), "remove_vertex")
    v.add_to_universe(u)
    check(same(u.vertices, [v]) and same(v.universes, [u]), "add_to_universe")
    check(v.remove_from_universe(u) is None, "remove_from_universe ret")
    check(same(u.vertices, []) and same(v.universes, []), "remove_from_uni")

    # removing a non-member raises ValueError and changes nothing
    w = Vertex()
    u2 = Universe()
    u.add_vertex(w)
    v.add_to_universe(u2)
    for fn, arg in (
        (u.remove_vertex, v),
        (v.remove_from_universe, u),
        (u.remove_vertex, u),
        (u.remove_from_universe, u),
        (u.remove_vertex, u2),
        (u.remove_from_universe, u2),
        (u.remove_vertex, None),
        (v.remove_from_universe, None),
        (u.remove_vertex, 5),
        (v.remove_from_universe, "nope"),
    ):
        exc = raises(ValueError, fn, arg)
        check(type(exc) is ValueError, f"non-member removal: {fn} {arg!r}")
        check(
            same(u.vertices, [w])
            and same(w.universes, [u])
            and same(v.universes, [u2])
            and same(u2.vertices, [v])
            and same(u.universes, [])
            and same(u2.universes, []),
            "non-member removal changed something",
        )

    # insertion order, re-adding goes to the end
    vs = [Vertex() for _ in range(6)]
    u = Universe()
    for x in vs:
        u.add_vertex(x)
    check(same(u.vertices, vs), "insertion order")
    u.remove_vertex(vs[2])
    check(same(u.vertices, vs[:2] + vs[3:]), "order after removal")
    vs[2].add_to_universe(u)
    check(same(u.vertices, vs[:2] + vs[3:] + [vs[2]]), "re-add goes last")
    us = [Universe() for _ in range(4)]
    for x in (us[2], us[0], us[3], us[0], us[1]):
        vs[0].add_to_universe(x)
    check(
        same(vs[0].universes, [u, us[2], us[0], us[3], us[1]]),
        "universes insertion order",
    )
    vs[0].remove_from_universe(us[0])
    us[0].add_vertex(vs[0])
    check(
        same(vs[0].universes, [u, us[2], us[3], us[1], us[0]]),
        "universes order after re-add",
    )

    # vars() shows no public names
    check(public_vars(u) == set(), f"public vars on universe {public_vars(u)}")
    check(public_vars(vs[0]) == set(), "public vars on vertex")
    check(public_vars(BaseObject(universes=[u])) == set(), "public vars base")


def scripted_constructors():
    u1, u2, u3 = Universe(), Universe(), Universe()

    # list with repeats
    v = Vertex(universes=[u2, u1, u2, u3, u1])
    check(same(v.universes, [u2, u1, u3]), "ctor dedupe order")
    for u in (u1, u2, u3):
        check(same(u.vertices, [v]), "ctor registers")

    # generator, tuple, set, dict keys, empty, None
    w = Vertex(universes=(u for u in (u3, u3, u1)))
    check(same(w.universes, [u3, u1]), "ctor generator")
    check(same(u3.vertices, [v, w]) and same(u1.vertices, [v, w]), "gen reg")
    check(same(u2.vertices, [v]), "gen no reg")
    x = Vertex(universes=(u2,))
    check(same(x.universes, [u2]) and same(u2.vertices, [v, x]), "tuple")
    y = Vertex(universes={u2})
    check(same(y.universes, [u2]) and same(u2.vertices, [v, x, y]), "set")
    z = Vertex(universes={u1: 1, u2: 2})
    check(same(z.universes, [u1, u2]), "dict keys")
    check(same(Vertex(universes=[]).universes, []), "empty list")
    check(same(Vertex(universes=iter(())).universes, []), "empty iter")
    check(same(Vertex(universes=None).universes, []), "None")
    check(same(Vertex().universes, []), "default")

    # the caller's list is not aliased
    given = [u1]
    a = Vertex(universes=given)
    given.append(u2)
    check(same(a.universes, [u1]), "ctor aliases the caller's list")
    a.add_to_universe(u3)
    check(same(given, [u1, u2]), "caller's list modified")

    # BaseObject does NOT register itself (documented: Vertex does)
    before = [list(u.vertices) for u in (u1, u2, u3)]
    b = BaseObject(universes=[u1, u1, u2])
    check(same(b.universes, [u1, u2]), "base ctor dedupe")
    check(
        all(same(u.vertices, bf) for u, bf in zip((u1, u2, u3), before)),
        "BaseObject registered itself",
    )
    check(b.add_to_universe(u3) is None, "base add ret")
    check(b.add_to_universe(u3) is None, "base add ret 2")
    check(same(b.universes, [u1, u2, u3]), "base add")
    check(same(u3.vertices, before[2]), "base add touched universe")
    check(b.remove_from_universe(u1) is None, "base remove ret")
    check(same(b.universes, [u2, u3]), "base remove")
    exc = raises(ValueError, b.remove_from_universe, u1)
    check(type(exc) is ValueError, "base remove non-member")
    check(same(b.universes, [u2, u3]), "base remove non-member state")
    # a universe will accept a plain BaseObject and updates its side
    u3.add_vertex(b)
    check(same(u3.vertices, before[2] + [b]), "universe accepts BaseObject")
    check(same(b.universes, [u2, u3]), "BaseObject side")
    bb = BaseObject()
    u3.add_vertex(bb)
    check(same(bb.universes, [u3]), "BaseObject side updated")
    u3.remove_vertex(bb)
    check(same(bb.universes, []) and bb not in u3.vertices, "BO removed")
    u3.remove_vertex(b)
    check(same(b.universes, [u2]), "BO removed 2")
    # b lists u2 but u2 never listed b: removing it from u2 raises, no change
    exc = raises(ValueError, u2.remove_vertex, b)
    check(type(exc) is ValueError and same(b.universes, [u2]), "BO asym")

    # Universe(vertices=...)
    p, q, r = Vertex(), Vertex(), Vertex()
    U = Universe(vertices=[q, p, q, r, p])
    check(same(U.vertices, [q, p, r]), "Universe ctor order/dedupe")
    check(all(same(t.universes, [U]) for t in (p, q, r)), "Universe ctor reg")
    U2 = Universe(vertices=(t for t in (r, r, U, p)))
    check(same(U2.vertices, [r, U, p]), "Universe ctor generator")
    check(same(U.universes, [U2]), "universe member of universe")
    check(same(r.universes, [U, U2]) and same(p.universes, [U, U2]), "2nd")
    check(same(Universe(vertices=[]).vertices, []), "empty")
    check(same(Universe(vertices=None).vertices, []), "None")
    check(same(Universe(vertices=iter([])).vertices, []), "empty iter")
    check(same(Universe(vertices=set()).vertices, []), "empty set")
    s = {p}
    check(same(Universe(vertices=s).vertices, [p]), "set")
    check(len(p.universes) == 3, "set registered")
    given = [p, q]
    U3 = Universe(vertices=given)
    given.append(r)
    check(same(U3.vertices, [p, q]), "Universe ctor aliases list")

    # laws are untouched by membership traffic
    laws = UniverseLaws()
    U4 = Universe(vertices=[p], laws=laws)
    check(U4.laws is laws and laws.applies_to is U4, "laws")
    check(same(laws.universes, []), "laws universes")
    U4.add_vertex(laws)
    check(same(laws.universes, [U4]) and same(U4.vertices, [p, laws]), "lw")
    U4.remove_vertex(laws)
    check(same(laws.universes, []) and same(U4.vertices, [p]), "lw2")
    check(U4.laws is laws and laws.applies_to is U4, "laws after")

    # attributes / uid still work with universes
    vv = Vertex(uid=77, attributes={"colour": "red"}, universes=[u1])
    check(vv.uid == 77 and vv.colour == "red", "uid/attributes")
    check(public_vars(vv) == {"colour"}, "vars with attribute")
    check(vv in u1.vertices and same(vv.universes, [u1]), "uid ctor")
    exc = raises(TypeError, Vertex, attributes=[1], universes=[u2])
    check(type(exc) is TypeError, "attributes type error")
    check(same(u2.vertices, [v, x, y, z]), "failed ctor registered")


def scripted_self_membership():
    u = Universe()
    u.add_vertex(u)
    check(same(u.vertices, [u]) and same(u.universes, [u]), "self add")
    u.add_vertex(u)
    u.add_to_universe(u)
    check(same(u.vertices, [u]) and same(u.universes, [u]), "self add dup")
    u.remove_from_universe(u)
    check(same(u.vertices, []) and same(u.universes, []), "self remove")
    u.add_to_universe(u)
    check(same(u.vertices, [u]) and same(u.universes, [u]), "self add 2")
    u.remove_vertex(u)
    check(same(u.vertices, []) and same(u.universes, []), "self remove 2")
    exc = raises(ValueError, u.remove_vertex, u)
    check(type(exc) is ValueError, "self non-member")
    exc = raises(ValueError, u.remove_from_universe, u)
    check(type(exc) is ValueError, "self non-member 2")

    # mutual membership and a three-cycle
    a, b, c = Universe(), Universe(), Universe()
    a.add_vertex(b)
    b.add_vertex(a)
    check(same(a.vertices, [b]) and same(a.universes, [b]), "mutual a")
    check(same(b.vertices, [a]) and same(b.universes, [a]), "mutual b")
    c.add_to_universe(a)
    b.add_to_universe(c)
    c.add_vertex(c)
    a.add_vertex(a)
    check(same(a.vertices, [b, c, a]), "cycle a.vertices")
    check(same(a.universes, [b, a]), "cycle a.universes")
    check(same(b.universes, [a, c]), "cycle b.universes")
    check(same(c.vertices, [b, c]) and same(c.universes, [a, c]), "cycle c")
    a.remove_vertex(a)
    b.remove_from_universe(a)
    check(same(a.vertices, [c]) and same(a.universes, [b]), "cycle rm a")
    check(same(b.universes, [c]) and same(b.vertices, [a]), "cycle rm b")

    # universe constructed with universes as members
    d = Universe(vertices=[a, b, a, c])
    check(same(d.vertices, [a, b, c]), "uni of unis")
    check(same(a.universes, [b, d]), "uni of unis a")
    check(same(c.universes, [a, c, d]), "uni of unis c")
    v = Vertex(universes=[d, a, d])
    check(same(v.universes, [d, a]) and same(d.vertices, [a, b, c, v]), "v")
    check(same(a.vertices, [c, v]), "v in a")


class KV(Vertex):
    """Vertex that compares equal by key."""

    def __init__(self, key, **kw):
        self.key = key
        super().__init__(**kw)

    def __eq__(self, other):
        return isinstance(other, KV) and other.key == self.key

    def __hash__(self):
        return hash(self.key)


class KU(Universe):
    """Universe that compares equal by key."""

    def __init__(self, key, **kw):
        self.key = key
        super().__init__(**kw)

    def __eq__(self, other):
        return isinstance(other, KU) and other.key == self.key

    def __hash__(self):
        return hash(self.key)


def scripted_equal_but_distinct():
    # membership tests are by ==, as documented by list semantics
    u = Universe()
    k1, k2 = KV("k"), KV("k")
    u.add_vertex(k1)
    u.add_vertex(k2)
    check(same(u.vertices, [k1]), "== member added twice")
    check(same(k2.universes, []), "== member got universe")
    k2.add_to_universe(u)
    check(same(k2.universes, [u]) and same(u.vertices, [k1]), "== add_to")
    k2.remove_from_universe(u)
    check(same(k2.universes, []), "== remove k2 side")
    check(same(u.vertices, []), "== remove took the equal member")
    check(same(k1.universes, [u]), "== remove left k1 side alone")

    a1, a2, b = KU("a"), KU("a"), KU("b")
    v = Vertex(universes=[a1, b, a2, b])
    check(same(v.universes, [a1, b]), "== universes dedupe keeps first")
    check(same(a1.vertices, [v]) and same(a2.vertices, []), "== reg")
    v.add_to_universe(a2)
    check(same(v.universes, [a1, b]) and same(a2.vertices, [v]), "== add a2")
    # now v is in a2.vertices; removing via a2: v.universes loses a1 (==)
    a2.remove_vertex(v)
    check(same(a2.vertices, []), "== a2 removed")
    check(same(v.universes, [b]), "== v side lost first equal")
    check(same(a1.vertices, [v]), "== a1 untouched")


class CountU(Universe):
    """Universe whose __hash__ / __eq__ calls are counted."""

    HASHES = [0]
    EQS = [0]

    def __hash__(self):
        CountU.HASHES[0] += 1
        return id(self) >> 4

    def __eq__(self, other):
        CountU.EQS[0] += 1
        return self is other


def scripted_hash_counts():
    a, b, c = CountU(), CountU(), CountU()
    CountU.HASHES[0] = CountU.EQS[0] = 0
    v = Vertex(universes=(x for x in (a, b, a, c, b, a)))
    check(same(v.universes, [a, b, c]), "counted dedupe")
    check(CountU.HASHES[0] == 6, f"hash calls in ctor: {CountU.HASHES[0]}")
    # identical keys are found by identity, and the vertex side already lists
    # each universe, again found by identity or after comparing with the ones
    # in front of it: b is compared with a; c with a and b
    check(CountU.EQS[0] == 3, f"eq calls in ctor: {CountU.EQS[0]}")
    CountU.HASHES[0] = CountU.EQS[0] = 0
    d = CountU()
    v.add_to_universe(d)
    v.add_to_universe(d)
    d.add_vertex(v)
    v.remove_from_universe(b)
    check(same(v.universes, [a, c, d]), "counted ops")
    check(CountU.HASHES[0] == 0, "membership traffic hashed a universe")
    b2 = BaseObject(universes=[c, c, a])
    check(CountU.HASHES[0] == 3 and same(b2.universes, [c, a]), "base hashes")


class LogV(Vertex):
    """Vertex subclass recording every membership callback."""

    LOG = []
    RAISE = None  # (method name, "before"/"after")

    def _maybe(self, name, when):
        if LogV.RAISE == (name, when, self):
            raise RuntimeError(f"{name}/{when}")

    @property
    def universes(self):
        LogV.LOG.append(("V.universes", self))
        return Vertex.universes.fget(self)

    def add_to_universe(self, universe):
        LogV.LOG.append(("V.add_to_universe", self, universe))
        self._maybe("add", "before")
        ret = super().add_to_universe(universe)
        self._maybe("add", "after")
        return ret

    def remove_from_universe(self, universe):
        LogV.LOG.append(("V.remove_from_universe", self, universe))
        self._maybe("remove", "before")
        ret = super().remove_from_universe(universe)
        self._maybe("remove", "after")
        return ret


class LogU(Universe):
    """Universe subclass recording every membership callback."""

    RAISE = None

    def _maybe(self, name, when):
        if LogU.RAISE == (name, when, self):
            raise RuntimeError(f"{name}/{when}")

    @property
    def vertices(self):
        LogV.LOG.append(("U.vertices", self))
        return Universe.vertices.fget(self)

    @property
    def universes(self):
        LogV.LOG.append(("U.universes", self))
        return Universe.universes.fget(self)

    def add_vertex(self, vert):
        LogV.LOG.append(("U.add_vertex", self, vert))
        self._maybe("add", "before")
        ret = super().add_vertex(vert)
        self._maybe("add", "after")
        return ret

    def remove_vertex(self, vert):
        LogV.LOG.append(("U.remove_vertex", self, vert))
        self._maybe("remove", "before")
        ret = super().remove_vertex(vert)
        self._maybe("remove", "after")
        return ret

    def add_to_universe(self, universe):
        LogV.LOG.append(("U.add_to_universe", self, universe))
        return super().add_to_universe(universe)

    def remove_from_universe(self, universe):
        LogV.LOG.append(("U.remove_from_universe", self, universe))
        return super().remove_from_universe(universe)


def take_log():
    out = list(LogV.LOG)
    del LogV.LOG[:]
    return out


def log_is(expected, what):
    got = take_log()
    ok = len(got) == len(expected) and all(
        len(g) == len(e) and g[0] == e[0] and all(a is b for a, b in zip(g[1:], e[1:]))
        for g, e in zip(got, expected)
    )
    if not ok:
        names = [g[0] for g in got]
        check(False, f"callback trace {what}: got {names}, wanted {[e[0] for e in expected]}")
    else:
        check(True, what)


def scripted_traces():
    take_log()
    u = LogU()
    log_is([("U.universes", u)], "universe construction trace")
    v = LogV()
    log_is([("V.universes", v)], "vertex construction trace")

    u.add_vertex(v)
    log_is(
        [
            ("U.add_vertex", u, v),
            ("V.universes", v),
            ("V.add_to_universe", v, u),
            ("U.vertices", u),
        ],
        "add_vertex trace",
    )
    u.add_vertex(v)
    log_is([("U.add_vertex", u, v)], "add_vertex dup trace")
    v.add_to_universe(u)
    log_is(
        [("V.add_to_universe", v, u), ("U.vertices", u)],
        "add_to_universe dup trace",
    )
    u.remove_vertex(v)
    log_is(
        [
            ("U.remove_vertex", u, v),
            ("V.universes", v),
            ("V.remove_from_universe", v, u),
            ("U.vertices", u),
        ],
        "remove_vertex trace",
    )
    v.add_to_universe(u)
    log_is(
        [
            ("V.add_to_universe", v, u),
            ("U.vertices", u),
            ("U.add_vertex", u, v),
            ("V.universes", v),
        ],
        "add_to_universe trace",
    )
    v.remove_from_universe(u)
    log_is(
        [
            ("V.remove_from_universe", v, u),
            ("U.vertices", u),
            ("U.remove_vertex", u, v),
            ("V.universes", v),
        ],
        "remove_from_universe trace",
    )
    exc = raises(ValueError, v.remove_from_universe, u)
    check(type(exc) is ValueError, "trace: non-member")
    log_is([("V.remove_from_universe", v, u)], "non-member trace (vertex)")
    exc = raises(ValueError, u.remove_vertex, v)
    check(type(exc) is ValueError, "trace: non-member 2")
    log_is([("U.remove_vertex", u, v)], "non-member trace (universe)")

    # constructors
    u2 = LogU()
    take_log()
    w = LogV(universes=[u, u2, u])
    log_is(
        [
            ("V.universes", w),
            ("U.add_vertex", u, w),
            ("V.universes", w),
            ("U.add_vertex", u2, w),
            ("V.universes", w),
        ],
        "vertex ctor trace",
    )
    check(same(w.universes, [u, u2]), "vertex ctor trace state")
    take_log()
    x = LogV()
    take_log()
    u3 = LogU(vertices=[x, w, x])
    log_is(
        [
            ("U.universes", u3),
            ("U.add_vertex", u3, x),
            ("V.universes", x),
            ("V.add_to_universe", x, u3),
            ("U.vertices", u3),
            ("U.add_vertex", u3, w),
            ("V.universes", w),
            ("V.add_to_universe", w, u3),
            ("U.vertices", u3),
            ("U.add_vertex", u3, x),
        ],
        "universe ctor trace",
    )
    check(same(u3.vertices, [x, w]), "universe ctor trace state")
    take_log()

    # universe in itself / in another universe
    u3.add_vertex(u3)
    log_is(
        [
            ("U.add_vertex", u3, u3),
            ("U.universes", u3),
            ("U.add_to_universe", u3, u3),
            ("U.vertices", u3),
        ],
        "self-membership trace",
    )
    u3.remove_from_universe(u3)
    log_is(
        [
            ("U.remove_from_universe", u3, u3),
            ("U.vertices", u3),
            ("U.remove_vertex", u3, u3),
            ("U.universes", u3),
        ],
        "self-removal trace",
    )
    check(same(u3.vertices, [x, w]) and same(u3.universes, []), "self state")


def scripted_raising_callbacks():
    take_log()
    # --- vertex side raises while the universe is adding it
    for when in ("before", "after"):
        u = LogU()
        bad = LogV()
        LogV.RAISE = ("add", when, bad)
        exc = raises(RuntimeError, u.add_vertex, bad)
        LogV.RAISE = None
        check(type(exc) is RuntimeError, "raise add vertex-side")
        check(same(u.vertices, [bad]), f"state u after raise add/{when}")
        check(
            same(bad.universes, [] if when == "before" else [u]),
            f"state v after raise add/{when}",
        )
        # and the object is still usable afterwards
        bad.add_to_universe(u)
        check(same(u.vertices, [bad]) and same(bad.universes, [u]), "heal")

    # --- universe side raises while the vertex is adding itself
    for when in ("before", "after"):
        u = LogU()
        v = LogV()
        LogU.RAISE = ("add", when, u)
        exc = raises(RuntimeError, v.add_to_universe, u)
        LogU.RAISE = None
        check(type(exc) is RuntimeError, "raise add universe-side")
        check(same(v.universes, [u]), f"state v after U raise add/{when}")
        check(
            same(u.vertices, [] if when == "before" else [v]),
            f"state u after U raise add/{when}",
        )
        u.add_vertex(v)
        check(same(u.vertices, [v]) and same(v.universes, [u]), "heal 2")

    # --- removal, vertex side raising
    for when in ("before", "after"):
        u = LogU()
        v = LogV(universes=[u])
        LogV.RAISE = ("remove", when, v)
        exc = raises(RuntimeError, u.remove_vertex, v)
        LogV.RAISE = None
        check(type(exc) is RuntimeError, "raise remove vertex-side")
        check(same(u.vertices, []), "state u after raise remove")
        check(
            same(v.universes, [u] if when == "before" else []),
            f"state v after raise remove/{when}",
        )

    # --- removal, universe side raising
    for when in ("before", "after"):
        u = LogU()
        v = LogV(universes=[u])
        LogU.RAISE = ("remove", when, u)
        exc = raises(RuntimeError, v.remove_from_universe, u)
        LogU.RAISE = None
        check(type(exc) is RuntimeError, "raise remove universe-side")
        check(same(v.universes, []), "state v after U raise remove")
        check(
            same(u.vertices, [v] if when == "before" else []),
            f"state u after U raise remove/{when}",
        )

    # --- constructor of a vertex: second universe raises
    u1, ub, u3 = LogU(), LogU(), LogU()
    LogU.RAISE = ("add", "before", ub)
    exc = raises(RuntimeError, LogV, universes=[u1, ub, u3, u1])
    LogU.RAISE = None
    check(type(exc) is RuntimeError, "ctor raise")
    check(len(u1.vertices) == 1, "ctor raise: first universe registered")
    half = u1.vertices[0]
    check(same(half.universes, [u1, ub, u3]), "ctor raise: vertex side")
    check(same(ub.vertices, []) and same(u3.vertices, []), "ctor raise: rest")

    # --- constructor of a universe: second vertex raises
    v1, vb, v3 = LogV(), LogV(), LogV()
    LogV.RAISE = ("add", "before", vb)
    exc = raises(RuntimeError, LogU, vertices=[v1, vb, v3])
    LogV.RAISE = None
    check(type(exc) is RuntimeError, "Universe ctor raise")
    check(len(v1.universes) == 1, "Universe ctor raise: first registered")
    halfu = v1.universes[0]
    check(same(halfu.vertices, [v1, vb]), "Universe ctor raise: members")
    check(same(vb.universes, []) and same(v3.universes, []), "U ctor rest")

    # --- iterables that raise half way
    def gen_unis():
        yield u1
        raise KeyError("boom")

    n = len(u1.vertices)
    exc = raises(KeyError, Vertex, universes=gen_unis())
    check(type(exc) is KeyError, "generator raise")
    check(len(u1.vertices) == n, "generator raise registered something")

    def gen_verts():
        yield v3
        yield v3
        raise KeyError("boom")

    exc = raises(KeyError, Universe, vertices=gen_verts())
    check(type(exc) is KeyError, "generator raise (universe)")
    check(len(v3.universes) == 1, "generator raise: v3 registered once")
    check(same(v3.universes[0].vertices, [v3]), "generator raise: members")

    # --- non-iterables / junk
    exc = raises(TypeError, Vertex, universes=5)
    check(type(exc) is TypeError, "universes=5")
    exc = raises(TypeError, Universe, vertices=5)
    check(type(exc) is TypeError, "vertices=5")
    exc = raises(TypeError, Vertex, universes=[[]])
    check(type(exc) is TypeError, "unhashable universe")
    exc = raises(AttributeError, Vertex, universes=[5])
    check(type(exc) is AttributeError, "universes=[5]")
    u = Universe()
    exc = raises(AttributeError, u.add_vertex, 5)
    check(type(exc) is AttributeError, "add_vertex(5)")
    check(u.vertices == [5], "add_vertex(5) state")
    check(u.add_vertex(5) is None and u.vertices == [5], "add_vertex(5) again")
    exc = raises(AttributeError, u.remove_vertex, 5)
    check(type(exc) is AttributeError, "remove_vertex(5)")
    check(u.vertices == [], "remove_vertex(5) state")
    exc = raises(AttributeError, u.add_vertex, None)
    check(type(exc) is AttributeError and u.vertices == [None], "add None")
    v = Vertex()
    exc = raises(AttributeError, v.add_to_universe, None)
    check(type(exc) is AttributeError, "add_to_universe(None)")
    check(v.universes == [None], "add_to_universe(None) state")
    exc = raises(AttributeError, v.add_to_universe, None)
    check(type(exc) is AttributeError and v.universes == [None], "again None")
    exc = raises(AttributeError, v.remove_from_universe, None)
    check(type(exc) is AttributeError and v.universes == [], "remove None")
    # a vertex is not a universe
    w = Vertex()
    exc = raises(AttributeError, v.add_to_universe, w)
    check(type(exc) is AttributeError and same(v.universes, [w]), "vertex as uni")
    check(same(w.universes, []), "vertex as uni 2")
    # ... but the vertex keeps working with real universes
    u = Universe(vertices=[v])
    check(same(v.universes, [w, u]) and same(u.vertices, [v]), "bogus + real")
    take_log()


def isomorphic(objs_a, objs_b):
    """Same membership structure, index-wise."""
    ia = {id(o): i for i, o in enumerate(objs_a)}
    ib = {id(o): i for i, o in enumerate(objs_b)}
    for a, b in zip(objs_a, objs_b):
        if type(a) is not type(b):
            return False
        if [ia[id(x)] for x in a.universes] != [ib[id(x)] for x in b.universes]:
            return False
        if isinstance(a, Universe):
            if [ia[id(x)] for x in a.vertices] != [ib[id(x)] for x in b.vertices]:
                return False
    return True


def scripted_namespace():
    """
    The public face of the modules involved: nothing new is exported, and the
    classes keep their public members.
    """
    import edgegraph.structure.base as mbase
    import edgegraph.structure.vertex as mvertex
    import edgegraph.structure.universe as muniverse

    def public(ns):
        return {n for n in ns if not n.startswith("_")}

    check(
        public(vars(mbase))
        == {"BaseObject", "Iterator", "TYPE_CHECKING", "annotations", "uuid"},
        f"public names of base module: {sorted(public(vars(mbase)))}",
    )
    check(
        public(vars(mvertex))
        == {"Vertex", "Iterator", "TYPE_CHECKING", "annotations", "Any", "base"},
        f"public names of vertex module: {sorted(public(vars(mvertex)))}",
    )
    check(
        public(vars(muniverse))
        == {"Universe", "UniverseLaws", "TYPE_CHECKING", "annotations",
            "types", "base", "vertex"},
        f"public names of universe module: {sorted(public(vars(muniverse)))}",
    )
    check(
        public(vars(BaseObject))
        == {"uid", "universes", "add_to_universe", "remove_from_universe"},
        "public members of BaseObject",
    )
    check(
        public(vars(Universe))
        == {"vertices", "add_vertex", "remove_vertex", "laws"},
        "public members of Universe",
    )
    check(
        {"add_to_universe", "remove_from_universe", "links", "add_to_link",
         "remove_from_link", "NEIGHBOR_CACHING", "total_cache_stats"}
        == public(vars(Vertex)),
        f"public members of Vertex {sorted(public(vars(Vertex)))}",
    )
    # the accessors hand out plain, independent lists even for subclasses
    u = SubU(vertices=[SubV(), SubV()])
    got = u.vertices
    check(type(got) is list and got is not u.vertices and got == u.vertices, "list copy")
    got = u.vertices[0].universes
    check(type(got) is list and same(got, [u]), "list copy 2")


def scripted_pickle():
    a, b = Universe(), Universe()
    vs = [Vertex(attributes={"n": i}) for i in range(5)]
    for v in vs:
        a.add_vertex(v)
    for v in vs[::2]:
        v.add_to_universe(b)
    b.add_vertex(a)
    a.add_vertex(a)
    DirectedEdge(vs[0], vs[1])
    objs = [a, b] + vs
    for proto in range(2, pickle.HIGHEST_PROTOCOL + 1):
        objs2 = pickle.loads(pickle.dumps(objs, protocol=proto))
        check(isomorphic(objs, objs2), f"pickle round trip proto {proto}")
        a2, b2 = objs2[0], objs2[1]
        check(all(x is not y for x, y in zip(objs, objs2)), "pickle identity")
        check([v.n for v in a2.vertices[:5]] == [0, 1, 2, 3, 4], "pickle attrs")
        # the copies keep working
        n = Vertex()
        a2.add_vertex(n)
        objs2[2].remove_from_universe(a2)
        b2.remove_vertex(a2)
        a2.remove_from_universe(a2)
        check(same(a2.vertices, objs2[3:] + [n]), "unpickled ops 1")
        check(same(a2.universes, []), "unpickled ops 2")
        check(same(objs2[2].universes, [b2]), "unpickled ops 3")
        check(same(n.universes, [a2]), "unpickled ops 4")
        check(len(objs2[3].links) == 1, "links survived")
    objs3 = copy.deepcopy(objs)
    check(isomorphic(objs, objs3), "deepcopy")
    check(same(a.vertices, vs + [a]), "original untouched by pickling")


# ---------------------------------------------------------------------------
# part 3: random differential against a model
# ---------------------------------------------------------------------------


class Model:
    """
    Independent oracle: membership is a relation R between universes and
    members; each universe lists its members in insertion order, each member
    lists its universes in insertion order, no duplicates on either side.
    """

    def __init__(self):
        self.members = {}  # id(universe) -> [member]
        self.unis = {}  # id(object)   -> [universe]
        self.objs = []

    def new_vertex(self, obj, universes):
        self.objs.append(obj)
        self.unis[id(obj)] = []
        for u in universes:
            self.add(u, obj)

    def new_universe(self, obj, vertices):
        self.objs.append(obj)
        self.unis[id(obj)] = []
        self.members[id(obj)] = []
        for v in vertices:
            self.add(obj, v)

    def related(self, u, v):
        return any(x is v for x in self.members[id(u)])

    def add(self, u, v):
        if self.related(u, v):
            return
        self.members[id(u)].append(v)
        self.unis[id(v)].append(u)

    def remove(self, u, v):
        """True if removed; False if (u, v) was not related (must raise)."""
        if not self.related(u, v):
            return False
        self.members[id(u)] = [x for x in self.members[id(u)] if x is not v]
        self.unis[id(v)] = [x for x in self.unis[id(v)] if x is not u]
        return True

    def verify(self, where):
        ok = True
        for o in self.objs:
            got_u = o.universes
            if not same(got_u, self.unis[id(o)]):
                ok = False
            if len({id(x) for x in got_u}) != len(got_u):
                ok = False
            if isinstance(o, Universe):
                got_v = o.vertices
                if not same(got_v, self.members[id(o)]):
                    ok = False
                if len({id(x) for x in got_v}) != len(got_v):
                    ok = False
                # symmetry, straight from the statement
                for m in got_v:
                    if not any(x is o for x in m.universes):
                        ok = False
            for u in got_u:
                if not any(x is o for x in u.vertices):
                    ok = False
        check(ok, f"model mismatch {where}")
        return ok


class SubV(Vertex):
    pass


class SubU(Universe):
    pass


def random_run(seed, steps):
    rng = random.Random(seed)
    model = Model()
    universes = []
    everything = []

    def mk_universe(members):
        cls = rng.choice((Universe, Universe, SubU))
        style = rng.randrange(5)
        if style == 0 and not members:
            u = cls()
        elif style == 1:
            u = cls(vertices=iter(list(members)))
        elif style == 2:
            u = cls(vertices=tuple(members))
        elif style == 3:
            u = cls(vertices=(m for m in list(members)))
        else:
            u = cls(vertices=list(members))
        model.new_universe(u, members)
        universes.append(u)
        everything.append(u)

    def mk_vertex(unis):
        cls = rng.choice((Vertex, Vertex, SubV))
        style = rng.randrange(5)
        if style == 0 and not unis:
            v = cls()
        elif style == 1:
            v = cls(universes=iter(list(unis)))
        elif style == 2:
            v = cls(universes=tuple(unis))
        elif style == 3:
            v = cls(universes=(m for m in list(unis)))
        else:
            v = cls(universes=list(unis))
        model.new_vertex(v, unis)
        everything.append(v)

    for _ in range(3):
        mk_universe([])
    for _ in range(4):
        mk_vertex([])

    for step in range(steps):
        op = rng.random()
        u = rng.choice(universes)
        m = rng.choice(everything)
        if op < 0.04 and len(everything) < 60:
            k = rng.randrange(0, 6)
            mk_universe([rng.choice(everything) for _ in range(k)])
        elif op < 0.10 and len(everything) < 60:
            k = rng.randrange(0, 6)
            mk_vertex([rng.choice(universes) for _ in range(k)])
        elif op < 0.35:
            check(u.add_vertex(m) is None, "add_vertex ret")
            model.add(u, m)
        elif op < 0.55:
            check(m.add_to_universe(u) is None, "add_to_universe ret")
            model.add(u, m)
        elif op < 0.78:
            expect_ok = model.remove(u, m)
            try:
                ret = u.remove_vertex(m)
                check(expect_ok and ret is None, f"remove_vertex did not raise s{seed}/{step}")
            except ValueError:
                check(not expect_ok, f"remove_vertex raised s{seed}/{step}")
        else:
            expect_ok = model.remove(u, m)
            try:
                ret = m.remove_from_universe(u)
                check(expect_ok and ret is None, f"remove_from_universe did not raise s{seed}/{step}")
            except ValueError:
                check(not expect_ok, f"remove_from_universe raised s{seed}/{step}")
        if not model.verify(f"seed {seed} step {step}"):
            return
        if step % 97 == 0:
            # pickling keeps the structure
            objs2 = pickle.loads(pickle.dumps(everything))
            check(isomorphic(everything, objs2), f"pickle in random run {seed}/{step}")
    for o in everything:
        check(public_vars(o) == set(), "public vars after random run")


# ---------------------------------------------------------------------------


def run_all():
    scripted_basic()
    scripted_constructors()
    scripted_self_membership()
    scripted_equal_but_distinct()
    scripted_hash_counts()
    scripted_traces()
    scripted_raising_callbacks()
    scripted_pickle()
    scripted_namespace()
    for seed in range(12):
        random_run(1000 + seed, 700)


def main():
    sys.setrecursionlimit(20000)
    for caching in (False, True):
        Vertex.NEIGHBOR_CACHING = caching
        run_all()
    Vertex.NEIGHBOR_CACHING = False
    print(f"{CHECKS[0]} checks, {len(FAILURES)} failures")
    return 1 if FAILURES else 0


if __name__ == "__main__":
    sys.exit(main())
