#!/usr/bin/env python3
# -*- coding: utf-8 -*-
"""
Equivalence / conformance check for property C09:

  find_links(a, b, ...) returns exactly the links whose two ends are a and b
  and that qualify under the settings; its size equals the number of times b
  occurs in neighbors(a) under the corresponding settings; after unlink(a, b)
  it is empty for every setting while other pairs are unaffected.

Only the public API of edgegraph is used.  The program has a scripted part
(corner cases) and a seeded random differential part that compares the library
against an independent model (the test keeps its own record of the ends of
every link and of the attachment order at every vertex) and an oracle written
from the property statement.  Besides results, the exact sequence of calls made
into user-supplied code (link.other, link.v1, filterfunc, truthiness of the
filter's answer and of ``direction_sensitive``, ``==`` on ``unknown_handling``,
hashing of the collected links, top-level ``unlink_from`` calls) is compared
with what the documented per-link procedure demands.

Exit status 0 = everything as demanded.
Run as:  PYTHONPATH=<worktree> python equiv.py
"""

import pickle
import random
import sys

from edgegraph.structure import (
    Vertex,
    Link,
    TwoEndedLink,
    DirectedEdge,
    UnDirectedEdge,
)
from edgegraph.traversal import helpers
from edgegraph.builder import explicit

NON, NEI, ERR = (
    helpers.LNK_UNKNOWN_NONNEIGHBOR,
    helpers.LNK_UNKNOWN_NEIGHBOR,
    helpers.LNK_UNKNOWN_ERROR,
)
assert (NON, NEI, ERR) == (0, 1, 2)

CHECKS = [0]
EVENTS = []
DEPTH = [0]


def check(cond, *msg):
    CHECKS[0] += 1
    if not cond:
        print("FAIL:", *msg)
        raise SystemExit(1)


# --------------------------------------------------------------------------
# instrumented and plain link classes
# --------------------------------------------------------------------------


def vtag(v):
    return None if v is None else getattr(v, "tag", "?")


class Traced:
    """Mixin recording every call the library makes into the link."""

    def other(self, end):
        EVENTS.append(("other", self.tag))
        ends = self.vertices
        if end is ends[0]:
            return ends[1]
        if end is ends[1]:
            return ends[0]
        return None

    @property
    def v1(self):
        EVENTS.append(("v1", self.tag))
        return self.vertices[0]

    @property
    def v2(self):
        EVENTS.append(("v2", self.tag))
        return self.vertices[1]

    def __hash__(self):
        EVENTS.append(("hash", self.tag))
        return object.__hash__(self)

    def unlink_from(self, kill):
        if DEPTH[0] == 0:
            EVENTS.append(("unlink_from", self.tag, vtag(kill)))
        DEPTH[0] += 1
        try:
            return super().unlink_from(kill)
        finally:
            DEPTH[0] -= 1


class TDir(Traced, DirectedEdge):
    pass


class TUnd(Traced, UnDirectedEdge):
    pass


class TTwo(Traced, TwoEndedLink):
    pass


class TBoth(Traced, DirectedEdge, UnDirectedEdge):
    pass


class Road(DirectedEdge):
    pass


class Fence(UnDirectedEdge):
    pass


class Odd(TwoEndedLink):
    pass


class BothUD(UnDirectedEdge, DirectedEdge):
    pass


class BothDU(DirectedEdge, UnDirectedEdge):
    pass


class SubV(Vertex):
    pass


# kind: "U" undirected, "D" directed, "X" other two-ended type.  A class that
# derives from both edge classes is followed like an undirected edge (that is
# what neighbors() does, and find_links has to agree with it).
KIND = {
    DirectedEdge: "D",
    Road: "D",
    TDir: "D",
    UnDirectedEdge: "U",
    Fence: "U",
    TUnd: "U",
    BothUD: "U",
    BothDU: "U",
    TBoth: "U",
    TwoEndedLink: "X",
    Odd: "X",
    TTwo: "X",
}
PLAIN = [DirectedEdge, Road, UnDirectedEdge, Fence, TwoEndedLink, Odd, BothUD, BothDU]
TRACED = [TDir, TUnd, TTwo, TBoth]


# --------------------------------------------------------------------------
# instrumented option values
# --------------------------------------------------------------------------


class TBool:
    """direction_sensitive value with observable truthiness."""

    def __init__(self, val):
        self.val = val

    def __bool__(self):
        EVENTS.append(("bool_ds",))
        return self.val


class TEq:
    """unknown_handling value with observable comparisons."""

    def __init__(self, val):
        self.val = val

    def __eq__(self, other):
        EVENTS.append(("eq_uh", other))
        return self.val == other

    __hash__ = None


class TRes:
    """filterfunc answer with observable truthiness."""

    def __init__(self, tag, val):
        self.tag = tag
        self.val = val

    def __bool__(self):
        EVENTS.append(("bool_res", self.tag))
        return self.val


class Boom(Exception):
    pass


def truth(x):
    return x.val if isinstance(x, (TBool, TRes)) else bool(x)


# --------------------------------------------------------------------------
# the model
# --------------------------------------------------------------------------


class Model:
    """
    Independent record of the graph: ends of every live link and, per vertex,
    the attachment order of links.
    """

    def __init__(self, nverts, rng):
        self.rng = rng
        self.verts = []
        for i in range(nverts):
            cls = Vertex if i % 3 else SubV
            v = cls()
            v.tag = f"v{i}"
            self.verts.append(v)
        self.links = {}  # tag -> link object
        self.ends = {}  # tag -> [x, y]
        self.at = {id(v): [] for v in self.verts}  # id(vertex) -> [tag, ...]
        self.counter = 0

    def make(self, cls, x, y):
        lnk = cls(x, y)
        self.counter += 1
        lnk.tag = self.counter
        self.links[lnk.tag] = lnk
        self.ends[lnk.tag] = [x, y]
        if x is not None:
            self.at[id(x)].append(lnk.tag)
        if y is not None and y is not x:
            self.at[id(y)].append(lnk.tag)
        return lnk

    def set_end(self, tag, idx, new):
        lnk = self.links[tag]
        old = self.ends[tag][idx]
        if idx == 0:
            lnk.v1 = new
        else:
            lnk.v2 = new
        self.ends[tag][idx] = new
        if old is not None and not any(e is old for e in self.ends[tag]):
            self.at[id(old)].remove(tag)
        if new is not None and tag not in self.at[id(new)]:
            self.at[id(new)].append(tag)

    def joining(self, a, b):
        """Tags of links whose two ends are a and b, in attachment order at a."""
        out = []
        for tag in self.at[id(a)]:
            x, y = self.ends[tag]
            if (x is a and y is b) or (x is b and y is a):
                out.append(tag)
        return out

    def drop_between(self, a, b):
        gone = self.joining(a, b)
        for tag in gone:
            for v in (a, b):
                if v is not None and tag in self.at[id(v)]:
                    self.at[id(v)].remove(tag)
            del self.ends[tag]
            del self.links[tag]
        return gone

    def verify_attachment(self):
        for v in self.verts:
            got = [l.tag for l in v.links]
            check(got == self.at[id(v)], "attachment order", v.tag, got, self.at[id(v)])
        for tag, lnk in self.links.items():
            vs = lnk.vertices
            check(
                len(vs) == 2 and vs[0] is self.ends[tag][0] and vs[1] is self.ends[tag][1],
                "ends of link",
                tag,
            )


# --------------------------------------------------------------------------
# the oracle (written from the property statement / documented procedure)
# --------------------------------------------------------------------------


def uh_is(uh, const):
    """Outcome of ``uh == const`` plus the trace event it produces, if any."""
    if isinstance(uh, TEq):
        return uh.val == const, [("eq_uh", const)]
    return uh == const, []


def oracle(model, a, b, ds, uh, ff_spec):
    """
    Returns (outcome, trace): outcome is ("ok", [tags in insertion order]) or
    ("exc", ExceptionClass).  ``ff_spec`` is None or a function tag->answer
    where answer is a bool, a ("tres", bool) pair or the string "raise".
    """
    trace = []
    found = []
    for tag in model.at[id(a)]:
        lnk = model.links[tag]
        traced = isinstance(lnk, Traced)
        x, y = model.ends[tag]
        if traced:
            trace.append(("other", tag))
        if not ((x is a and y is b) or (x is b and y is a)):
            continue
        if isinstance(ds, TBool):
            trace.append(("bool_ds",))
        if truth(ds):
            kind = KIND[type(lnk)]
            if kind == "U":
                pass
            elif kind == "D":
                if traced:
                    trace.append(("v1", tag))
                if x is not a:
                    continue
            else:
                is_non, ev = uh_is(uh, NON)
                trace.extend(ev)
                if is_non:
                    continue
                is_nei, ev = uh_is(uh, NEI)
                trace.extend(ev)
                if not is_nei:
                    return ("exc", NotImplementedError), trace
        if ff_spec is not None:
            trace.append(("filter", tag))
            ans = ff_spec(tag)
            if ans == "raise":
                return ("exc", Boom), trace
            if isinstance(ans, tuple):
                trace.append(("bool_res", tag))
                ans = ans[1]
            if not ans:
                continue
        if traced:
            trace.append(("hash", tag))
        found.append(tag)
    return ("ok", found), trace


def make_filter(ff_spec):
    if ff_spec is None:
        return None

    def filt(link):
        EVENTS.append(("filter", link.tag))
        ans = ff_spec(link.tag)
        if ans == "raise":
            raise Boom(link.tag)
        if isinstance(ans, tuple):
            return TRes(link.tag, ans[1])
        return ans

    return filt


def run_find(model, a, b, ds, uh, ff_factory, *, how="kw"):
    """Call find_links, compare result and call trace with the oracle."""
    expected, exp_trace = oracle(
        model, a, b, ds, uh, None if ff_factory is None else ff_factory()
    )
    filt = make_filter(None if ff_factory is None else ff_factory())
    del EVENTS[:]
    try:
        if how == "pos":
            res = helpers.find_links(a, b, ds, uh, filt)
        else:
            res = helpers.find_links(
                a, b, direction_sensitive=ds, unknown_handling=uh, filterfunc=filt
            )
        got = ("ok", res)
    except (NotImplementedError, Boom) as exc:
        got = ("exc", type(exc))
    got_trace = list(EVENTS)
    del EVENTS[:]

    ctx = (vtag(a), vtag(b), ds, uh, expected, got)
    check(got[0] == expected[0], "outcome kind", ctx)
    if expected[0] == "exc":
        check(got[1] is expected[1], "exception class", ctx)
    else:
        res = got[1]
        check(type(res) is set, "result type", type(res))
        check(len(res) == len(expected[1]), "result size", ctx)
        want = [model.links[t] for t in expected[1]]
        check(all(any(r is w for r in res) for w in want), "result members", ctx)
        # iteration order of the returned set: built by adding in a.links order
        ref = set()
        for w in want:
            ref.add(w)
        del EVENTS[:]
        check(
            [r.tag for r in res] == [r.tag for r in ref],
            "iteration order of returned set",
            ctx,
        )
    check(got_trace == exp_trace, "call trace", ctx, "\n got", got_trace, "\n exp", exp_trace)
    return got


DS_PLAIN = [True, False, 1, 0, 2, None, "", "yes", [], [0]]
UH_PLAIN = [NON, NEI, ERR, 7, None, True, False, 1.0, "1", -1]


def ff_specs(rng):
    """
    Filter behaviours, as factories: every use gets a fresh (possibly
    stateful) function tag -> answer.
    """
    par = rng.randrange(2)
    k = rng.randrange(1, 4)

    def raise_kth_factory():
        calls = [0]

        def raise_kth(tag):
            calls[0] += 1
            return "raise" if calls[0] == k else True

        return raise_kth

    return [
        None,
        lambda: (lambda tag: True),
        lambda: (lambda tag: False),
        lambda: (lambda tag: tag % 2 == par),
        lambda: (lambda tag: ("tres", tag % 3 != par)),
        lambda: (lambda tag: [tag] if tag % 2 else []),  # non-bool answers
        raise_kth_factory,
    ]


def pure(pred):
    """Factory for a stateless filter behaviour."""
    return None if pred is None else (lambda: pred)


def compare_with_neighbors(model, a, b, ds, uh, pred):
    """|find_links(a,b)| == number of occurrences of b in neighbors(a)."""
    if pred is None:
        f1 = f2 = None
    else:
        f1 = lambda e: pred(e.tag)  # noqa: E731
        f2 = lambda e, v: pred(e.tag)  # noqa: E731
    try:
        fl = helpers.find_links(a, b, ds, uh, f1)
    except NotImplementedError:
        return
    try:
        nbs = helpers.neighbors(
            a,
            helpers.DIR_SENS_FORWARD if ds else helpers.DIR_SENS_ANY,
            uh,
            f2,
        )
    except NotImplementedError:
        return
    occurrences = sum(1 for n in nbs if n is b)
    check(
        len(fl) == occurrences,
        "find_links vs neighbors",
        vtag(a),
        vtag(b),
        ds,
        uh,
        len(fl),
        occurrences,
    )
    # and the multiset of neighbors is the multiset of other ends of the
    # links found towards each of them
    for other in set(n for n in nbs if n is not None):
        cnt = sum(1 for n in nbs if n is other)
        check(len(helpers.find_links(a, other, ds, uh, f1)) == cnt, "nb multiset")


def all_settings_empty(a, b):
    for ds in (True, False):
        for uh in (NON, NEI, ERR):
            for filt in (None, lambda e: True):
                check(helpers.find_links(a, b, ds, uh, filt) == set(), "not empty after unlink")
                if b is not None:
                    check(
                        helpers.find_links(b, a, ds, uh, filt) == set(),
                        "not empty after unlink (rev)",
                    )


# --------------------------------------------------------------------------
# random differential part
# --------------------------------------------------------------------------


def snapshot(model):
    """What the oracle says find_links gives for every pair / main setting."""
    snap = {}
    ends = model.verts + [None]
    for a in model.verts:
        for b in ends:
            for ds in (True, False):
                for uh in (NON, NEI):
                    out, _ = oracle(model, a, b, ds, uh, None)
                    snap[(vtag(a), vtag(b), ds, uh)] = tuple(out[1])
    return snap


def verify_snapshot(model, snap, skip=()):
    ends = model.verts + [None]
    for a in model.verts:
        for b in ends:
            if (vtag(a), vtag(b)) in skip:
                continue
            for ds in (True, False):
                for uh in (NON, NEI):
                    res = helpers.find_links(a, b, ds, uh)
                    del EVENTS[:]
                    want = snap[(vtag(a), vtag(b), ds, uh)]
                    check(
                        sorted(l.tag for l in res) == sorted(want),
                        "other pairs changed",
                        vtag(a),
                        vtag(b),
                        ds,
                        uh,
                    )
                    del EVENTS[:]


def do_unlink(model, rng, a, b):
    destroy = rng.choice([True, False, True, 1, 0, None, "x"])
    before = snapshot(model)
    expected_tags = model.joining(a, b)
    want = [model.links[t] for t in expected_tags]
    # order in which the links are taken apart: iteration order of the set
    # find_links hands to unlink (links added in attachment order at a)
    ref = set()
    for w in want:
        ref.add(w)
    order = list(ref)
    # expected trace
    exp = []
    for tag in model.at[id(a)]:
        if isinstance(model.links[tag], Traced):
            exp.append(("other", tag))
            if tag in expected_tags:
                exp.append(("hash", tag))
    for lnk in order:
        if isinstance(lnk, Traced):
            exp.append(("unlink_from", lnk.tag, vtag(a)))
            exp.append(("unlink_from", lnk.tag, vtag(b)))
            if not destroy:
                exp.append(("hash", lnk.tag))
    ref2 = set()
    if not destroy:
        for lnk in order:
            ref2.add(lnk)

    del EVENTS[:]
    if rng.random() < 0.5:
        ret = explicit.unlink(a, b, destroy)
    else:
        ret = explicit.unlink(a, b, destroy=destroy)
    got_trace = list(EVENTS)
    del EVENTS[:]
    check(got_trace == exp, "unlink trace", "\n got", got_trace, "\n exp", exp)
    if destroy:
        check(ret is None, "unlink(destroy) returned", ret)
    else:
        check(type(ret) is set, "unlink return type")
        check([l.tag for l in ret] == [l.tag for l in ref2], "unlink returned set / order")
    del EVENTS[:]
    for lnk in want:
        check(lnk.vertices == (), "removed link keeps vertices", lnk.tag, lnk.vertices)
        for v in model.verts:
            check(all(l is not lnk for l in v.links), "removed link still attached")
    model.drop_between(a, b)
    model.verify_attachment()
    all_settings_empty(a, b)
    # every other pair: unchanged
    skip = {(vtag(a), vtag(b)), (vtag(b), vtag(a))}
    verify_snapshot(model, before, skip)
    after = snapshot(model)
    for key, val in before.items():
        if (key[0], key[1]) not in skip:
            check(after[key] == val, "model sanity")
    del EVENTS[:]


def random_round(seed, caching):
    rng = random.Random(seed)
    Vertex.NEIGHBOR_CACHING = caching
    model = Model(rng.randrange(2, 6), rng)
    nsteps = rng.randrange(15, 45)
    for _ in range(nsteps):
        op = rng.random()
        verts = model.verts
        if op < 0.45 or not model.links:
            cls = rng.choice(PLAIN + TRACED + TRACED)
            x = rng.choice(verts)
            y = rng.choice(verts + [x])  # self-loops are common
            r = rng.random()
            if r < 0.06:
                y = None
            elif r < 0.10:
                x, y = None, x
            model.make(cls, x, y)
        elif op < 0.55:
            # retarget an end of a plain link through the public setters
            plain = [t for t, l in model.links.items() if not isinstance(l, Traced)]
            if plain:
                tag = rng.choice(plain)
                idx = rng.randrange(2)
                new = rng.choice(verts)
                if model.ends[tag][1 - idx] is None and new is None:
                    continue
                model.set_end(tag, idx, new)
        elif op < 0.70:
            a = rng.choice(verts)
            b = rng.choice(verts + [a, None])
            do_unlink(model, rng, a, b)
        else:
            a = rng.choice(verts)
            b = rng.choice(verts + [a, None])
            for _ in range(6):
                ds = rng.choice(DS_PLAIN + [TBool(True), TBool(False)])
                uh = rng.choice(UH_PLAIN + [TEq(NON), TEq(NEI), TEq(ERR), TEq(5)])
                spec = rng.choice(ff_specs(rng))
                run_find(model, a, b, ds, uh, spec, how=rng.choice(["kw", "pos"]))
            # relation with neighbors()
            for ds in (True, False):
                for uh in (NON, NEI, ERR):
                    par = rng.randrange(2)
                    for pred in (None, lambda t: t % 2 == par):
                        compare_with_neighbors(model, a, b, ds, uh, pred)
        model.verify_attachment()

    # final sweep: every pair, every main setting, both argument orders
    for a in model.verts:
        for b in model.verts + [None]:
            for ds in (True, False):
                for uh in (NON, NEI, ERR):
                    for pred in (None, lambda t: t % 2 == 0):
                        run_find(model, a, b, ds, uh, pure(pred))
                        compare_with_neighbors(model, a, b, ds, uh, pred)

    # pickling round trip: same answers, structurally (by tag)
    # (cached neighbor answers are keyed by the filter functions used above,
    # which cannot be pickled; any change of the links of a vertex drops them)
    for v in model.verts:
        tmp = UnDirectedEdge(v, v)
        tmp.unlink_from(v)
    model.verify_attachment()
    blob = pickle.dumps((model.verts, model.links))
    verts2, links2 = pickle.loads(blob)
    del EVENTS[:]
    for a, a2 in zip(model.verts, verts2):
        for b, b2 in zip(model.verts + [None], verts2 + [None]):
            for ds in (True, False):
                for uh in (NON, NEI):
                    want = sorted(l.tag for l in helpers.find_links(a, b, ds, uh))
                    got = sorted(l.tag for l in helpers.find_links(a2, b2, ds, uh))
                    check(want == got, "pickle round trip", want, got)
                    check(
                        all(
                            any(l is l2 for l2 in links2.values())
                            for l in helpers.find_links(a2, b2, ds, uh)
                        ),
                        "unpickled links identity",
                    )
    del EVENTS[:]

    # finally: unlink every pair, everything ends up empty
    for a in model.verts:
        for b in model.verts:
            do_unlink(model, rng, a, b)
    for a in model.verts:
        check(
            all(None in model.ends[t] for t in model.at[id(a)]),
            "only half-open links may remain",
        )
    Vertex.NEIGHBOR_CACHING = False


# --------------------------------------------------------------------------
# scripted corner cases
# --------------------------------------------------------------------------


def tags(res):
    del EVENTS[:]
    out = sorted(l.tag for l in res)
    del EVENTS[:]
    return out


def scripted(caching):
    Vertex.NEIGHBOR_CACHING = caching
    rng = random.Random(5)
    m = Model(4, rng)
    a, b, c, d = m.verts

    # --- documentation example -------------------------------------------
    e1 = m.make(DirectedEdge, a, b)
    e2 = m.make(DirectedEdge, a, c)
    e3 = m.make(DirectedEdge, b, c)
    e4 = m.make(DirectedEdge, c, d)
    e5 = m.make(DirectedEdge, d, a)
    e6 = m.make(DirectedEdge, a, d)
    check(helpers.find_links(a, b) == {e1}, "doc 1")
    check(helpers.find_links(a, d) == {e6}, "doc 2")
    check(helpers.find_links(a, d, direction_sensitive=False) == {e6, e5}, "doc 3")
    check(helpers.find_links(d, a) == {e5}, "doc 4")
    check(helpers.find_links(b, a) == set(), "doc 5")
    check(helpers.find_links(b, d) == set(), "no link")
    check(helpers.find_links(b, d, False) == set(), "no link")
    check(helpers.find_links(b, b) == set(), "no self-loop")
    check(helpers.find_links(a, None) == set(), "None: nothing half-open")

    # --- each result is a fresh set, mutation does not leak ----------------
    r1 = helpers.find_links(a, b)
    r2 = helpers.find_links(a, b)
    check(r1 is not r2 and r1 == r2, "fresh sets")
    r1.clear()
    check(helpers.find_links(a, b) == {e1}, "mutating result leaks")

    # --- self loops -------------------------------------------------------
    s1 = m.make(DirectedEdge, b, b)
    s2 = m.make(UnDirectedEdge, b, b)
    s3 = m.make(TwoEndedLink, b, b)
    s4 = m.make(TDir, b, b)
    check(tags(helpers.find_links(b, b, True, NEI)) == [s1.tag, s2.tag, s3.tag, s4.tag], "loops")
    check(tags(helpers.find_links(b, b, True, NON)) == [s1.tag, s2.tag, s4.tag], "loops NON")
    check(tags(helpers.find_links(b, b, False, ERR)) == [s1.tag, s2.tag, s3.tag, s4.tag], "loops any")
    try:
        helpers.find_links(b, b)
        check(False, "default unknown_handling must raise on unknown class")
    except NotImplementedError as exc:
        check("Odd" not in str(exc), "message")
    for ds in DS_PLAIN:
        for uh in UH_PLAIN:
            for spec in ff_specs(rng):
                run_find(m, b, b, ds, uh, spec)
                run_find(m, a, d, ds, uh, spec)
                run_find(m, d, a, ds, uh, spec)
                run_find(m, a, None, ds, uh, spec)
    nb = helpers.neighbors(b, helpers.DIR_SENS_FORWARD, NEI)
    check(sum(1 for n in nb if n is b) == 4, "self-loop neighbors")

    # --- parallel edges of every kind, both orientations -------------------
    for cls in PLAIN + TRACED:
        m.make(cls, c, d)
        m.make(cls, d, c)
    m.verify_attachment()
    for ds in (True, False, TBool(True), TBool(False)):
        for uh in (NON, NEI, ERR, TEq(NON), TEq(NEI), TEq(ERR), TEq(9)):
            for spec in ff_specs(rng):
                for how in ("kw", "pos"):
                    run_find(m, c, d, ds, uh, spec, how=how)
                    run_find(m, d, c, ds, uh, spec, how=how)
    for ds in (True, False):
        for uh in (NON, NEI, ERR):
            for pred in (None, lambda t: t % 2 == 1, lambda t: False):
                compare_with_neighbors(m, c, d, ds, uh, pred)
                compare_with_neighbors(m, d, c, ds, uh, pred)
                compare_with_neighbors(m, b, b, ds, uh, pred)

    # --- the unknown-class error is raised at the first unknown joining link,
    # after earlier links went through the filter, and only for joining links
    calls = []

    def rec(link):
        calls.append(link.tag)
        return True

    try:
        helpers.find_links(c, d, True, ERR, rec)
        check(False, "must raise")
    except NotImplementedError as exc:
        check(type(exc) is NotImplementedError, "exact class")
    cd_first_unknown = next(
        t for t in m.joining(c, d) if KIND[type(m.links[t])] == "X"
    )
    want_calls = []
    for t in m.joining(c, d):
        if t == cd_first_unknown:
            break
        lnk = m.links[t]
        if KIND[type(lnk)] == "U" or m.ends[t][0] is c:
            want_calls.append(t)
    del EVENTS[:]
    check(calls == want_calls, "filter calls before the error", calls, want_calls)
    # unknown links elsewhere at c (c--d) do not disturb other pairs
    check(helpers.find_links(c, a) == set(), "c->a")
    check(helpers.find_links(a, c) == {e2}, "a->c")
    check(helpers.find_links(c, a, False) == {e2}, "c-a any")

    # --- half-open links (None end) ---------------------------------------
    h1 = m.make(DirectedEdge, a, None)
    h2 = m.make(DirectedEdge, None, a)
    h3 = m.make(UnDirectedEdge, None, a)
    h4 = m.make(TTwo, a, None)
    check(tags(helpers.find_links(a, None, True, NEI)) == [h1.tag, h3.tag, h4.tag], "None fwd")
    check(tags(helpers.find_links(a, None, True, NON)) == [h1.tag, h3.tag], "None fwd NON")
    check(tags(helpers.find_links(a, None, False)) == [h1.tag, h2.tag, h3.tag, h4.tag], "None any")
    for ds in (True, False):
        for uh in (NON, NEI, ERR):
            run_find(m, a, None, ds, uh, None)
            run_find(m, a, b, ds, uh, None)

    # --- links that are not two-ended: no other() -> AttributeError, at the
    # position of that link in a.links
    class Hyper(Link):
        pass

    pos = len(m.at[id(d)])
    hyp = Hyper(vertices=[d, a, b])
    hyp.tag = 10_000
    m.make(UnDirectedEdge, d, a)  # attached after the hyper link: not reached
    for ds in (True, False):
        calls[:] = []
        try:
            helpers.find_links(d, a, ds, NEI, rec)
            check(False, "must raise AttributeError")
        except AttributeError:
            pass
        exp_calls = []
        for t in m.at[id(d)][:pos]:
            x, y = m.ends[t]
            if (x is d and y is a) or (x is a and y is d):
                if (not ds) or KIND[type(m.links[t])] in "UX" or x is d:
                    exp_calls.append(t)
        del EVENTS[:]
        check(calls == exp_calls, "calls before AttributeError", calls, exp_calls)
        check(len(exp_calls) == (1 if ds else 2), "scenario", exp_calls)
    hyp.unlink_from(d)
    hyp.unlink_from(a)
    hyp.unlink_from(b)
    m.verify_attachment()

    # --- a link that lost one end: other() raises IndexError ---------------
    lone = TwoEndedLink(a, c)
    lone.unlink_from(c)
    for ds in (True, False):
        try:
            helpers.find_links(a, c, ds, NEI)
            check(False, "must raise IndexError")
        except IndexError:
            pass
    lone.unlink_from(a)
    m.verify_attachment()
    check(helpers.find_links(a, c) == {e2}, "restored")

    # --- vertex subclass with its own `links`: read exactly once ----------
    class CountingVertex(Vertex):
        reads = 0

        @property
        def links(self):
            type(self).reads += 1
            return iter(super().links)  # a one-shot iterator

    cv = CountingVertex()
    cv.tag = "cv"
    l1 = DirectedEdge(cv, a)
    l2 = UnDirectedEdge(a, cv)
    l3 = DirectedEdge(a, cv)
    base = CountingVertex.reads
    check(helpers.find_links(cv, a) == {l1, l2}, "counting vertex fwd")
    check(CountingVertex.reads == base + 1, "links read once")
    check(helpers.find_links(cv, a, False) == {l1, l2, l3}, "counting vertex any")
    check(CountingVertex.reads == base + 2, "links read once (2)")
    check(helpers.find_links(a, cv) == {l2, l3}, "to counting vertex")
    check(CountingVertex.reads == base + 2, "links of the target are not read")
    check(explicit.unlink(a, cv, destroy=False) == {l1, l2, l3}, "unlink via plain vertex")
    check(l1.vertices == () and l2.vertices == () and l3.vertices == (), "taken apart")
    check(tuple(Vertex.links.fget(cv)) == (), "cv detached")

    # --- link subclass whose other() lies: find_links believes it ----------
    class Liar(DirectedEdge):
        def other(self, end):
            return c

    liar = Liar(a, b)
    liar.tag = 20_000
    check(liar in helpers.find_links(a, c), "other() is authoritative")
    check(liar not in helpers.find_links(a, b), "other() is authoritative (2)")
    check(liar in helpers.find_links(b, c, False), "other() is authoritative (3)")
    check(liar not in helpers.find_links(b, c, True), "direction still checked")
    liar.unlink_from(a)
    liar.unlink_from(b)
    m.verify_attachment()

    # --- links comparing equal / hashing equal stay distinct by hash+eq ----
    class Same(UnDirectedEdge):
        merge = False

        def __eq__(self, other):
            if Same.merge:
                return isinstance(other, Same)
            return self is other

        def __hash__(self):
            return 7

    sa = Same(a, b)
    sb = Same(a, b)
    check(sum(1 for l in a.links if isinstance(l, Same)) == 2, "both attached")
    got = helpers.find_links(a, b, False)
    check(len(got) == 3 and e1 in got, "distinct links with equal hashes")
    Same.merge = True
    got = helpers.find_links(a, b, False)
    check(len(got) == 2 and e1 in got, "equal links collapse in the set")
    check(sum(1 for x in got if x is sa) == 1, "first equal link is the one kept")
    check(sum(1 for x in got if x is sb) == 0, "second equal link is dropped")
    Same.merge = False
    sa.unlink_from(a)
    sa.unlink_from(b)
    sb.unlink_from(a)
    sb.unlink_from(b)
    m.verify_attachment()

    # --- unlink -------------------------------------------------------------
    snap = snapshot(m)
    check(explicit.unlink(b, d) is None, "unlink of unlinked pair")
    check(explicit.unlink(b, d, destroy=False) == set(), "unlink of unlinked pair (2)")
    all_settings_empty(b, d)
    m.verify_attachment()
    verify_snapshot(m, snap)
    do_unlink(m, rng, c, d)
    do_unlink(m, rng, b, b)
    do_unlink(m, rng, a, None)
    do_unlink(m, rng, a, d)
    do_unlink(m, rng, d, a)
    check(helpers.find_links(a, b) == {e1}, "a->b still there")
    check(helpers.find_links(a, c) == {e2}, "a->c still there")
    check(helpers.find_links(b, c) == {e3}, "b->c still there")
    # argument aliasing / order of unlink arguments
    ret = explicit.unlink(b, a, destroy=False)
    check(ret == {e1}, "unlink reversed args")
    check(e1.vertices == (), "e1 taken apart")
    m.drop_between(a, b)
    m.verify_attachment()
    all_settings_empty(a, b)

    # filterfunc that raises leaves everything as it was
    def bad(link):
        raise Boom()

    try:
        helpers.find_links(a, c, True, ERR, bad)
        check(False, "must raise Boom")
    except Boom:
        pass
    m.verify_attachment()
    check(helpers.find_links(a, c) == {e2}, "after raising filter")

    # filterfunc that unlinks while iterating: iteration is over a snapshot
    def cutter(link):
        link.unlink_from(a)
        return True

    x1 = m.make(UnDirectedEdge, a, c)
    x2 = m.make(UnDirectedEdge, a, c)
    got = helpers.find_links(a, c, True, ERR, cutter)
    check(got == {e2, x1, x2}, "filter mutating the graph")
    check(all(l.vertices == (c,) for l in (e2, x1, x2)), "cutter effect")
    check(a.links == (), "a bare")
    Vertex.NEIGHBOR_CACHING = False


def main():
    for caching in (False, True):
        scripted(caching)
    nrounds = 260
    for seed in range(nrounds):
        random_round(seed, caching=bool(seed % 2))
    check(Vertex.NEIGHBOR_CACHING is False, "caching flag restored")
    print(f"OK: {CHECKS[0]} checks, {nrounds} random rounds")
    return 0


if __name__ == "__main__":
    sys.exit(main())
