#!/usr/bin/env python3
"""
equiv.py for C09 / rewrite 1 (find_links restructured around a private
direction classifier).

Checks find_links() against an oracle computed independently from the public
link attributes, against neighbors(), and after unlink(); also checks the
order in which filterfunc is consulted, which exception classes come out, and
a few unusual inputs.  Exit status 0 = everything as expected.
"""

import itertools
import random
import sys

from edgegraph.structure import (
    Vertex,
    DirectedEdge,
    UnDirectedEdge,
    TwoEndedLink,
)
from edgegraph.traversal import helpers
from edgegraph.builder import explicit

FAILS = []


def check(cond, msg):
    if not cond:
        FAILS.append(msg)
        print("FAIL:", msg)


class MyDirected(DirectedEdge):
    pass


class MyUndirected(UnDirectedEdge):
    pass


class Odd(TwoEndedLink):
    """neither directed nor undirected"""


class Both(DirectedEdge, UnDirectedEdge):
    """directed AND undirected: the undirected test is made first"""


LINK_CLASSES = [
    DirectedEdge,
    UnDirectedEdge,
    MyDirected,
    MyUndirected,
    Odd,
    TwoEndedLink,
    Both,
]

UNKNOWN_MODES = [
    helpers.LNK_UNKNOWN_NONNEIGHBOR,
    helpers.LNK_UNKNOWN_NEIGHBOR,
    helpers.LNK_UNKNOWN_ERROR,
]


class Unknown(Exception):
    pass


def kind(link):
    cls = type(link)
    if issubclass(cls, UnDirectedEdge):
        return "u"
    if issubclass(cls, DirectedEdge):
        return "d"
    return "?"


def oracle(a, b, dirsens, unknown, accept):
    """
    Expected result, as (list of links in the order the filter sees them,
    set of links returned), or Unknown.
    """
    seen = []
    out = []
    for link in a.links:
        ends = link.vertices
        if a is b:
            joins = ends[0] is a and ends[1] is a
        else:
            joins = (ends[0] is a and ends[1] is b) or (
                ends[0] is b and ends[1] is a
            )
        if not joins:
            continue
        if dirsens:
            k = kind(link)
            if k == "d" and ends[0] is not a:
                continue
            if k == "?":
                if unknown == helpers.LNK_UNKNOWN_NONNEIGHBOR:
                    continue
                if unknown != helpers.LNK_UNKNOWN_NEIGHBOR:
                    raise Unknown()
        if accept is not None:
            seen.append(link)
            if not accept(link):
                continue
        out.append(link)
    return seen, out


def make_world(rng, nverts, nlinks):
    verts = [Vertex(attributes={"i": i}) for i in range(nverts)]
    links = []
    for n in range(nlinks):
        cls = rng.choice(LINK_CLASSES)
        x = rng.choice(verts)
        y = rng.choice(verts) if rng.random() > 0.15 else x
        lnk = cls(x, y)
        lnk.n = n
        links.append(lnk)
    return verts, links


FILTERS = [
    None,
    lambda e: True,
    lambda e: False,
    lambda e: e.n % 2 == 0,
    lambda e: e.n % 3,  # truthy / falsy non-bools
    lambda e: [] if e.n % 2 else [0],
]


def run_find(a, b, dirsens, unknown, filt):
    trace = []
    if filt is None:
        ff = None
    else:

        def ff(e):
            trace.append(e)
            return filt(e)

    try:
        got = helpers.find_links(
            a,
            b,
            direction_sensitive=dirsens,
            unknown_handling=unknown,
            filterfunc=ff,
        )
    except NotImplementedError:
        return trace, Unknown
    return trace, got


def same_seq(xs, ys):
    return len(xs) == len(ys) and all(x is y for x, y in zip(xs, ys))


def world_checks(seed, caching):
    Vertex.NEIGHBOR_CACHING = caching
    rng = random.Random(seed)
    verts, links = make_world(rng, 5, 22)

    for a, b in itertools.product(verts, verts):
        for dirsens, unknown, filt in itertools.product(
            [True, False], UNKNOWN_MODES, FILTERS
        ):
            tag = f"seed={seed} a={a.i} b={b.i} ds={dirsens} unk={unknown}"
            try:
                exp_seen, exp = oracle(a, b, dirsens, unknown, filt)
            except Unknown:
                exp_seen, exp = None, Unknown
            trace, got = run_find(a, b, dirsens, unknown, filt)
            if exp is Unknown:
                check(got is Unknown, f"{tag}: expected NotImplementedError")
                continue
            check(type(got) is set, f"{tag}: result is not a set")
            check(
                got is not Unknown
                and len(got) == len(exp)
                and all(any(g is e for g in got) for e in exp),
                f"{tag}: wrong links",
            )
            check(same_seq(trace, exp_seen), f"{tag}: filter call order")

            # size == multiplicity of b in neighbors(a)
            nbdir = helpers.DIR_SENS_FORWARD if dirsens else helpers.DIR_SENS_ANY
            nbff = None if filt is None else (lambda e, v, f=filt: f(e))
            try:
                nbs = helpers.neighbors(
                    a,
                    direction_sensitive=nbdir,
                    unknown_handling=unknown,
                    filterfunc=nbff,
                )
            except NotImplementedError:
                nbs = None
            if nbs is not None and got is not Unknown:
                check(
                    sum(1 for n in nbs if n is b) == len(got),
                    f"{tag}: size differs from neighbors() multiplicity",
                )

    # unlink one pair: nothing is found for it afterwards, whatever the
    # settings, while all other pairs answer as before
    a, b = rng.choice(verts), rng.choice(verts)
    before = {}
    for x, y in itertools.product(verts, verts):
        if {id(x), id(y)} == {id(a), id(b)}:
            continue
        for dirsens, unknown in itertools.product([True, False], UNKNOWN_MODES):
            before[(x.i, y.i, dirsens, unknown)] = run_find(
                x, y, dirsens, unknown, None
            )[1]
    check(explicit.unlink(a, b) is None, "unlink(destroy=True) returns None")
    for x, y in ((a, b), (b, a)):
        for dirsens, unknown, filt in itertools.product(
            [True, False], UNKNOWN_MODES, FILTERS
        ):
            trace, got = run_find(x, y, dirsens, unknown, filt)
            check(got == set(), f"seed={seed}: links left after unlink")
            check(trace == [], f"seed={seed}: filter asked after unlink")
        check(
            all(n is not y for n in helpers.neighbors(
                x, helpers.DIR_SENS_ANY, helpers.LNK_UNKNOWN_NEIGHBOR)),
            f"seed={seed}: still neighbors after unlink",
        )
    for x, y in itertools.product(verts, verts):
        if {id(x), id(y)} == {id(a), id(b)}:
            continue
        for dirsens, unknown in itertools.product([True, False], UNKNOWN_MODES):
            now = run_find(x, y, dirsens, unknown, None)[1]
            check(
                now == before[(x.i, y.i, dirsens, unknown)],
                f"seed={seed}: other pair changed by unlink",
            )


def unusual_inputs():
    Vertex.NEIGHBOR_CACHING = False
    a, b, c = Vertex(), Vertex(), Vertex()
    d1 = DirectedEdge(a, b)
    d2 = DirectedEdge(b, a)
    u1 = UnDirectedEdge(b, a)
    o1 = Odd(a, b)
    o2 = Odd(b, a)
    both = Both(b, a)  # points b -> a, but counts as undirected
    loop_d = DirectedEdge(a, a)
    loop_o = Odd(a, a)
    far = DirectedEdge(a, c)

    # flags that are not real booleans / ints
    check(
        helpers.find_links(a, b, direction_sensitive=1, unknown_handling=0)
        == {d1, u1, both},
        "truthy int flag",
    )
    check(
        helpers.find_links(a, b, direction_sensitive="yes", unknown_handling=True)
        == {d1, u1, both, o1, o2},
        "truthy str flag, True == LNK_UNKNOWN_NEIGHBOR",
    )
    check(
        helpers.find_links(a, b, direction_sensitive=[], unknown_handling=2)
        == {d1, d2, u1, o1, o2, both},
        "falsy list flag ignores unknown_handling",
    )
    check(
        helpers.find_links(a, b, direction_sensitive=None, unknown_handling="x")
        == {d1, d2, u1, o1, o2, both},
        "None flag ignores unknown_handling",
    )
    check(
        helpers.find_links(a, b, True, 1.0) == {d1, u1, both, o1, o2},
        "1.0 == LNK_UNKNOWN_NEIGHBOR",
    )
    check(
        helpers.find_links(a, b, True, 0.0) == {d1, u1, both},
        "0.0 == LNK_UNKNOWN_NONNEIGHBOR",
    )
    for bad in (3, -1, None, "1", (1,)):
        try:
            helpers.find_links(a, b, True, bad)
        except NotImplementedError:
            pass
        else:
            check(False, f"unknown_handling={bad!r} should raise")
    # ... but only when an unknown link actually joins the pair
    check(helpers.find_links(a, c, True, 3) == {far}, "no unknown link, no error")
    check(helpers.find_links(c, a, True, 3) == set(), "backward only")
    check(helpers.find_links(c, a, False, 3) == {far}, "backward, insensitive")

    # self loops
    check(helpers.find_links(a, a, True, 0) == {loop_d}, "self loops, nonnb")
    check(helpers.find_links(a, a, True, 1) == {loop_d, loop_o}, "self loops, nb")
    check(helpers.find_links(a, a, False) == {loop_d, loop_o}, "self loops, any")

    # the filter is asked only about qualifying links, in a.links order, and
    # what it raises comes out unchanged, as does the moment it is raised
    asked = []

    class Boom(Exception):
        pass

    def ff(e):
        asked.append(e)
        if e is u1:
            raise Boom()
        return True

    try:
        helpers.find_links(a, b, True, 2, ff)
    except Boom:
        pass
    else:
        check(False, "exception of the filter must propagate")
    check(same_seq(asked, [d1, u1]), "filter asked in link order up to the raise")

    # the unknown-class error is raised when the link is reached: links before
    # it have been filtered already, links after it never are
    asked.clear()
    try:
        helpers.find_links(a, b, True, 2, lambda e: asked.append(e))
    except NotImplementedError:
        pass
    else:
        check(False, "unknown link must raise in error mode")
    check(same_seq(asked, [d1, u1]), "filter calls before the unknown link")

    # filter objects: callable instances, falsy callables
    class Falsy:
        def __bool__(self):
            return False

        def __call__(self, e):
            return e is d1

    check(helpers.find_links(a, b, True, 0, Falsy()) == {d1}, "falsy callable")

    # None as the other vertex: a half-open link joins a and None
    half = DirectedEdge(a, None)
    half_back = DirectedEdge(None, a)
    check(helpers.find_links(a, None) == {half}, "None end, directed")
    check(
        helpers.find_links(a, None, False) == {half, half_back},
        "None end, any direction",
    )

    # a vertex that is not in the graph at all, or not a vertex
    check(helpers.find_links(Vertex(), a) == set(), "isolated vertex")
    check(helpers.find_links(a, object()) == set(), "foreign object as v2")
    try:
        helpers.find_links(object(), a)
    except AttributeError:
        pass
    else:
        check(False, "non-vertex v1 has no links")

    # a link that lost an end cannot name its other end
    x, y = Vertex(), Vertex()
    broken = DirectedEdge(x, y)
    broken._vertices.remove(y)  # x still lists the link
    try:
        helpers.find_links(x, y, False)
    except IndexError:
        pass
    else:
        check(False, "link with a missing end raises IndexError")

    # overridden v1 on a directed subclass is what decides the direction
    class Flipped(DirectedEdge):
        @property
        def v1(self):
            return self.vertices[1]

        @property
        def v2(self):
            return self.vertices[0]

    p, q = Vertex(), Vertex()
    fl = Flipped(p, q)
    check(helpers.find_links(p, q) == set(), "flipped edge, forward")
    check(helpers.find_links(q, p) == {fl}, "flipped edge, backward")
    check(helpers.find_links(p, q, False) == {fl}, "flipped edge, any")

    # links that compare equal collapse in the returned set
    class Same(UnDirectedEdge):
        def __eq__(self, other):
            return isinstance(other, Same)

        def __hash__(self):
            return 7

    r, s = Vertex(), Vertex()
    s1 = Same(r, s)
    s2 = Same(r, s)
    res = helpers.find_links(r, s)
    check(len(res) == 1 and next(iter(res)) is s1, "equal links collapse to first")
    check(len(r.links) == 1, "equal links are attached once")
    del s2


def main():
    for caching in (False, True):
        for seed in (1, 2, 3):
            world_checks(seed, caching)
    unusual_inputs()
    Vertex.NEIGHBOR_CACHING = False
    if FAILS:
        print(f"{len(FAILS)} check(s) failed")
        return 1
    print("equiv: all checks passed")
    return 0


if __name__ == "__main__":
    sys.exit(main())
