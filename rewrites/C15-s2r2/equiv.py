#!/usr/bin/env python3
# -*- coding: utf-8 -*-
"""
Equivalence / conformance program for edgegraph.output.pyvis (property C15).

Run from the worktree root:

    PYTHONPATH=<worktree> /venv/bin/python equiv.py

It exits 0 iff everything observed through the public API is as the property
("one node per member vertex, only real edges, correctly directed") and the
documented behaviour of make_pyvis_net / pyvis_render_customizable demand.

Layout:

* an independent ORACLE, written from the property statement and the
  documentation of pyvis (Network.add_node / add_edge), which works off
  ``vertex.links`` and ``link.vertices`` positions and linear identity
  searches (no v1/v2/other(), no id-keyed dictionary);
* property-level checks that do not use the oracle at all;
* scripted corner cases;
* a seeded random differential part (graphs built twice from one spec: the
  oracle runs on one copy, the library on the other, so callbacks that
  modify the graph mid-export are comparable too);
* everything is run with Vertex.NEIGHBOR_CACHING off and on.
"""

import pickle
import random
import sys

from edgegraph.structure import (
    Vertex,
    Universe,
    DirectedEdge,
    UnDirectedEdge,
    TwoEndedLink,
    Link,
)
from edgegraph.builder import explicit
from edgegraph.traversal import helpers
from edgegraph.output import pyvis as egpyvis

SEED = 0xC15_0002
N_RANDOM = 1200

FAILS = []
CHECKS = [0]


def check(cond, what):
    CHECKS[0] += 1
    if not cond:
        FAILS.append(what)
        if len(FAILS) <= 25:
            print("FAIL:", what)


# --------------------------------------------------------------------------
# link flavours
# --------------------------------------------------------------------------


class SubDirected(DirectedEdge):
    """A user subclass of DirectedEdge: still wears an arrow."""


class SubUnDirected(UnDirectedEdge):
    """A user subclass of UnDirectedEdge: no arrow."""


class HyperLink(Link):
    """A link that is not two-ended at all (no v1 / v2)."""


class SubVertex(Vertex):
    """A user subclass of Vertex."""


KINDS = {
    "d": DirectedEdge,
    "u": UnDirectedEdge,
    "t": TwoEndedLink,
    "sd": SubDirected,
    "su": SubUnDirected,
}


def wears_arrow(link):
    # from the property: "an arrowed edge ... to a directed link"
    return DirectedEdge in type(link).__mro__


# --------------------------------------------------------------------------
# graph construction from a spec (so that it can be built twice)
# --------------------------------------------------------------------------


class NS:
    """Bag holding one built copy of a graph."""

    def __init__(self):
        self.uni = None
        self.verts = []
        self.links = []

    def vidx(self, obj):
        for k, v in enumerate(self.verts):
            if v is obj:
                return k
        if obj is None:
            return None
        if obj is self.uni:
            return "uni"
        return ("?", type(obj).__name__)

    def lidx(self, obj):
        for k, ln in enumerate(self.links):
            if ln is obj:
                return k
        return ("?", type(obj).__name__)


def build(spec):
    """
    spec = dict(n=int, member=[bool]*n, sub=[bool]*n, links=[(kind,a,b)],
                ops=[...])
    a / b are vertex numbers or None.
    """
    ns = NS()
    ns.uni = Universe()
    for k in range(spec["n"]):
        cls = SubVertex if spec["sub"][k] else Vertex
        v = cls(attributes={"i": k})
        ns.verts.append(v)
    for k in spec.get("order", range(spec["n"])):
        if spec["member"][k]:
            ns.uni.add_vertex(ns.verts[k])
    for kind, a, b in spec["links"]:
        va = None if a is None else ns.verts[a]
        vb = None if b is None else ns.verts[b]
        ns.links.append(KINDS[kind](va, vb))
    for op in spec.get("ops", ()):
        apply_op(ns, op)
    return ns


def apply_op(ns, op):
    what = op[0]
    if what == "setv1":
        if len(ns.links[op[1]].vertices) >= 2:
            ns.links[op[1]].v1 = ns.verts[op[2]]
    elif what == "setv2":
        if len(ns.links[op[1]].vertices) >= 2:
            ns.links[op[1]].v2 = ns.verts[op[2]]
    elif what == "unlink":
        ln = ns.links[op[1]]
        ends = ln.vertices
        if ends and ends[op[2] % len(ends)] is not None:
            ln.unlink_from(ends[op[2] % len(ends)])
    elif what == "third":
        ns.links[op[1]].add_vertex(ns.verts[op[2]])
    elif what == "leave":
        v = ns.verts[op[1]]
        if any(v is m for m in ns.uni.vertices):
            ns.uni.remove_vertex(v)
    elif what == "join":
        ns.uni.add_vertex(ns.verts[op[1]])
    elif what == "hyper":
        ns.links.append(HyperLink(vertices=[ns.verts[k] for k in op[1]]))
    elif what == "nest":
        # the universe becomes a member of itself / gets linked as a vertex
        ns.verts.append(ns.uni)
        if op[1]:
            ns.uni.add_vertex(ns.uni)
    else:
        raise RuntimeError(op)


# --------------------------------------------------------------------------
# callbacks
# --------------------------------------------------------------------------


class Boom(Exception):
    """Raised by callbacks on purpose."""


class Renderer:
    """
    Callable with a countable truth value, a call log, and scripted
    misbehaviour.  ``plan`` maps the ordinal of the call (0-based) to an
    action: an exception class to raise, or ("ret", value), or
    ("mut", op) to modify the graph and answer normally.
    """

    def __init__(self, ns, log, tag, plan=None, truth=True, style="str"):
        self.ns = ns
        self.log = log
        self.tag = tag
        self.plan = plan or {}
        self.truth = truth
        self.style = style
        self.calls = 0
        self.bools = 0

    def __bool__(self):
        self.bools += 1
        self.log.append(("bool", self.tag))
        return self.truth

    def __call__(self, obj):
        n = self.calls
        self.calls += 1
        if self.tag == "v":
            key = self.ns.vidx(obj)
        else:
            key = self.ns.lidx(obj)
        self.log.append((self.tag, key))
        act = self.plan.get(n)
        if isinstance(act, type) and issubclass(act, BaseException):
            raise act(f"{self.tag}{n}")
        if isinstance(act, tuple) and act[0] == "ret":
            return act[1]
        if isinstance(act, tuple) and act[0] == "raise":
            raise act[1]()
        if isinstance(act, tuple) and act[0] == "mut":
            apply_op_cb(self.ns, act[1])
        if self.style == "str":
            return f"{self.tag}:{key}"
        return key


def apply_op_cb(ns, op):
    """Graph modifications made from inside a callback."""
    what = op[0]
    if what == "newlink":
        a, b = op[2] % len(ns.verts), op[3] % len(ns.verts)
        ns.links.append(KINDS[op[1]](ns.verts[a], ns.verts[b]))
    elif what == "newvert":
        v = Vertex(attributes={"i": len(ns.verts)})
        ns.verts.append(v)
        ns.uni.add_vertex(v)
    elif what == "leave":
        v = ns.verts[op[1] % len(ns.verts)]
        if any(v is m for m in ns.uni.vertices):
            ns.uni.remove_vertex(v)
    elif what == "unlinkall":
        v = ns.verts[op[1] % len(ns.verts)]
        for ln in v.links:
            if isinstance(ln, TwoEndedLink) and len(ln.vertices) == 2:
                v.remove_from_link(ln)
    else:
        raise RuntimeError(op)


# --------------------------------------------------------------------------
# the oracle
# --------------------------------------------------------------------------

NODE_COLOR = "#97c2fc"  # pyvis' documented default colour of add_node()


def oracle(uni, rvfunc, refunc, initial_directed=False):
    """
    Independent model of make_pyvis_net, from the property statement:

    * one node per member, ids 0..n-1 in universe order, label from rvfunc
      (hex(id(v)) without one; pyvis falls back to the id on an empty label);
    * each link is looked at from its first end (``vertices[0]``) only, a
      self-loop therefore once; it becomes an edge first-end -> second-end iff
      the second end is a member as well;
    * directed links wear ``arrows == "to"`` and are all kept; pyvis drops an
      arrow-less edge when the pair of nodes is joined already;
    * AssertionError coming out of the edge step is swallowed.

    Returns (nodes, edges, final_directed_flag).  Exceptions propagate.
    """
    members = []
    for m in uni.vertices:
        members.append(m)

    def where(obj):
        found = None
        for k, m in enumerate(members):
            if m is obj:
                found = k
        return found

    nodes = []
    for k, m in enumerate(members):
        lab = rvfunc(m) if rvfunc else hex(id(m))
        nodes.append(
            {
                "color": NODE_COLOR,
                "id": k,
                "label": lab if lab else k,
                "shape": "dot",
            }
        )

    edges = []
    flag = initial_directed
    for k, m in enumerate(members):
        for ln in tuple(m.links):
            if TwoEndedLink not in type(ln).__mro__:
                raise AttributeError("not a two-ended link")
            ends = ln.vertices
            if len(ends) < 2:
                raise IndexError("an end is missing")
            first, second = ends[0], ends[1]
            if m is first:
                far = second
            elif m is second:
                continue
            else:
                far = None
            t = where(far)
            if t is None:
                continue
            flag = wears_arrow(ln)
            try:
                opts = {}
                if refunc:
                    opts["title"] = refunc(ln)
            except AssertionError:
                continue
            if not flag:
                if any(
                    (e["from"], e["to"]) in ((k, t), (t, k)) for e in edges
                ):
                    continue
            opts["from"] = k
            opts["to"] = t
            if flag:
                opts["arrows"] = "to"
            edges.append(opts)
    return nodes, edges, flag


def outcome(fn):
    """Run fn(); return ("ok", value) or ("exc", class, str)."""
    try:
        return ("ok", fn())
    except BaseException as exc:  # pylint: disable=broad-except
        return ("exc", type(exc))


def net_view(net):
    return (
        [dict(n) for n in net.nodes],
        [list(e.items()) for e in net.get_edges()],
        net.directed,
        list(net.get_nodes()),
    )


def oracle_view(res):
    nodes, edges, flag = res
    return (
        nodes,
        [list(e.items()) for e in edges],
        flag,
        [n["id"] for n in nodes],
    )


# --------------------------------------------------------------------------
# property-level checks (no oracle)
# --------------------------------------------------------------------------


def property_checks(uni, net, label_of, tag, edges_may_be_dropped=False):
    members = uni.vertices
    n = len(members)
    check(net.get_nodes() == list(range(n)), f"{tag}: node ids 0..n-1")
    check(len(net.nodes) == n, f"{tag}: one node per member")
    for k, m in enumerate(members):
        node = net.get_node(k)
        want = label_of(m)
        check(node["label"] == (want if want else k), f"{tag}: label {k}")
        check(node["id"] == k, f"{tag}: id {k}")

    def pos(v):
        for k, m in enumerate(members):
            if m is v:
                return k
        return None

    # links among members, looked up through the members' own link lists
    real = []
    seen = []
    for m in members:
        for ln in m.links:
            if any(ln is s for s in seen):
                continue
            seen.append(ln)
            ends = ln.vertices
            if len(ends) < 2:
                continue
            a, b = pos(ends[0]), pos(ends[1])
            if a is None or b is None:
                continue
            real.append((a, b, wears_arrow(ln)))

    edges = net.get_edges()
    for e in edges:
        check(
            0 <= e["from"] < n and 0 <= e["to"] < n,
            f"{tag}: edge joins nodes of members only",
        )
        if e.get("arrows") == "to":
            check(
                (e["from"], e["to"], True) in real,
                f"{tag}: arrowed edge {e['from']}->{e['to']} has no link",
            )
        else:
            check("arrows" not in e, f"{tag}: odd arrows value")
            check(
                (e["from"], e["to"], False) in real
                or (e["to"], e["from"], False) in real,
                f"{tag}: arrow-less edge without an undirected link",
            )
    if not edges_may_be_dropped:
        # one arrowed edge per directed link
        for a, b, arrow in set(real):
            if arrow:
                have = sum(
                    1
                    for e in edges
                    if e.get("arrows") == "to"
                    and (e["from"], e["to"]) == (a, b)
                )
                check(
                    have == real.count((a, b, True)),
                    f"{tag}: #arrowed edges {a}->{b}",
                )
        # conversely: every member-member link leaves its pair joined
        for a, b, _ in real:
            check(
                any(
                    (e["from"], e["to"]) in ((a, b), (b, a)) for e in edges
                ),
                f"{tag}: link {a},{b} left no edge",
            )


# --------------------------------------------------------------------------
# state snapshots (the export must not modify anything)
# --------------------------------------------------------------------------


def snapshot(ns):
    out = []
    out.append(("uni", [id(v) for v in ns.uni.vertices]))
    out.append(("univars", sorted(vars(ns.uni))))
    for v in ns.verts:
        out.append(
            (
                "v",
                id(v),
                [id(x) for x in v.links],
                [id(u) for u in v.universes],
                sorted(vars(v)),
            )
        )
    for ln in ns.links:
        out.append(
            (
                "l",
                id(ln),
                [id(x) for x in ln.vertices],
                sorted(vars(ln)),
            )
        )
    out.append(Vertex.total_cache_stats())
    return out


# --------------------------------------------------------------------------
# differential driver
# --------------------------------------------------------------------------


def differential(spec, mode, tag):
    """
    Build the graph twice, run the oracle on one copy and the library on the
    other, with equally configured callbacks; compare everything.
    """
    nsa = build(spec)
    nsb = build(spec)
    loga, logb = [], []

    def mk(ns, log):
        rv = re_ = None
        if mode.get("rv") is not None:
            rv = Renderer(ns, log, "v", **mode["rv"])
        if mode.get("re") is not None:
            re_ = Renderer(ns, log, "e", **mode["re"])
        if mode.get("same"):
            re_ = rv
        return rv, re_

    rva, rea = mk(nsa, loga)
    rvb, reb = mk(nsb, logb)
    kwargs = mode.get("kwargs")
    initial = bool(kwargs.get("directed", False)) if kwargs else False

    mutating = any(
        isinstance(act, tuple) and act[0] == "mut"
        for r in (mode.get("rv"), mode.get("re"))
        if r
        for act in (r.get("plan") or {}).values()
    )
    before = None if mutating else snapshot(nsb)
    kwargs_copy = None if kwargs is None else dict(kwargs)
    # the members at the moment the export starts
    start_members = {id(nsa): nsa.uni.vertices, id(nsb): nsb.uni.vertices}

    want = outcome(lambda: oracle(nsa.uni, rva, rea, initial))
    if kwargs is None:
        got = outcome(lambda: egpyvis.make_pyvis_net(nsb.uni, rvb, reb))
    else:
        got = outcome(
            lambda: egpyvis.make_pyvis_net(
                nsb.uni, rvfunc=rvb, refunc=reb, network_kwargs=kwargs
            )
        )

    check(want[0] == got[0], f"{tag}: outcome kind {want[:2]} vs {got[:2]}")
    if want[0] == "exc" and got[0] == "exc":
        check(want[1] is got[1], f"{tag}: exception {want[1]} vs {got[1]}")
    check(loga == logb, f"{tag}: callback log\n  {loga}\n  {logb}")
    if kwargs is not None:
        check(kwargs == kwargs_copy, f"{tag}: network_kwargs modified")
    if before is not None:
        check(before == snapshot(nsb), f"{tag}: export modified the graph")

    if want[0] == "ok" and got[0] == "ok":
        net = got[1]
        rvm = mode.get("rv")
        rem = mode.get("same") and rvm or mode.get("re")
        rv_used = rvm is not None and rvm.get("truth", True)
        wv, gv = oracle_view(want[1]), net_view(net)
        fresh = egpyvis.network.Network(
            **({"cdn_resources": "local"} if kwargs is None else kwargs)
        )
        check(
            type(net) is type(fresh) and sorted(vars(net)) == sorted(vars(fresh)),
            f"{tag}: the result is a plain pyvis Network, nothing attached",
        )
        if not rv_used:
            # labels made by default hold addresses, which differ between
            # the two copies of the graph: verify, then blank them
            for side, ns in ((wv, nsa), (gv, nsb)):
                for node, m in zip(side[0], start_members[id(ns)]):
                    check(
                        node["label"] == hex(id(m)),
                        f"{tag}: default label is the address",
                    )
                    node["label"] = "@"
        check(wv == gv, f"{tag}: network\n  want {wv}\n  got  {gv}")
        rv_plain = (not rv_used) or (
            not rvm.get("plan") and rvm.get("style", "str") == "str"
        )
        if rv_plain and not mutating:
            if rv_used:
                lab = lambda m: f"v:{nsb.vidx(m)}"  # noqa: E731
            else:
                lab = lambda m: hex(id(m))  # noqa: E731
            dropped = bool(rem and rem.get("plan") and rem.get("truth", True))
            property_checks(nsb.uni, net, lab, tag, dropped)
        return net
    return None


def base_spec(n, links, member=None, sub=None, ops=(), order=None):
    spec = {
        "n": n,
        "member": member if member is not None else [True] * n,
        "sub": sub if sub is not None else [False] * n,
        "links": list(links),
        "ops": list(ops),
    }
    if order is not None:
        spec["order"] = order
    return spec


PLAIN = {"rv": {}, "re": {}}


# --------------------------------------------------------------------------
# scripted corner cases
# --------------------------------------------------------------------------


def scripted(tag0):
    t = lambda s: f"{tag0}/{s}"  # noqa: E731

    # --- empty universe
    net = differential(base_spec(0, []), PLAIN, t("empty"))
    check(net.get_nodes() == [] and net.get_edges() == [], t("empty net"))
    check(net.directed is False, t("empty: directed flag untouched"))
    differential(base_spec(0, []), {}, t("empty-nocb"))

    # --- isolated vertices, default labels
    differential(base_spec(3, []), {}, t("isolated"))

    # --- single edges of every flavour
    for kind in KINDS:
        net = differential(base_spec(2, [(kind, 0, 1)]), PLAIN, t("1" + kind))
        (e,) = net.get_edges()
        check((e["from"], e["to"]) == (0, 1), t(f"1{kind} ends"))
        check(
            (e.get("arrows") == "to") == (kind in ("d", "sd")),
            t(f"1{kind} arrow"),
        )
        check(e["title"] == "e:0", t(f"1{kind} title"))
        # reversed: drawn from node 1 to node 0
        net = differential(base_spec(2, [(kind, 1, 0)]), PLAIN, t("r" + kind))
        (e,) = net.get_edges()
        check((e["from"], e["to"]) == (1, 0), t(f"r{kind} ends"))
        # no refunc: no title key at all
        net = differential(base_spec(2, [(kind, 0, 1)]), {"rv": {}}, t("nt"))
        check("title" not in net.get_edges()[0], t(f"nt{kind} no title"))

    # --- self loops
    for kind in KINDS:
        net = differential(base_spec(1, [(kind, 0, 0)]), PLAIN, t("loop" + kind))
        check(len(net.get_edges()) == 1, t(f"loop{kind}: drawn once"))
        e = net.get_edges()[0]
        check((e["from"], e["to"]) == (0, 0), t(f"loop{kind} ends"))
    # two directed self loops stay two, two undirected collapse to one
    net = differential(base_spec(1, [("d", 0, 0), ("d", 0, 0)]), PLAIN, t("2dl"))
    check(len(net.get_edges()) == 2, t("2 directed loops"))
    net = differential(base_spec(1, [("u", 0, 0), ("u", 0, 0)]), PLAIN, t("2ul"))
    check(len(net.get_edges()) == 1, t("2 undirected loops"))
    # self loop next to ordinary edges, several vertices
    differential(
        base_spec(
            3,
            [("d", 0, 1), ("d", 1, 1), ("u", 1, 2), ("u", 2, 2), ("d", 2, 0)],
        ),
        PLAIN,
        t("loops-mixed"),
    )

    # --- parallel links
    net = differential(base_spec(2, [("d", 0, 1)] * 3), PLAIN, t("3d"))
    check(len(net.get_edges()) == 3, t("3 parallel directed"))
    net = differential(base_spec(2, [("u", 0, 1)] * 3), PLAIN, t("3u"))
    check(len(net.get_edges()) == 1, t("3 parallel undirected -> joined"))
    net = differential(
        base_spec(2, [("d", 0, 1), ("d", 1, 0)]), PLAIN, t("antiparallel")
    )
    check(
        [(e["from"], e["to"]) for e in net.get_edges()] == [(0, 1), (1, 0)],
        t("antiparallel order"),
    )
    net = differential(base_spec(2, [("d", 0, 1), ("u", 0, 1)]), PLAIN, t("du"))
    check(len(net.get_edges()) == 1, t("d then u"))
    net = differential(base_spec(2, [("u", 0, 1), ("d", 0, 1)]), PLAIN, t("ud"))
    check(len(net.get_edges()) == 2, t("u then d"))
    net = differential(base_spec(2, [("u", 1, 0), ("d", 0, 1)]), PLAIN, t("ud2"))
    # (the undirected link is met second, from node 1, when 0->1 exists)
    check(
        [(e["from"], e["to"], e.get("arrows")) for e in net.get_edges()]
        == [(0, 1, "to")],
        t("ud2"),
    )

    # --- final state of the directed flag follows the last edge drawn
    net = differential(base_spec(2, [("u", 0, 1), ("d", 0, 1)]), {}, t("flag1"))
    check(net.directed is True, t("flag after directed last"))
    net = differential(base_spec(2, [("d", 0, 1), ("u", 0, 1)]), {}, t("flag2"))
    check(net.directed is False, t("flag after undirected last"))

    # --- non members
    spec = base_spec(
        4,
        [("d", 0, 3), ("d", 3, 0), ("u", 1, 3), ("u", 3, 2), ("d", 0, 1),
         ("d", 3, 3), ("t", 3, 1)],
        member=[True, True, True, False],
    )
    net = differential(spec, PLAIN, t("outsider"))
    check(len(net.get_nodes()) == 3, t("outsider: no node"))
    check(len(net.get_edges()) == 1, t("outsider: no edge"))
    differential(spec, {}, t("outsider-nocb"))

    # an outsider carrying leftovers of older implementations
    ns = build(spec)
    setattr(ns.verts[3], "__make_pyvis_net_i", 1)
    setattr(ns.verts[3], "_make_pyvis_net_i", 1)
    net = egpyvis.make_pyvis_net(ns.uni)
    check(len(net.get_nodes()) == 3, t("leftover attr: nodes"))
    check(len(net.get_edges()) == 1, t("leftover attr: edges"))
    check(
        getattr(ns.verts[3], "__make_pyvis_net_i") == 1,
        t("leftover attr untouched"),
    )
    for v in ns.verts:
        check(
            sorted(k for k in vars(v) if "pyvis" in k)
            == (
                ["__make_pyvis_net_i", "_make_pyvis_net_i"]
                if v is ns.verts[3]
                else []
            ),
            t("no temporary attribute left behind"),
        )

    # --- only outsiders linked, members isolated
    differential(
        base_spec(4, [("d", 2, 3), ("u", 3, 2)], member=[1, 1, 0, 0]),
        PLAIN,
        t("outsiders-only"),
    )

    # --- universe order is insertion order, not creation order
    net = differential(
        base_spec(3, [("d", 0, 2), ("u", 1, 0)], order=[2, 0, 1]),
        PLAIN,
        t("order"),
    )
    check(
        [net.get_node(k)["label"] for k in range(3)] == ["v:2", "v:0", "v:1"],
        t("order labels"),
    )
    check(
        [(e["from"], e["to"]) for e in net.get_edges()] == [(1, 0), (2, 1)],
        t("order edges"),
    )

    # --- leave and re-join (moves to the end)
    differential(
        base_spec(
            3, [("d", 0, 1), ("d", 1, 2), ("u", 2, 0)],
            ops=[("leave", 0), ("join", 0)],
        ),
        PLAIN,
        t("rejoin"),
    )

    # --- ends moved by the v1 / v2 setters
    differential(
        base_spec(
            4,
            [("d", 0, 1), ("u", 1, 2), ("d", 2, 3)],
            ops=[("setv1", 0, 3), ("setv2", 1, 1), ("setv2", 2, 2)],
        ),
        PLAIN,
        t("setters"),
    )

    # --- missing ends
    differential(base_spec(2, [("d", 0, None), ("u", 1, None)]), PLAIN, t("v2None"))
    differential(base_spec(2, [("d", None, 0), ("u", None, 1)]), PLAIN, t("v1None"))
    # one end unlinked: the remaining end lists a one-ended link -> IndexError
    spec = base_spec(
        3, [("d", 0, 1), ("d", 1, 2), ("d", 2, 0)], ops=[("unlink", 1, 1)]
    )
    nsx = build(spec)
    check(
        outcome(lambda: egpyvis.make_pyvis_net(nsx.uni))[:2]
        == ("exc", IndexError),
        t("one-ended link raises IndexError"),
    )
    differential(spec, PLAIN, t("one-ended"))  # log up to the failure too
    differential(
        base_spec(3, [("d", 0, 1), ("d", 1, 2)], ops=[("unlink", 1, 0)]),
        PLAIN,
        t("one-ended-b"),
    )
    # three ends: the third one lists the link but draws nothing
    differential(
        base_spec(3, [("d", 0, 1), ("u", 1, 0)], ops=[("third", 0, 2), ("third", 1, 2)]),
        PLAIN,
        t("three-ended"),
    )
    # a link without v1/v2 at all
    spec = base_spec(3, [("d", 0, 1)], ops=[("hyper", [1, 2])])
    nsx = build(spec)
    check(
        outcome(lambda: egpyvis.make_pyvis_net(nsx.uni))[:2]
        == ("exc", AttributeError),
        t("hyperlink raises AttributeError"),
    )
    differential(spec, PLAIN, t("hyper"))

    # --- universes as vertices
    differential(
        base_spec(2, [("d", 0, 1)], ops=[("nest", True)]), PLAIN, t("self-member")
    )
    outer = Universe()
    inner1, inner2 = Universe(), Universe()
    a = Vertex(universes=[inner1])
    outer.add_vertex(inner1)
    outer.add_vertex(inner2)
    explicit.link_directed(inner1, inner2)
    explicit.link_undirected(inner2, a)
    net = egpyvis.make_pyvis_net(outer, rvfunc=lambda v: type(v).__name__)
    check(net.get_nodes() == [0, 1], t("nested nodes"))
    check(
        [list(e.items()) for e in net.get_edges()]
        == [[("from", 0), ("to", 1), ("arrows", "to")]],
        t("nested edges"),
    )
    net = egpyvis.make_pyvis_net(inner1)
    check(net.get_nodes() == [0] and net.get_edges() == [], t("nested inner"))

    # --- a vertex that is a member of two universes
    u1, u2 = Universe(), Universe()
    p, q, r = Vertex(universes=[u1, u2]), Vertex(universes=[u1]), Vertex(universes=[u2])
    explicit.link_directed(p, q)
    explicit.link_directed(r, p)
    explicit.link_undirected(q, r)
    n1 = egpyvis.make_pyvis_net(u1, refunc=lambda e: "x")
    n2 = egpyvis.make_pyvis_net(u2, refunc=lambda e: "x")
    check(
        [list(e.items()) for e in n1.get_edges()]
        == [[("title", "x"), ("from", 0), ("to", 1), ("arrows", "to")]],
        t("two universes: u1"),
    )
    check(
        [list(e.items()) for e in n2.get_edges()]
        == [[("title", "x"), ("from", 1), ("to", 0), ("arrows", "to")]],
        t("two universes: u2"),
    )

    # --- callback quirks
    tri = base_spec(
        4,
        [("d", 0, 1), ("u", 1, 2), ("d", 2, 0), ("d", 0, 3), ("u", 3, 3), ("d", 3, 1)],
        member=[1, 1, 1, 1],
    )
    # falsy labels fall back to the node id inside pyvis
    for val in ("", None, 0):
        differential(tri, {"rv": {"plan": {1: ("ret", val)}}, "re": {}}, t("falsy-label"))
    # non-string answers are passed through untouched
    differential(tri, {"rv": {"style": "raw"}, "re": {"style": "raw"}}, t("raw"))
    # callables that are false count as "not given"
    net = differential(tri, {"rv": {"truth": False}, "re": {"truth": False}}, t("false-cb"))
    check(all("title" not in e for e in net.get_edges()), t("false refunc unused"))
    differential(tri, {"rv": {"truth": False}}, t("false-rv"))
    differential(tri, {"re": {"truth": False}}, t("false-re"))
    # one callable for both jobs
    differential(tri, {"rv": {}, "same": True}, t("same-cb"))
    # exceptions from rvfunc at every position
    for k in range(4):
        for exc in (Boom, AssertionError, IndexError, ValueError):
            differential(tri, {"rv": {"plan": {k: exc}}, "re": {}}, t(f"rv-raises-{k}"))
    # exceptions from refunc at every position; AssertionError is swallowed
    for k in range(6):
        differential(tri, {"rv": {}, "re": {"plan": {k: Boom}}}, t(f"re-raises-{k}"))
        differential(tri, {"re": {"plan": {k: AttributeError}}}, t(f"re-raisesA-{k}"))
        net = differential(
            tri, {"rv": {}, "re": {"plan": {k: AssertionError}}}, t(f"re-assert-{k}")
        )
        check(net is not None and len(net.get_edges()) == 5, t(f"re-assert-{k} skipped one"))

    # only AssertionError proper (and subclasses) is swallowed: a group of
    # them, or a BaseException, goes through to the caller
    def group():
        return ExceptionGroup("g", [AssertionError("a"), AssertionError("b")])

    def basegroup():
        return BaseExceptionGroup("g", [AssertionError("a")])

    for k in range(6):
        for factory in (group, basegroup, KeyboardInterrupt, SystemExit, GeneratorExit):
            nsx = build(tri)
            rf = Renderer(nsx, [], "e", plan={k: ("raise", factory)})
            res = outcome(lambda: egpyvis.make_pyvis_net(nsx.uni, None, rf))
            check(
                res == ("exc", type(factory())),
                t(f"re-raises-{factory.__name__}-{k}: {res}"),
            )
            check(rf.calls == k + 1, t("refunc calls before propagating"))
            differential(
                tri, {"re": {"plan": {k: ("raise", factory)}}}, t(f"re-grp-{k}")
            )
            differential(
                tri, {"rv": {"plan": {k % 4: ("raise", factory)}}, "re": {}}, t(f"rv-grp-{k}")
            )

    class SubAssert(AssertionError):
        pass

    net = differential(tri, {"re": {"plan": {5: SubAssert}}}, t("re-subassert"))
    # the edge turned down last still decided the flag: link 5 is directed
    check(net.directed is True, t("flag set before the edge is turned down"))
    net = differential(
        base_spec(2, [("d", 0, 1), ("u", 0, 1)]),
        {"re": {"plan": {1: AssertionError}}},
        t("flag-u-dropped"),
    )
    check(net.directed is False, t("flag after dropped undirected"))
    net = differential(
        base_spec(2, [("u", 0, 1), ("u", 0, 1)]),
        {"re": {"plan": {0: AssertionError}}},
        t("first-dropped-second-kept"),
    )
    check(
        [e["title"] for e in net.get_edges()] == ["e:1"],
        t("second parallel undirected survives when first dropped"),
    )

    # --- callbacks that modify the graph while it is being exported
    for k in range(3):
        differential(
            tri,
            {"rv": {"plan": {k: ("mut", ("newvert",))}}, "re": {}},
            t(f"rv-adds-vertex-{k}"),
        )
        differential(
            tri,
            {"rv": {"plan": {k: ("mut", ("leave", 3))}}, "re": {}},
            t(f"rv-removes-member-{k}"),
        )
        differential(
            tri,
            {"rv": {"plan": {k: ("mut", ("newlink", "d", 3, 0))}}, "re": {}},
            t(f"rv-adds-link-{k}"),
        )
    for k in range(5):
        for a, b in ((0, 1), (3, 2), (2, 3), (1, 1), (3, 3)):
            differential(
                tri,
                {"rv": {}, "re": {"plan": {k: ("mut", ("newlink", "d", a, b))}}},
                t(f"re-adds-link-{k}-{a}{b}"),
            )
            differential(
                tri,
                {"re": {"plan": {k: ("mut", ("newlink", "u", a, b))}}},
                t(f"re-adds-ulink-{k}-{a}{b}"),
            )
        differential(
            tri,
            {"re": {"plan": {k: ("mut", ("unlinkall", 3))}}},
            t(f"re-unlinks-{k}"),
        )
        differential(
            tri,
            {"re": {"plan": {k: ("mut", ("leave", 3))}}},
            t(f"re-removes-member-{k}"),
        )

    # --- network_kwargs
    differential(tri, {"rv": {}, "re": {}, "kwargs": {}}, t("kwargs-empty"))
    net = differential(
        base_spec(2, []), {"kwargs": {"directed": True}}, t("kwargs-directed-noedge")
    )
    check(net.directed is True, t("directed=True kept without edges"))
    net = differential(
        base_spec(2, [("u", 0, 1)]), {"kwargs": {"directed": True}}, t("kwargs-directed-u")
    )
    check(net.directed is False and "arrows" not in net.get_edges()[0], t("u in directed net"))
    net = differential(
        base_spec(3, [("u", 0, 2)], member=[1, 1, 0]),
        {"kwargs": {"directed": True}},
        t("kwargs-directed-outsider"),
    )
    check(net.directed is True, t("outsider link does not touch the flag"))
    net = differential(
        tri,
        {"rv": {}, "kwargs": {"cdn_resources": "remote", "height": "300px"}},
        t("kwargs-pass"),
    )
    check(net.cdn_resources == "remote" and net.height == "300px", t("kwargs used"))
    ns = build(tri)
    net = egpyvis.make_pyvis_net(ns.uni, network_kwargs={"font_color": "red"})
    check(net.get_node(0)["font"] == {"color": "red"}, t("font colour on nodes"))
    net = egpyvis.make_pyvis_net(ns.uni)
    check(net.cdn_resources == "local", t("default cdn_resources"))
    net = egpyvis.make_pyvis_net(ns.uni, None, None, None)
    check(net.cdn_resources == "local", t("positional Nones"))
    check(
        outcome(lambda: egpyvis.make_pyvis_net(ns.uni, network_kwargs={"nonsense": 1}))[:2]
        == ("exc", TypeError),
        t("bad network kwarg"),
    )
    check(
        outcome(lambda: egpyvis.make_pyvis_net(None))[:2] == ("exc", AttributeError),
        t("None universe"),
    )
    check(
        outcome(lambda: egpyvis.make_pyvis_net(ns.uni, rvfunc=5))[:2]
        == ("exc", TypeError),
        t("uncallable rvfunc"),
    )
    # a new network every time
    check(
        egpyvis.make_pyvis_net(ns.uni) is not egpyvis.make_pyvis_net(ns.uni),
        t("fresh network per call"),
    )

    # --- universe subclasses with a vertices attribute of another shape
    class TupleUni(Universe):
        @property
        def vertices(self):
            return tuple(super().vertices)

    class GenUni(Universe):
        reads = 0

        @property
        def vertices(self):
            GenUni.reads += 1
            return iter(super().vertices)

    for cls in (TupleUni, GenUni):
        u = cls()
        vs = [Vertex(universes=[u], attributes={"i": k}) for k in range(3)]
        explicit.link_directed(vs[0], vs[1])
        explicit.link_undirected(vs[2], vs[1])
        net = egpyvis.make_pyvis_net(u, rvfunc=lambda v: str(v.i), refunc=lambda e: "t")
        check(
            [list(e.items()) for e in net.get_edges()]
            == [
                [("title", "t"), ("from", 0), ("to", 1), ("arrows", "to")],
                [("title", "t"), ("from", 2), ("to", 1)],
            ],
            t(f"{cls.__name__} edges"),
        )
        check([n["label"] for n in net.nodes] == ["0", "1", "2"], t(f"{cls.__name__} nodes"))
    check(GenUni.reads == 1, t("vertices read exactly once"))

    # a vertices attribute repeating a member (reachable by subclassing only):
    # nodes are numbered by position; an edge starts at the position being
    # visited and ends at the last position of its far end
    class DupUni(Universe):
        @property
        def vertices(self):
            base = super().vertices
            return base + base[:1]

    u = DupUni()
    vs = [Vertex(universes=[u], attributes={"i": k}) for k in range(2)]
    explicit.link_directed(vs[0], vs[1])
    explicit.link_directed(vs[1], vs[0])
    log = []
    net = egpyvis.make_pyvis_net(u, rvfunc=lambda v: log.append(v.i) or str(v.i))
    check(log == [0, 1, 0], t("dup: rvfunc calls"))
    check(net.get_nodes() == [0, 1, 2], t("dup: nodes"))
    check(
        [(e["from"], e["to"]) for e in net.get_edges()] == [(0, 1), (1, 2), (2, 1)],
        t("dup: edges"),
    )

    # --- the customizable flavour
    ns = build(tri)
    log1, log2 = [], []
    plain = egpyvis.make_pyvis_net(
        ns.uni, Renderer(ns, log1, "v"), Renderer(ns, log1, "e")
    )
    for filt in (None, True, False, [], 0, "", (), ["physics"], ["nodes", "edges"]):
        del log2[:]
        cust = egpyvis.pyvis_render_customizable(
            ns.uni, Renderer(ns, log2, "v"), Renderer(ns, log2, "e"), filt
        )
        check(log1 == log2, t("customizable: same callback traffic"))
        check(net_view(cust) == net_view(plain), t("customizable: same network"))
        check(cust.conf is True and not plain.conf, t("customizable: conf"))
        check(cust.widget is True, t("customizable: widget"))
        conf = cust.options.configure
        check(conf.enabled is True, t("customizable: enabled"))
        check(vars(conf) == vars(_conf(filt)), t(f"filter {filt!r}"))
    cust = egpyvis.pyvis_render_customizable(ns.uni, show_buttons_filter=["layout"])
    check(vars(cust.options.configure) == vars(_conf(["layout"])), t("filter kw"))
    cust = egpyvis.pyvis_render_customizable(ns.uni)
    check(cust.cdn_resources == "local", t("customizable: default kwargs"))
    check(
        outcome(lambda: egpyvis.pyvis_render_customizable(ns.uni, rvfunc=Renderer(ns, [], "v", plan={2: Boom})))[:2]
        == ("exc", Boom),
        t("customizable: rvfunc raising"),
    )

    # --- pickling round trip: the copy exports to the same picture
    ns = build(tri)
    blob = pickle.dumps((ns.uni, ns.verts, ns.links))
    uni2, verts2, links2 = pickle.loads(blob)
    rvf = lambda v: f"n{v.i}"  # noqa: E731
    ref = lambda e: f"{e.v1.i}>{e.v2.i}"  # noqa: E731
    one = egpyvis.make_pyvis_net(ns.uni, rvf, ref)
    two = egpyvis.make_pyvis_net(uni2, rvf, ref)
    check(net_view(one) == net_view(two), t("pickle: same export"))
    want = oracle(uni2, rvf, ref)
    check(oracle_view(want) == net_view(two), t("pickle: oracle"))
    three = pickle.loads(pickle.dumps(two))
    check(net_view(three) == net_view(two), t("pickle: network itself"))

    # --- the shapes from the library's own fixtures: helpers.neighbors agrees
    ns = build(
        base_spec(
            5,
            [("d", 0, 1), ("d", 1, 2), ("u", 2, 3), ("d", 3, 0), ("u", 4, 0), ("d", 4, 4)],
        )
    )
    net = egpyvis.make_pyvis_net(ns.uni, lambda v: str(v.i), lambda e: f"{e.v1.i}>{e.v2.i}")
    for e in net.get_edges():
        a, b = ns.verts[int(e["title"][0])], ns.verts[int(e["title"][2])]
        check(any(b is x for x in helpers.neighbors(a)), t("edge is a neighbor relation"))
        check((e["from"], e["to"]) == (a.i, b.i), t("edge ends match title"))
    stats = Vertex.total_cache_stats()
    egpyvis.make_pyvis_net(ns.uni)
    check(stats == Vertex.total_cache_stats(), t("export leaves the neighbor cache alone"))


def _conf(filt):
    from pyvis.options import Configure  # what show_buttons is documented to build

    return Configure(enabled=True, filter_=filt)


# --------------------------------------------------------------------------
# random differential part
# --------------------------------------------------------------------------


def random_spec(rng):
    n = rng.choice([0, 1, 1, 2, 2, 3, 3, 4, 5, 6, 7])
    member = [rng.random() < 0.78 for _ in range(n)]
    sub = [rng.random() < 0.2 for _ in range(n)]
    links = []
    if n:
        for _ in range(rng.choice([0, 1, 2, 3, 5, 8, 12])):
            kind = rng.choice(["d", "d", "u", "u", "t", "sd", "su"])
            a = rng.randrange(n)
            b = rng.randrange(n) if rng.random() < 0.85 else a
            if rng.random() < 0.03:
                a = None
            elif rng.random() < 0.03:
                b = None
            links.append((kind, a, b))
    order = list(range(n))
    rng.shuffle(order)
    ops = []
    if n and links:
        for _ in range(rng.choice([0, 0, 0, 1, 2, 3])):
            r = rng.random()
            li = rng.randrange(len(links))
            if links[li][1] is None or links[li][2] is None:
                continue
            if r < 0.3:
                ops.append(("setv1", li, rng.randrange(n)))
            elif r < 0.6:
                ops.append(("setv2", li, rng.randrange(n)))
            elif r < 0.68:
                ops.append(("unlink", li, rng.randrange(2)))
            elif r < 0.76:
                ops.append(("third", li, rng.randrange(n)))
            elif r < 0.88:
                ops.append(("leave", rng.randrange(n)))
            elif r < 0.97:
                ops.append(("join", rng.randrange(n)))
            else:
                ops.append(("hyper", [rng.randrange(n), rng.randrange(n)]))
    if rng.random() < 0.04:
        ops.append(("nest", rng.random() < 0.5))
    return base_spec(n, links, member, sub, ops, order)


def random_mode(rng):
    r = rng.random()
    mode = {}
    if r < 0.15:
        return mode
    if rng.random() < 0.8:
        mode["rv"] = {}
        if rng.random() < 0.12:
            mode["rv"]["plan"] = {
                rng.randrange(6): rng.choice(
                    [Boom, AssertionError, ("ret", ""), ("ret", None),
                     ("mut", ("newvert",)), ("mut", ("leave", rng.randrange(8))),
                     ("mut", ("newlink", "d", rng.randrange(8), rng.randrange(8)))]
                )
            }
        if rng.random() < 0.08:
            mode["rv"]["truth"] = False
        if rng.random() < 0.1:
            mode["rv"]["style"] = "raw"
    if rng.random() < 0.8:
        mode["re"] = {}
        plan = {}
        for _ in range(rng.choice([0, 0, 0, 1, 1, 2, 4])):
            plan[rng.randrange(10)] = rng.choice(
                [Boom, AssertionError, AssertionError, AssertionError, ("ret", ""),
                 ("mut", ("newlink", rng.choice(["d", "u"]), rng.randrange(8), rng.randrange(8))),
                 ("mut", ("unlinkall", rng.randrange(8))),
                 ("mut", ("leave", rng.randrange(8))),
                 ("mut", ("newvert",))]
            )
        if plan:
            mode["re"]["plan"] = plan
        if rng.random() < 0.08:
            mode["re"]["truth"] = False
    elif "rv" in mode and rng.random() < 0.3:
        mode["same"] = True
    if rng.random() < 0.15:
        mode["kwargs"] = rng.choice(
            [{}, {"directed": True}, {"directed": False}, {"cdn_resources": "in_line"},
             {"directed": True, "notebook": False}]
        )
    return mode


def randomized(tag0, seed, count):
    rng = random.Random(seed)
    for k in range(count):
        spec = random_spec(rng)
        mode = random_mode(rng)
        # mutating plans need at least one vertex to pick from
        if spec["n"] == 0:
            for r in ("rv", "re"):
                if r in mode and mode[r].get("plan"):
                    mode[r]["plan"] = {
                        i: a for i, a in mode[r]["plan"].items()
                        if not (isinstance(a, tuple) and a[0] == "mut" and a[1][0] != "newvert")
                    }
        differential(spec, mode, f"{tag0}/rnd{k}")


# --------------------------------------------------------------------------


def main():
    previous = Vertex.NEIGHBOR_CACHING
    try:
        for caching in (False, True):
            Vertex.NEIGHBOR_CACHING = caching
            tag = "cache" if caching else "nocache"
            scripted(tag)
            randomized(tag, SEED + caching, N_RANDOM)
    finally:
        Vertex.NEIGHBOR_CACHING = previous

    print(f"{CHECKS[0]} checks, {len(FAILS)} failures")
    return 1 if FAILS else 0


if __name__ == "__main__":
    sys.exit(main())
