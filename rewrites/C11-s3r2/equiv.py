#!/usr/bin/python3
# -*- coding: utf-8 -*-
"""
Equivalence / conformance driver for property C11:

  "Adjacency builders build exactly the described graph; bad input rejected
   whole"

Only the public API of edgegraph is used.  The program exits 0 when every
check holds, non-zero (with a message) otherwise.

Layout
------
* an independent ORACLE (``Model``) written from the property statement: it
  knows nothing about edgegraph and only manipulates names and tuples;
* scripted corner cases (aliasing, generators, callbacks that raise, odd cell
  values, traced containers, subclasses with ``__slots__``, None, rejected
  shapes, caching on/off, deepcopy / pickle followed by further building,
  worker threads, warnings turned into errors, random module untouched);
* a seeded random differential part: random pre-existing graphs, random
  adjacency dictionaries / matrices, every result compared with the oracle.
"""

from __future__ import annotations

import copy
import itertools
import pickle
import random
import sys
import threading
import warnings

from edgegraph.structure import (
    Vertex,
    Universe,
    DirectedEdge,
    UnDirectedEdge,
    TwoEndedLink,
)
from edgegraph.builder import adjlist, adjmatrix, explicit
from edgegraph.traversal import helpers

warnings.simplefilter("error")

CHECKS = 0


def check(cond, msg):
    global CHECKS
    CHECKS += 1
    if not cond:
        raise AssertionError(msg)


def same_seq(got, want, msg):
    """Sequences equal element-wise BY IDENTITY."""
    got = list(got)
    want = list(want)
    check(
        len(got) == len(want) and all(a is b for a, b in zip(got, want)),
        f"{msg}: got {got!r}, want {want!r}",
    )


def ends_are(links, want, msg):
    """The links' end tuples are ``want`` (ends compared BY IDENTITY)."""
    got = [x.vertices for x in links]
    check(
        len(got) == len(want)
        and all(
            len(g) == len(w) and all(p is q for p, q in zip(g, w))
            for g, w in zip(got, want)
        ),
        f"{msg}: got {got!r}, want {want!r}",
    )


###############################################################################
# the oracle


class Model:
    """
    Pure model of a graph: vertices are integers, links are (id, a, b,
    directed) tuples; per-vertex link lists and per-vertex universe lists are
    kept in the order the statement demands.
    """

    def __init__(self, n):
        self.n = n
        self.links = []  # (a, b, directed)
        self.vlinks = {i: [] for i in range(n)}  # vertex -> [link index]
        self.vunis = {i: [] for i in range(n)}  # vertex -> [universe name]
        self.unis = {}  # universe name -> [vertex]

    def new_universe(self, name):
        self.unis[name] = []

    def enrol(self, v, name):
        if name not in self.vunis[v]:
            self.vunis[v].append(name)
        if v not in self.unis[name]:
            self.unis[name].append(v)

    def link(self, a, b, directed):
        idx = len(self.links)
        self.links.append((a, b, directed))
        self.vlinks[a].append(idx)
        if b != a:
            self.vlinks[b].append(idx)
        return idx

    def other(self, idx, v):
        a, b, _ = self.links[idx]
        if v == a:
            return b
        if v == b:
            return a
        return None

    def neighbors(self, v, mode):
        out = []
        for idx in self.vlinks[v]:
            a, b, directed = self.links[idx]
            o = self.other(idx, v)
            if mode == "any" or not directed:
                out.append(o)
            elif mode == "fwd" and a == v:
                out.append(o)
            elif mode == "bwd" and b == v:
                out.append(o)
        return out

    def find_links(self, v, w, sensitive):
        out = set()
        for idx in self.vlinks[v]:
            a, b, directed = self.links[idx]
            if self.other(idx, v) != w:
                continue
            if sensitive and directed and a != v:
                continue
            out.add(idx)
        return out

    # the two builders, straight from the statement ---------------------------
    def load_adj_dict(self, name, adj, directed):
        """adj: list of (key, [values]) in input order."""
        self.new_universe(name)
        created = []
        for k, vals in adj:
            self.enrol(k, name)
            for w in vals:
                created.append(self.link(k, w, directed))
                self.enrol(w, name)
        return created

    def load_adj_matrix(self, name, mat, side, directed):
        n = len(mat)
        if len(side) != n or any(len(r) != n for r in mat):
            raise ValueError
        self.new_universe(name)
        for v in side:
            self.enrol(v, name)
        created = []
        for i, row in enumerate(mat):
            for j, cell in enumerate(row):
                if cell:
                    created.append(self.link(side[i], side[j], directed))
        return created


###############################################################################
# comparing a real graph with the model


class DE2(DirectedEdge):
    """A user subclass of DirectedEdge carrying an extra attribute."""

    def __init__(self, v1=None, v2=None, **kw):
        super().__init__(v1, v2, **kw)
        self.note = "de2"


class UE2(UnDirectedEdge):
    __slots__ = ()


class SlotVertex(Vertex):
    __slots__ = ("extra",)


class NamedVertex(Vertex):
    def __repr__(self):
        return f"<NV {getattr(self, 'name', '?')}>"


def compare(model, verts, reallinks, realunis, tag):
    """
    :param verts: list of real vertices, index = model vertex
    :param reallinks: list of real links, index = model link
    :param realunis: dict name -> real universe
    """
    for name, uni in realunis.items():
        same_seq(
            uni.vertices,
            [verts[i] for i in model.unis[name]],
            f"{tag}: universe {name} members",
        )
    for i, v in enumerate(verts):
        same_seq(
            v.links,
            [reallinks[k] for k in model.vlinks[i]],
            f"{tag}: links of vertex {i}",
        )
        same_seq(
            v.universes,
            [realunis[nm] for nm in model.vunis[i]],
            f"{tag}: universes of vertex {i}",
        )
        for mode, flag in (
            ("fwd", helpers.DIR_SENS_FORWARD),
            ("any", helpers.DIR_SENS_ANY),
            ("bwd", helpers.DIR_SENS_BACKWARD),
        ):
            want = [
                None if o is None else verts[o]
                for o in model.neighbors(i, mode)
            ]
            # twice: the second answer may come from the cache
            same_seq(
                helpers.neighbors(v, direction_sensitive=flag),
                want,
                f"{tag}: neighbors({i},{mode})",
            )
            same_seq(
                helpers.neighbors(v, direction_sensitive=flag),
                want,
                f"{tag}: neighbors({i},{mode}) again",
            )
    for k, (a, b, directed) in enumerate(model.links):
        lnk = reallinks[k]
        same_seq(lnk.vertices, [verts[a], verts[b]], f"{tag}: ends of link {k}")
        check(
            isinstance(lnk, DirectedEdge if directed else UnDirectedEdge),
            f"{tag}: class of link {k}",
        )
    n = len(verts)
    pairs = (
        itertools.product(range(n), repeat=2)
        if n <= 7
        else [(random.randrange(n), random.randrange(n)) for _ in range(40)]
    )
    for i, j in pairs:
        for sens in (True, False):
            got = helpers.find_links(
                verts[i], verts[j], direction_sensitive=sens
            )
            want = {id(reallinks[k]) for k in model.find_links(i, j, sens)}
            check(
                {id(x) for x in got} == want and len(got) == len(want),
                f"{tag}: find_links({i},{j},{sens})",
            )


def new_links_in_creation_order(verts, before):
    """
    Recover the links created by a builder call, in creation order, using
    only Vertex.links: a link created later is appended later to the link
    list of its first end.  Creation order overall is recovered by the
    caller through the model; here we just return per-vertex new suffixes.
    """
    out = {}
    for i, v in enumerate(verts):
        old = before[i]
        cur = v.links
        same_seq(cur[: len(old)], old, f"old links of vertex {i} kept in place")
        out[i] = list(cur[len(old) :])
    return out


def adopt_created(model, created, verts, before, reallinks, tag):
    """
    Match the model's newly created links (indices ``created``, in creation
    order) with real link objects found at the tail of Vertex.links.
    """
    suffix = new_links_in_creation_order(verts, before)
    cursor = {i: 0 for i in suffix}
    seen = set()
    for k in created:
        a, b, _ = model.links[k]
        check(cursor[a] < len(suffix[a]), f"{tag}: missing link {k} on {a}")
        # the next unseen link in a's suffix whose first end is a
        while cursor[a] < len(suffix[a]) and (
            id(suffix[a][cursor[a]]) in seen
            or suffix[a][cursor[a]].vertices[0] is not verts[a]
        ):
            cursor[a] += 1
        check(cursor[a] < len(suffix[a]), f"{tag}: missing link {k} on {a}")
        lnk = suffix[a][cursor[a]]
        cursor[a] += 1
        seen.add(id(lnk))
        assert len(reallinks) == k
        reallinks.append(lnk)
    total = {id(x) for i in suffix for x in suffix[i]}
    check(total == seen, f"{tag}: exactly one new link per pair")


###############################################################################
# scripted cases


class Boom(BaseException):
    """Not a subclass of Exception."""


def mkverts(n, cls=Vertex):
    out = []
    for i in range(n):
        v = cls()
        v.name = i
        out.append(v)
    return out


def scripted_adjdict_doc_example():
    v = mkverts(6)
    adj = {
        v[0]: [v[1], v[2], v[3]],
        v[1]: (v[2], v[3], v[4]),
        v[2]: iter([v[3], v[4], v[5]]),
        v[3]: [v[3]],
        v[5]: [],
    }
    uni = adjlist.load_adj_dict(adj)
    check(type(uni) is Universe, "adjdict returns a Universe")
    same_seq(uni.vertices, v, "doc example: first-mention order")
    m = Model(6)
    created = m.load_adj_dict(
        "u",
        [(0, [1, 2, 3]), (1, [2, 3, 4]), (2, [3, 4, 5]), (3, [3]), (5, [])],
        False,
    )
    real = []
    adopt_created(m, created, v, {i: () for i in range(6)}, real, "doc")
    compare(m, v, real, {"u": uni}, "doc adjdict")
    check(len(real) == 10, "doc example has ten links")
    check(all(type(x) is UnDirectedEdge for x in real), "default link type")


def scripted_adjdict_empty_and_order():
    uni = adjlist.load_adj_dict({})
    check(type(uni) is Universe and uni.vertices == [], "empty dict")
    check(uni.links == () and uni.universes == [], "empty universe is bare")
    uni2 = adjlist.load_adj_dict({}, DirectedEdge)
    check(uni2 is not uni and uni2.uid != uni.uid, "a NEW universe each call")

    # value mentioned before it appears as a key; repeated values
    v = mkverts(4)
    adj = {v[2]: [v[0], v[0], v[3]], v[0]: [v[2]], v[1]: ()}
    uni = adjlist.load_adj_dict(adj, DirectedEdge)
    same_seq(uni.vertices, [v[2], v[0], v[3], v[1]], "first mention order")
    same_seq([x.vertices[1] for x in v[2].links[:3]], [v[0], v[0], v[3]], "dst")
    check(len(v[0].links) == 3, "v0: two incoming + one outgoing")
    check(v[0].links[0] is v[2].links[0], "shared link object")
    check(v[0].links[1] is v[2].links[1], "shared link object 2")
    check(v[0].links[0] is not v[0].links[1], "repeated value -> two links")
    same_seq(helpers.neighbors(v[2]), [v[0], v[0], v[3]], "nb with repeats")
    same_seq(helpers.neighbors(v[0]), [v[2]], "nb v0")
    check(v[2].links[3] is v[0].links[2], "back link is appended last")


def scripted_adjdict_preexisting():
    v = mkverts(3)
    olduni = Universe()
    v[0].add_to_universe(olduni)
    v[1].add_to_universe(olduni)
    old = explicit.link_directed(v[0], v[1])
    uni = adjlist.load_adj_dict({v[0]: [v[1]], v[1]: [v[0], v[2]]}, DirectedEdge)
    same_seq(v[0].universes, [olduni, uni], "old universe kept first")
    same_seq(v[2].universes, [uni], "fresh vertex")
    same_seq(olduni.vertices, [v[0], v[1]], "old universe untouched")
    check(v[0].links[0] is old and v[1].links[0] is old, "old link in place")
    check(len(v[0].links) == 3 and len(v[1].links) == 4, "another link made")
    check(v[0].links[1] is not old, "a new link, not the old one")
    same_seq(v[0].links[1].vertices, [v[0], v[1]], "orientation")
    same_seq(v[1].links[2].vertices, [v[1], v[0]], "orientation 2")
    check(uni not in olduni.vertices and olduni not in uni.vertices, "unis")
    check(len(helpers.find_links(v[0], v[1])) == 2, "two forward links now")


class LogVertex(Vertex):
    """Vertex whose add_to_universe is observable."""

    LOG = []

    def add_to_universe(self, universe):
        LogVertex.LOG.append(("add", self.name, len(universe.vertices)))
        super().add_to_universe(universe)


class LogLink(DirectedEdge):
    """Link type whose construction is observable, optionally failing."""

    FAIL_AT = None
    EXC = None
    COUNT = 0

    def __init__(self, v1=None, v2=None, **kw):
        LogLink.COUNT += 1
        LogVertex.LOG.append(
            ("link", getattr(v1, "name", v1), getattr(v2, "name", v2))
        )
        if LogLink.FAIL_AT is not None and LogLink.COUNT == LogLink.FAIL_AT:
            raise LogLink.EXC
        super().__init__(v1, v2, **kw)


def reset_log(fail_at=None, exc=None):
    LogVertex.LOG.clear()
    LogLink.COUNT = 0
    LogLink.FAIL_AT = fail_at
    LogLink.EXC = exc


class ItemsOnly:
    """Not a dict: just something with .items() (a one-shot generator)."""

    def __init__(self, pairs):
        self.pairs = pairs
        self.calls = 0

    def items(self):
        self.calls += 1
        LogVertex.LOG.append(("items",))
        for k, vals in self.pairs:
            LogVertex.LOG.append(("yield", getattr(k, "name", None)))
            yield k, vals


def scripted_adjdict_trace():
    v = mkverts(4, LogVertex)

    def gen(seq, tag):
        for x in seq:
            LogVertex.LOG.append(("gen", tag, x.name))
            yield x

    reset_log()
    src = ItemsOnly(
        [(v[0], gen([v[1], v[0], v[1]], "a")), (v[3], gen([], "b")),
         (v[1], gen([v[2]], "c"))]
    )
    uni = adjlist.load_adj_dict(src, LogLink)
    want = [
        ("items",),
        ("yield", 0),
        ("add", 0, 0),
        ("gen", "a", 1), ("link", 0, 1), ("add", 1, 1),
        ("gen", "a", 0), ("link", 0, 0), ("add", 0, 2),
        ("gen", "a", 1), ("link", 0, 1), ("add", 1, 2),
        ("yield", 3),
        ("add", 3, 2),
        ("yield", 1),
        ("add", 1, 3),
        ("gen", "c", 2), ("link", 1, 2), ("add", 2, 3),
    ]
    check(LogVertex.LOG == want, f"adjdict trace: {LogVertex.LOG}")
    check(src.calls == 1, "items() called once")
    same_seq(uni.vertices, [v[0], v[1], v[3], v[2]], "trace: members")
    check(len(v[0].links) == 3, "self loop listed once on its vertex")
    same_seq(v[0].links[1].vertices, [v[0], v[0]], "self loop ends")
    same_seq(helpers.neighbors(v[0]), [v[1], v[0], v[1]], "trace nb")


def scripted_adjdict_failures():
    # 1. the value iterable raises part-way (a BaseException)
    v = mkverts(4, LogVertex)

    def bad():
        yield v[1]
        yield v[2]
        raise Boom("mid")

    reset_log()
    try:
        adjlist.load_adj_dict({v[0]: bad(), v[3]: [v[0]]}, LogLink)
    except Boom as exc:
        check(exc.args == ("mid",), "the very exception object")
    else:
        check(False, "Boom expected")
    check(
        LogVertex.LOG
        == [("add", 0, 0), ("link", 0, 1), ("add", 1, 1), ("link", 0, 2),
            ("add", 2, 2)],
        f"state at failure: {LogVertex.LOG}",
    )
    check(len(v[0].links) == 2 and v[3].links == (), "links made so far stay")
    check(v[3].universes == [], "later key never reached")
    half = v[0].universes[0]
    same_seq(half.vertices, [v[0], v[1], v[2]], "half-built universe")

    # 2. the link type raises on its 2nd call; KeyboardInterrupt goes through
    for exc in (KeyboardInterrupt("k"), ZeroDivisionError("z"), Boom("b")):
        v = mkverts(3, LogVertex)
        reset_log(fail_at=2, exc=exc)
        try:
            adjlist.load_adj_dict({v[0]: [v[1], v[2], v[2]]}, LogLink)
        except BaseException as got:  # pylint: disable=broad-except
            check(got is exc, "same exception object propagates")
        else:
            check(False, "exception expected")
        check(
            LogVertex.LOG
            == [("add", 0, 0), ("link", 0, 1), ("add", 1, 1), ("link", 0, 2)],
            f"log at link failure: {LogVertex.LOG}",
        )
        check(len(v[0].links) == 1 and v[2].links == (), "no half link")
        check(v[2].universes == [], "value not enrolled after failed link")
    reset_log()

    # 3. add_to_universe of a value raises
    class Refuser(Vertex):
        def add_to_universe(self, universe):
            raise Boom("refused")

    a, r = Vertex(), Refuser()
    try:
        adjlist.load_adj_dict({a: [r, a]})
    except Boom:
        pass
    else:
        check(False, "Boom expected from add_to_universe")
    check(len(a.links) == 1 and a.links[0] is r.links[0], "link precedes add")
    check(len(a.universes) == 1 and r.universes == [], "key added, value not")

    # 4. a key that is no vertex; a value that is no vertex; None as value
    a = Vertex()
    try:
        adjlist.load_adj_dict({a: [], 5: [a]})
    except AttributeError:
        pass
    else:
        check(False, "AttributeError expected for int key")
    check(len(a.universes) == 1 and a.links == (), "first key was processed")

    a = Vertex()
    try:
        adjlist.load_adj_dict({a: ["x"]})
    except TypeError:
        pass
    else:
        check(False, "TypeError expected for str value")
    check(a.links == () and len(a.universes) == 1, "no link to a str")

    a = Vertex()
    try:
        adjlist.load_adj_dict({a: [None]})
    except AttributeError:
        pass
    else:
        check(False, "AttributeError expected for None value")
    check(len(a.links) == 1 and a.links[0].vertices == (a, None), "None end")

    # 5. values that cannot be iterated / items that cannot be unpacked
    a = Vertex()
    try:
        adjlist.load_adj_dict({a: 7})
    except TypeError:
        pass
    else:
        check(False, "TypeError expected for int values")
    check(len(a.universes) == 1, "key enrolled before its values are read")

    class BadItems:
        def items(self):
            return [(a,)]

    try:
        adjlist.load_adj_dict(BadItems())
    except ValueError:
        pass
    else:
        check(False, "ValueError expected: cannot unpack")

    try:
        adjlist.load_adj_dict([1, 2])
    except AttributeError:
        pass
    else:
        check(False, "AttributeError expected: list has no items()")

    # 6. StopIteration leaking out of user code must stay a StopIteration
    class StopIter:
        def __iter__(self):
            raise StopIteration("from __iter__")

    a = Vertex()
    try:
        adjlist.load_adj_dict({a: StopIter()})
    except StopIteration as exc:
        check(exc.args == ("from __iter__",), "StopIteration passes through")
    else:
        check(False, "StopIteration expected")

    class StopItems:
        def items(self):
            raise StopIteration("from items")

    try:
        adjlist.load_adj_dict(StopItems())
    except StopIteration as exc:
        check(exc.args == ("from items",), "StopIteration passes through 2")
    else:
        check(False, "StopIteration expected 2")

    class StopAdder(Vertex):
        def add_to_universe(self, universe):
            raise StopIteration("from add")

    s = StopAdder()
    for adj in ({s: []}, {Vertex(): [s]}):
        try:
            adjlist.load_adj_dict(adj)
        except StopIteration as exc:
            check(exc.args == ("from add",), "StopIteration passes through 3")
        else:
            check(False, "StopIteration expected 3")

    def stoplink(v1, v2):
        raise StopIteration("from linktype")

    a, b, c = Vertex(), Vertex(), Vertex()
    try:
        adjlist.load_adj_dict({a: [b, c]}, stoplink)
    except StopIteration as exc:
        check(exc.args == ("from linktype",), "StopIteration passes through 4")
    else:
        check(False, "StopIteration expected 4")
    check(b.universes == [] and c.universes == [], "stopped at first pair")


def scripted_linktype_is_any_callable():
    made = []

    def factory(v1, v2):
        made.append((v1, v2))
        return "whatever"  # return value is ignored by the builders

    v = mkverts(3)
    uni = adjlist.load_adj_dict({v[0]: [v[1], v[2]], v[2]: [v[2]]}, factory)
    check(made == [(v[0], v[1]), (v[0], v[2]), (v[2], v[2])], "factory calls")
    check(all(x.links == () for x in v), "no links made by a dummy factory")
    same_seq(uni.vertices, v, "members with a dummy factory")

    made.clear()
    uni = adjmatrix.load_adj_matrix([[1, 0], [1, 1]], v[:2], factory)
    check(made == [(v[0], v[0]), (v[1], v[0]), (v[1], v[1])], "matrix factory")
    same_seq(uni.vertices, v[:2], "matrix members with a dummy factory")

    # TwoEndedLink itself is a legal link type
    a, b = Vertex(), Vertex()
    adjlist.load_adj_dict({a: [b]}, TwoEndedLink)
    check(type(a.links[0]) is TwoEndedLink, "TwoEndedLink accepted")
    check(a.links[0].vertices == (a, b), "TwoEndedLink ends")


class Cell:
    """Matrix cell with an observable truth value."""

    def __init__(self, i, j, val):
        self.i, self.j, self.val = i, j, val

    def __bool__(self):
        LogVertex.LOG.append(("bool", self.i, self.j))
        if isinstance(self.val, BaseException):
            raise self.val
        return self.val


class Seq:
    """A sequence (not a list) whose every access is observable."""

    def __init__(self, tag, data, quiet=()):
        self.tag, self.data, self.quiet = tag, data, quiet

    def _log(self, *what):
        if what[0] not in self.quiet:
            LogVertex.LOG.append((self.tag,) + what)

    def __len__(self):
        self._log("len")
        return len(self.data)

    def __iter__(self):
        self._log("iter")
        return iter(self.data)

    def __getitem__(self, idx):
        self._log("get", idx)
        return self.data[idx]


def scripted_matrix_doc_example():
    v = mkverts(6)
    mat = [
        [0, 1, 1, 1, 0, 0],
        [0, 0, 1, 1, 1, 0],
        [0, 0, 0, 1, 1, 1],
        [0, 0, 0, 1, 0, 0],
        [0] * 6,
        [0] * 6,
    ]
    uni = adjmatrix.load_adj_matrix(mat, v)
    m = Model(6)
    created = m.load_adj_matrix("u", mat, list(range(6)), True)
    real = []
    adopt_created(m, created, v, {i: () for i in range(6)}, real, "mdoc")
    compare(m, v, real, {"u": uni}, "doc matrix")
    check(all(type(x) is DirectedEdge for x in real), "default is directed")
    check(len(real) == 10, "ten links")

    # side array order, not matrix order, decides membership order
    v = mkverts(3)
    side = (v[2], v[0], v[1])
    uni = adjmatrix.load_adj_matrix(
        ((0, 0, 1), (0, 0, 0), (1, 0, 0)), side, UnDirectedEdge
    )
    same_seq(uni.vertices, side, "side order")
    check(len(v[2].links) == 2 and len(v[1].links) == 2, "both cells linked")
    same_seq(v[2].links[0].vertices, [v[2], v[1]], "row to column")
    same_seq(v[2].links[1].vertices, [v[1], v[2]], "row to column 2")
    same_seq(helpers.neighbors(v[2]), [v[1], v[1]], "undirected closure")
    same_seq(helpers.neighbors(v[1]), [v[2], v[2]], "undirected closure 2")
    check(v[0].links == (), "isolated")

    # empty matrix
    uni = adjmatrix.load_adj_matrix([], [])
    check(type(uni) is Universe and uni.vertices == [], "empty matrix")
    uni = adjmatrix.load_adj_matrix((), (), UnDirectedEdge)
    check(uni.vertices == [], "empty tuples")


def scripted_matrix_truthiness():
    nan = float("nan")
    v = mkverts(4)
    mat = [
        [nan, "", "0", None],
        [[], [0], 0.0, -1],
        [(), {}, {0: 0}, b""],
        [0j, 1e-300, False, True],
    ]
    uni = adjmatrix.load_adj_matrix(mat, v)
    want = [(0, 0), (0, 2), (1, 1), (1, 3), (2, 2), (3, 1), (3, 3)]
    got = []
    for i, x in enumerate(v):
        for lnk in x.links:
            if lnk.vertices[0] is x:
                got.append((i, lnk.vertices[1].name))
    check(got == want, f"truthy cells: {got}")
    same_seq(uni.vertices, v, "truthiness members")


def scripted_matrix_trace():
    v = mkverts(3, LogVertex)
    reset_log()
    rows = [
        Seq("r0", [Cell(0, 0, False), Cell(0, 1, True), Cell(0, 2, True)]),
        Seq("r1", [Cell(1, 0, False), Cell(1, 1, False), Cell(1, 2, False)]),
        Seq("r2", [Cell(2, 0, True), Cell(2, 1, False), Cell(2, 2, True)]),
    ]
    mat = Seq("M", rows)
    side = Seq("S", v)
    uni = adjmatrix.load_adj_matrix(mat, side, LogLink)
    want = [
        ("M", "len"), ("S", "len"),
        ("M", "iter"), ("r0", "len"), ("r1", "len"), ("r2", "len"),
        ("S", "iter"), ("add", 0, 0), ("add", 1, 1), ("add", 2, 2),
        ("M", "iter"),
        ("r0", "iter"),
        ("bool", 0, 0),
        ("bool", 0, 1), ("S", "get", 0), ("S", "get", 1), ("link", 0, 1),
        ("bool", 0, 2), ("S", "get", 0), ("S", "get", 2), ("link", 0, 2),
        ("r1", "iter"), ("bool", 1, 0), ("bool", 1, 1), ("bool", 1, 2),
        ("r2", "iter"),
        ("bool", 2, 0), ("S", "get", 2), ("S", "get", 0), ("link", 2, 0),
        ("bool", 2, 1),
        ("bool", 2, 2), ("S", "get", 2), ("S", "get", 2), ("link", 2, 2),
    ]
    check(LogVertex.LOG == want, f"matrix trace: {LogVertex.LOG}")
    same_seq(uni.vertices, v, "matrix trace members")
    check(len(v[2].links) == 3 and len(v[0].links) == 3, "trace link counts")

    # the side array is consulted at link time: a link type that edits the
    # side array is honoured from the next cell on
    v = mkverts(3)
    side = [v[0], v[1], v[2]]

    def swapper(a, b):
        lnk = DirectedEdge(a, b)
        side[1], side[2] = side[2], side[1]
        return lnk

    uni = adjmatrix.load_adj_matrix([[0, 1, 1], [0, 0, 0], [0, 0, 0]], side,
                                    swapper)
    same_seq([x.vertices[1] for x in v[0].links], [v[1], v[1]], "live side")
    same_seq(uni.vertices, v, "members decided before linking")

    # a row edited while it is being read
    v = mkverts(2)
    row0 = [1, 0]

    def grower(a, b):
        row0[1] = 1
        return UnDirectedEdge(a, b)

    adjmatrix.load_adj_matrix([row0, [0, 0]], v, grower)
    check(len(v[0].links) == 2 and len(v[1].links) == 1, "live row")


def cache_size():
    """Number of vertices ever registered, via the public statistics."""
    old = Vertex.NEIGHBOR_CACHING
    Vertex.NEIGHBOR_CACHING = True
    try:
        for line in Vertex.total_cache_stats().splitlines():
            if line.startswith("Size:"):
                return int(line.split()[1])
    finally:
        Vertex.NEIGHBOR_CACHING = old
    raise AssertionError("no Size line")


def scripted_matrix_rejection():
    cases = [
        # (matrix, side length)
        ([[0, 1, 0], [0, 1], [0, 1, 0]], 3),
        ([[1, 1, 1], [1, 1, 1], [1, 1, 1]], 4),
        ([[1, 1, 1], [1, 1, 1], [1, 1, 1]], 2),
        ([[1, 1], [1, 1], [1, 1]], 3),
        ([[1, 1], [1, 1], [1, 1]], 2),
        ([[1, 1, 1], [1, 1, 1]], 2),
        ([[1, 1, 1], [1, 1, 1]], 3),
        ([[1], [1, 1]], 2),
        ([[1, 1], [1, 1, 1]], 2),
        ([[]], 1),
        ([[1]], 0),
        ([], 1),
        ([[1, 1], []], 2),
        (["ab", "c"], 2),
    ]
    for mat, nside in cases:
        for linktype in (DirectedEdge, UnDirectedEdge, LogLink):
            v = mkverts(nside, LogVertex)
            olduni = Universe(vertices=v[:1])
            if nside >= 2:
                old = explicit.link_undirected(v[0], v[1])
            reset_log()
            size = cache_size()
            snap = [(x.links, x.universes, dict(vars(x))) for x in v]
            try:
                adjmatrix.load_adj_matrix(mat, v, linktype)
            except ValueError as exc:
                check(type(exc) is ValueError, "exactly ValueError")
            else:
                check(False, f"ValueError expected for {mat!r}/{nside}")
            check(LogVertex.LOG == [], f"nothing touched: {LogVertex.LOG}")
            check(cache_size() == size, "not even a universe was created")
            for x, (lk, un, dct) in zip(v, snap):
                same_seq(x.links, lk, "links unchanged after rejection")
                same_seq(x.universes, un, "universes unchanged after rejection")
                now = vars(x)
                check(
                    now.keys() == dct.keys()
                    and all(
                        (now[k] is dct[k]) or (now[k] == dct[k]) for k in dct
                    ),
                    "vertex state unchanged after rejection",
                )
            if nside >= 1:
                same_seq(olduni.vertices, v[:1], "old universe unchanged")

    # the shape check reads lengths only: traced containers
    v = mkverts(2, LogVertex)
    reset_log()
    rows = [Seq("r0", [Cell(0, 0, True), Cell(0, 1, True)]),
            Seq("r1", [Cell(1, 0, True)])]
    try:
        adjmatrix.load_adj_matrix(Seq("M", rows), Seq("S", v), LogLink)
    except ValueError:
        pass
    else:
        check(False, "ValueError expected (traced)")
    check(
        LogVertex.LOG[:4]
        == [("M", "len"), ("S", "len"), ("M", "iter"), ("r0", "len")]
        and all(e == ("r1", "len") for e in LogVertex.LOG[4:])
        and 1 <= len(LogVertex.LOG[4:]) <= 2,
        f"rejection trace: {LogVertex.LOG}",
    )
    check(len(LogVertex.LOG) == 6, f"rejection trace length: {LogVertex.LOG}")

    reset_log()
    try:
        adjmatrix.load_adj_matrix(Seq("M", rows), Seq("S", v + v), LogLink)
    except ValueError:
        pass
    else:
        check(False, "ValueError expected (traced, side)")
    check(LogVertex.LOG == [("M", "len"), ("S", "len")], "side checked first")

    # things without a length are a TypeError, before anything is touched
    v = mkverts(2, LogVertex)
    reset_log()
    for mat, side in (
        (iter([[0, 0], [0, 0]]), v),
        ([[0, 0], [0, 0]], iter(v)),
        ([iter([0, 0]), [0, 0]], v),
        ([[0, 0], 5], v),
        (None, v),
    ):
        try:
            adjmatrix.load_adj_matrix(mat, side)
        except TypeError:
            pass
        else:
            check(False, "TypeError expected for unsized input")
    check(LogVertex.LOG == [], "unsized input: nothing touched")


def scripted_matrix_failures():
    # a cell whose truth value raises; a link type that raises
    for exc in (Boom("cell"), StopIteration("cell"), KeyError("cell")):
        v = mkverts(2, LogVertex)
        reset_log()
        mat = [[Cell(0, 0, True), Cell(0, 1, exc)], [Cell(1, 0, True), 1]]
        try:
            adjmatrix.load_adj_matrix(mat, v, LogLink)
        except BaseException as got:  # pylint: disable=broad-except
            check(got is exc, "cell exception passes through unchanged")
        else:
            check(False, "cell exception expected")
        check(
            LogVertex.LOG
            == [("add", 0, 0), ("add", 1, 1), ("bool", 0, 0), ("link", 0, 0),
                ("bool", 0, 1)],
            f"cell failure log: {LogVertex.LOG}",
        )
        check(len(v[0].links) == 1 and v[1].links == (), "cell failure state")
        check(len(v[1].universes) == 1, "all vertices enrolled before linking")

    for exc in (Boom("lnk"), StopIteration("lnk"), RuntimeError("lnk")):
        v = mkverts(2, LogVertex)
        reset_log(fail_at=2, exc=exc)
        try:
            adjmatrix.load_adj_matrix([[1, 1], [1, 1]], v, LogLink)
        except BaseException as got:  # pylint: disable=broad-except
            check(got is exc, "link exception passes through unchanged")
        else:
            check(False, "link exception expected")
        check(
            LogVertex.LOG
            == [("add", 0, 0), ("add", 1, 1), ("link", 0, 0), ("link", 0, 1)],
            f"link failure log: {LogVertex.LOG}",
        )
        check(len(v[0].links) == 1 and v[1].links == (), "link failure state")
    reset_log()

    # a side array member that is no vertex: fails while enrolling, in order
    v = mkverts(2, LogVertex)
    reset_log()
    try:
        adjmatrix.load_adj_matrix([[1, 1, 1]] * 3, [v[0], "x", v[1]], LogLink)
    except AttributeError:
        pass
    else:
        check(False, "AttributeError expected for str in side array")
    check(LogVertex.LOG == [("add", 0, 0)], "stopped at the bad member")
    check(len(v[0].universes) == 1 and v[1].universes == [], "partial enrol")

    # the same vertex twice in the side array
    a, b = mkverts(2)
    uni = adjmatrix.load_adj_matrix(
        [[0, 0, 1], [0, 0, 0], [1, 1, 0]], [a, b, a], DirectedEdge
    )
    same_seq(uni.vertices, [a, b], "duplicate member listed once")
    ends_are(a.links, [(a, a), (a, a), (a, b)],
             "aliased side array")
    same_seq(helpers.neighbors(a), [a, a, b], "aliased side array nb")

    # StopIteration from a vertex hook while enrolling
    class StopAdder(Vertex):
        def add_to_universe(self, universe):
            raise StopIteration("enrol")

    try:
        adjmatrix.load_adj_matrix([[0]], [StopAdder()])
    except StopIteration as exc:
        check(exc.args == ("enrol",), "StopIteration from enrol")
    else:
        check(False, "StopIteration expected from enrol")

    class StopSeq(Seq):
        def __getitem__(self, idx):
            raise StopIteration("getitem")

    a = Vertex()
    try:
        adjmatrix.load_adj_matrix([[1]], StopSeq("S", [a], quiet=("len", "iter")))
    except StopIteration as exc:
        check(exc.args == ("getitem",), "StopIteration from side lookup")
    else:
        check(False, "StopIteration expected from side lookup")
    check(a.links == () and len(a.universes) == 1, "enrolled, not linked")
    reset_log()


def scripted_equal_vertices():
    """Vertices that compare equal: membership goes by ==, links by identity."""

    class EqVertex(Vertex):
        def __eq__(self, other):
            return isinstance(other, EqVertex) and other.key == self.key

        def __hash__(self):
            return hash(self.key)

    a, b, c = EqVertex(), EqVertex(), EqVertex()
    a.key, b.key, c.key = 1, 1, 2
    uni = adjmatrix.load_adj_matrix([[0, 1, 1], [0, 0, 1], [0, 0, 0]],
                                    [a, b, c])
    same_seq(uni.vertices, [a, c], "equal vertex is not listed twice")
    same_seq(b.universes, [uni], "... but knows the universe")
    ends_are(a.links, [(a, b), (a, c)], "links by id")
    ends_are(b.links, [(a, b), (b, c)], "links by id 2")

    a, b, c = EqVertex(), EqVertex(), EqVertex()
    a.key, b.key, c.key = 1, 1, 2
    # a and b collapse to one key in a dict; use an items() provider
    src = ItemsOnly([(a, [c]), (b, [a])])
    reset_log()
    uni = adjlist.load_adj_dict(src, DirectedEdge)
    reset_log()
    same_seq(uni.vertices, [a, c], "adjdict: equal vertex not listed twice")
    same_seq(b.universes, [uni], "adjdict: ... but knows the universe")
    ends_are(a.links, [(a, c), (b, a)], "adjdict by id")


def scripted_slots_and_attrs():
    v = mkverts(3, SlotVertex)
    v[0].extra = "e"
    v[1].__dict__["weird name!"] = 1
    v[2]["uni"] = 5  # user attributes with names the builders use inside
    v[2]["linktype"] = None
    v[2]["universe"] = "mine"
    before = [set(k for k in vars(x) if not k.startswith("_")) for x in v]
    uni = adjlist.load_adj_dict({v[0]: v[1:], v[1]: v[:1]}, UE2)
    uni2 = adjmatrix.load_adj_matrix([[1, 0, 0], [0, 0, 1], [0, 0, 0]], v, DE2)
    after = [set(k for k in vars(x) if not k.startswith("_")) for x in v]
    check(before == after, "public attribute names of vertices unchanged")
    check(v[0].extra == "e", "slot value kept")
    same_seq(v[0].universes, [uni, uni2], "two builders, two universes")
    check(
        set(k for k in vars(uni) if not k.startswith("_")) == set()
        and set(k for k in vars(uni2) if not k.startswith("_")) == set(),
        "no public attributes on the new universes",
    )
    lnk = v[0].links[0]
    check(type(lnk) is UE2, "UE2 link")
    check(
        set(k for k in vars(lnk) if not k.startswith("_")) == set(),
        "no public attributes on a new link",
    )
    check(v[0].links[-1].note == "de2", "DE2 attribute")
    check(uni.laws is not None and uni.laws.applies_to is uni, "fresh laws")
    check(uni2.laws is not uni.laws, "own laws each")


def scripted_caching():
    for caching in (False, True, False):
        Vertex.NEIGHBOR_CACHING = caching
        try:
            v = mkverts(4)
            explicit.link_directed(v[0], v[3])
            for x in v:  # prime the caches
                helpers.neighbors(x)
                helpers.neighbors(x, direction_sensitive=helpers.DIR_SENS_ANY)
            uni = adjlist.load_adj_dict({v[0]: [v[1]], v[2]: [v[0], v[2]]},
                                        DirectedEdge)
            same_seq(helpers.neighbors(v[0]), [v[3], v[1]], "cache: v0")
            same_seq(helpers.neighbors(v[2]), [v[0], v[2]], "cache: v2")
            same_seq(
                helpers.neighbors(v[0], direction_sensitive=helpers.DIR_SENS_ANY),
                [v[3], v[1], v[2]],
                "cache: v0 any",
            )
            same_seq(helpers.neighbors(v[1]), [], "cache: v1")
            for x in v:
                helpers.neighbors(x)
            uni2 = adjmatrix.load_adj_matrix(
                [[0, 0, 0, 0], [1, 0, 0, 0], [0, 0, 0, 0], [0, 1, 0, 1]],
                v,
                UnDirectedEdge,
            )
            same_seq(helpers.neighbors(v[0]), [v[3], v[1], v[1]], "cache2: v0")
            same_seq(helpers.neighbors(v[1]), [v[0], v[3]], "cache2: v1")
            same_seq(helpers.neighbors(v[3]), [v[1], v[3]], "cache2: v3")
            same_seq(helpers.neighbors(v[3]), [v[1], v[3]], "cache2: v3 again")
            # toggling afterwards must not resurrect stale answers
            Vertex.NEIGHBOR_CACHING = not caching
            same_seq(helpers.neighbors(v[0]), [v[3], v[1], v[1]], "toggled")
            same_seq(uni.vertices, [v[0], v[1], v[2]], "cache: uni")
            same_seq(uni2.vertices, v, "cache: uni2")
        finally:
            Vertex.NEIGHBOR_CACHING = False


def scripted_copies():
    for caching in (False, True):
        Vertex.NEIGHBOR_CACHING = caching
        try:
            v = mkverts(4, NamedVertex)
            uni = adjmatrix.load_adj_matrix(
                [[0, 1, 0, 0], [0, 0, 1, 0], [0, 0, 1, 1], [1, 0, 0, 0]], v
            )
            for x in v:
                helpers.neighbors(x)
            for how in ("deepcopy", "pickle"):
                if how == "deepcopy":
                    cuni = copy.deepcopy(uni)
                else:
                    cuni = pickle.loads(pickle.dumps(uni))
                cv = cuni.vertices
                check(len(cv) == 4 and all(a is not b for a, b in zip(cv, v)),
                      f"{how}: fresh vertices")
                check([x.name for x in cv] == [0, 1, 2, 3], f"{how}: names")
                same_seq(helpers.neighbors(cv[2]), [cv[2], cv[3]], f"{how}: nb")
                # build further on the copy
                uni3 = adjlist.load_adj_dict(
                    {cv[3]: [cv[1], cv[3]], cv[0]: iter([cv[2]])}
                )
                same_seq(uni3.vertices, [cv[3], cv[1], cv[0], cv[2]],
                         f"{how}: members on copy")
                same_seq(cv[3].universes, [cuni, uni3], f"{how}: universes")
                same_seq(
                    helpers.neighbors(cv[3]), [cv[0], cv[1], cv[3]],
                    f"{how}: nb on copy",
                )
                same_seq(helpers.neighbors(cv[1]), [cv[2], cv[3]],
                         f"{how}: nb on copy 2")
                uni4 = adjmatrix.load_adj_matrix(
                    [[0, 1], [0, 0]], [cv[1], cv[0]], UnDirectedEdge
                )
                same_seq(uni4.vertices, [cv[1], cv[0]], f"{how}: uni4")
                same_seq(helpers.neighbors(cv[0]), [cv[1], cv[2], cv[1]],
                         f"{how}: nb on copy 3")
                # the original is not affected by work on the copy
                same_seq(helpers.neighbors(v[0]), [v[1]], f"{how}: original")
                check(len(v[3].links) == 2, f"{how}: original links")
                same_seq(v[3].universes, [uni], f"{how}: original universes")
                # and the copy of a copy still works
                c2 = copy.deepcopy(uni3)
                w = c2.vertices
                same_seq(helpers.neighbors(w[0]), [w[2], w[1], w[0]],
                         f"{how}: copy of copy")
                check(len(explicit.link_from_to(w[0], DirectedEdge, w[1],
                                                dontdup=True).vertices) == 2,
                      f"{how}: dontdup on copy of copy")
                check(len(w[0].links) == 4, f"{how}: dontdup made no link")
        finally:
            Vertex.NEIGHBOR_CACHING = False


def scripted_link_from_to():
    """link_from_to itself (the builders' workhorse), incl. dontdup."""
    a, b, c = mkverts(3)
    l1 = explicit.link_from_to(a, DirectedEdge, b)
    check(type(l1) is DirectedEdge and l1.vertices == (a, b), "lft basic")
    l2 = explicit.link_from_to(a, DirectedEdge, b)
    check(l2 is not l1 and a.links == (l1, l2), "lft duplicates by default")
    check(explicit.link_from_to(a, UnDirectedEdge, b, True) is l1, "first hit")
    check(explicit.link_from_to(b, UnDirectedEdge, a, dontdup=True) is l1,
          "dontdup ignores direction")
    check(a.links == (l1, l2) and b.links == (l1, l2), "dontdup: no new link")
    l3 = explicit.link_from_to(a, UnDirectedEdge, c, dontdup=True)
    check(type(l3) is UnDirectedEdge and a.links == (l1, l2, l3), "no hit")
    l4 = explicit.link_from_to(c, DirectedEdge, c, dontdup=1)
    check(l4.vertices == (c, c) and c.links == (l3, l4), "self loop created")
    check(explicit.link_from_to(c, DirectedEdge, c, dontdup="yes") is l4,
          "self loop found")
    check(explicit.link_from_to(c, DirectedEdge, c, dontdup=0) is not l4,
          "falsy dontdup")
    check(explicit.link_from_to(c, DirectedEdge, c, dontdup=()) is not l4,
          "falsy dontdup 2")
    # None as an end
    l5 = explicit.link_from_to(b, DirectedEdge, None)
    check(l5.vertices == (b, None) and b.links[-1] is l5, "None end")
    check(explicit.link_from_to(b, DirectedEdge, None, dontdup=True) is l5,
          "dontdup finds the dangling link")
    try:
        explicit.link_from_to(None, DirectedEdge, b, dontdup=True)
    except AttributeError:
        pass
    else:
        check(False, "None has no links")
    l6 = explicit.link_from_to(None, DirectedEdge, b)
    check(l6.vertices == (None, b), "None origin without dontdup")

    # the truth value of dontdup is taken exactly once; links read once
    class Flag:
        n = 0

        def __bool__(self):
            Flag.n += 1
            return True

    class Watch(Vertex):
        reads = 0

        @property
        def links(self):
            Watch.reads += 1
            return super().links

    w, x = Watch(), Vertex()
    Watch.reads = 0
    first = explicit.link_from_to(w, DirectedEdge, x, dontdup=Flag())
    check(Flag.n == 1, "bool(dontdup) once")
    reads = Watch.reads
    Flag.n = 0
    Watch.reads = 0
    check(explicit.link_from_to(w, DirectedEdge, x, dontdup=Flag()) is first,
          "found")
    check(Flag.n == 1 and Watch.reads == 1, "one read of .links when found")
    check(reads >= 1, "links were read for the search")
    Watch.reads = 0
    explicit.link_from_to(x, DirectedEdge, w)
    check(len(w.links) == 2, "plain call links")

    # the search stops at the first hit and uses Link.other
    class Other(DirectedEdge):
        calls = []

        def other(self, end):
            Other.calls.append(self.tag)
            return super().other(end)

    p, q, r = mkverts(3)
    o1, o2, o3 = Other(p, r), Other(p, q), Other(p, q)
    o1.tag, o2.tag, o3.tag = 1, 2, 3
    check(explicit.link_from_to(p, DirectedEdge, q, dontdup=True) is o2, "hit")
    check(Other.calls == [1, 2], "stops at the first hit")
    Other.calls.clear()
    made = explicit.link_from_to(p, Other, Vertex(), dontdup=True)
    check(Other.calls == [1, 2, 3] and type(made) is Other, "full scan, then new")

    # an error inside the scan escapes unchanged
    class BadOther(DirectedEdge):
        def other(self, end):
            raise StopIteration("other")

    s, t = mkverts(2)
    BadOther(s, t)
    try:
        explicit.link_from_to(s, DirectedEdge, t, dontdup=True)
    except StopIteration as exc:
        check(exc.args == ("other",), "StopIteration from other()")
    else:
        check(False, "StopIteration expected from other()")
    check(len(s.links) == 1, "no link made after a failing scan")

    # wrappers
    d = explicit.link_directed(a, c, dontdup=True)
    check(d is l3, "link_directed dontdup")
    u = explicit.link_undirected(c, b)
    check(type(u) is UnDirectedEdge and u.vertices == (c, b), "link_undirected")
    check(explicit.link_directed(b, c, True) is u, "positional dontdup")


def scripted_threads():
    errors = []
    results = {}

    def work(k):
        try:
            rng = random.Random(k)
            for _ in range(15):
                n = rng.randrange(1, 6)
                v = mkverts(n)
                mat = [[rng.random() < 0.4 for _ in range(n)] for _ in range(n)]
                uni = adjmatrix.load_adj_matrix(mat, v)
                same_seq(uni.vertices, v, "thread members")
                for i in range(n):
                    same_seq(
                        helpers.neighbors(v[i]),
                        [v[j] for j in range(n) if mat[i][j]],
                        "thread nb",
                    )
                adj = {v[i]: [v[j] for j in range(n) if mat[j][i]]
                       for i in range(n)}
                uni2 = adjlist.load_adj_dict(adj, DirectedEdge)
                check(set(map(id, uni2.vertices)) == set(map(id, v)),
                      "thread adjdict members")
                for i in range(n):
                    same_seq(
                        helpers.neighbors(v[i]),
                        [v[j] for j in range(n) if mat[i][j]]
                        + [v[j] for j in range(n) if mat[j][i]],
                        "thread nb 2",
                    )
            results[k] = True
        except BaseException as exc:  # pylint: disable=broad-except
            errors.append(exc)

    threads = [threading.Thread(target=work, args=(k,)) for k in range(6)]
    for t in threads:
        t.start()
    for t in threads:
        t.join()
    if errors:
        raise errors[0]
    check(len(results) == 6, "all threads finished")


def scripted_random_module_untouched():
    random.seed(1234)
    state = random.getstate()
    v = mkverts(5)
    adjlist.load_adj_dict({v[0]: v[1:], v[4]: v[:2]})
    adjmatrix.load_adj_matrix([[1] * 5] * 5, v)
    try:
        adjmatrix.load_adj_matrix([[1] * 5] * 4, v)
    except ValueError:
        pass
    check(random.getstate() == state, "random module state untouched")


def scripted_late_generators():
    """Generators made long before they are consumed."""
    v = mkverts(5)

    def targets(i):
        for j in range(5):
            if (i * j) % 3 == 1:
                yield v[j]

    gens = {v[i]: targets(i) for i in range(5)}
    # unrelated work in between
    adjmatrix.load_adj_matrix([[1, 1], [0, 0]], v[:2], UnDirectedEdge)
    explicit.link_directed(v[4], v[0])
    uni = adjlist.load_adj_dict(gens, DirectedEdge)
    same_seq(uni.vertices, [v[0], v[1], v[4], v[2], v[3]],
             "late generators: members")
    same_seq(helpers.neighbors(v[1]), [v[0], v[1], v[4]], "late gen v1")
    same_seq(helpers.neighbors(v[2]), [v[2]], "late gen v2")
    same_seq(helpers.neighbors(v[4]), [v[0], v[1], v[4]], "late gen v4")
    # exhausted generators give nothing the second time round
    uni2 = adjlist.load_adj_dict(gens, DirectedEdge)
    same_seq(uni2.vertices, v, "second pass: keys only")
    same_seq(helpers.neighbors(v[2]), [v[2]], "second pass made no links")


###############################################################################
# seeded random differential part

LINKTYPES = [
    (DirectedEdge, True),
    (UnDirectedEdge, False),
    (DE2, True),
    (UE2, False),
]

TRUTHY = [1, True, -1, 2.5, float("nan"), "x", [0], (0,), {0}, object()]
FALSY = [0, False, 0.0, "", [], (), {}, None, 0j, b""]


def random_world(rng):
    n = rng.randrange(1, 8)
    classes = [Vertex, SlotVertex, NamedVertex]
    verts = []
    for i in range(n):
        x = rng.choice(classes)()
        x.name = i
        verts.append(x)
    m = Model(n)
    reallinks = []
    realunis = {}
    # some pre-existing universes and links
    for u in range(rng.randrange(0, 3)):
        name = f"old{u}"
        m.new_universe(name)
        realunis[name] = Universe()
        for i in rng.sample(range(n), rng.randrange(0, n + 1)):
            m.enrol(i, name)
            verts[i].add_to_universe(realunis[name])
    for _ in range(rng.randrange(0, 6)):
        a, b = rng.randrange(n), rng.randrange(n)
        cls, directed = rng.choice(LINKTYPES)
        m.link(a, b, directed)
        reallinks.append(explicit.link_from_to(verts[a], cls, verts[b]))
    return n, verts, m, reallinks, realunis


def random_round(rng, rnd):
    n, verts, m, reallinks, realunis = random_world(rng)
    if rng.random() < 0.5:
        for x in verts:  # prime caches (if enabled)
            helpers.neighbors(x)
    compare(m, verts, reallinks, realunis, f"round {rnd} pre")

    for step in range(rng.randrange(1, 4)):
        tag = f"round {rnd} step {step}"
        cls, directed = rng.choice(LINKTYPES)
        before = {i: verts[i].links for i in range(n)}
        name = f"new{step}"
        if rng.random() < 0.5:
            # adjacency dictionary
            keys = rng.sample(range(n), rng.randrange(0, n + 1))
            adj = [(k, [rng.randrange(n) for _ in range(rng.randrange(0, 5))])
                   for k in keys]
            real = {}
            for k, vals in adj:
                objs = [verts[w] for w in vals]
                shape = rng.randrange(4)
                if shape == 0:
                    real[verts[k]] = objs
                elif shape == 1:
                    real[verts[k]] = tuple(objs)
                elif shape == 2:
                    real[verts[k]] = iter(objs)
                else:
                    real[verts[k]] = (o for o in objs)
            created = m.load_adj_dict(name, adj, directed)
            uni = adjlist.load_adj_dict(real, cls)
        else:
            # adjacency matrix over a (possibly shorter, shuffled, repeating)
            # side array
            k = rng.randrange(0, n + 2)
            side = [rng.randrange(n) for _ in range(k)]
            dens = rng.random()
            mat = [[rng.random() < dens for _ in range(k)] for _ in range(k)]
            if rng.random() < 0.25:
                # spoil the shape: the call must be rejected as a whole
                bad = [list(r) for r in mat]
                how = rng.randrange(3)
                badside = list(side)
                if how == 0 and k > 0:
                    bad[rng.randrange(k)].append(1)
                elif how == 1 and k > 0:
                    bad[rng.randrange(k)].pop()
                else:
                    badside.append(rng.randrange(n))
                try:
                    m.load_adj_matrix("never", bad, badside, directed)
                except ValueError:
                    pass
                else:
                    raise AssertionError("oracle accepted a bad shape")
                size = cache_size()
                try:
                    adjmatrix.load_adj_matrix(bad, [verts[i] for i in badside],
                                              cls)
                except ValueError as exc:
                    check(type(exc) is ValueError, f"{tag}: ValueError")
                else:
                    check(False, f"{tag}: bad shape accepted")
                check(cache_size() == size, f"{tag}: nothing created")
                compare(m, verts, reallinks, realunis, f"{tag} rejected")
            realmat = [
                [rng.choice(TRUTHY) if c else rng.choice(FALSY) for c in r]
                for r in mat
            ]
            if rng.random() < 0.5:
                realmat = tuple(tuple(r) for r in realmat)
            realside = [verts[i] for i in side]
            if rng.random() < 0.5:
                realside = tuple(realside)
            created = m.load_adj_matrix(name, mat, side, directed)
            uni = adjmatrix.load_adj_matrix(realmat, realside, cls)
        check(type(uni) is Universe, f"{tag}: returns a plain Universe")
        check(all(uni is not u for u in realunis.values()), f"{tag}: new uni")
        check(uni.links == () and uni.universes == [], f"{tag}: bare universe")
        realunis[name] = uni
        adopt_created(m, created, verts, before, reallinks, tag)
        for k2 in created:
            check(type(reallinks[k2]) is cls, f"{tag}: requested link type")
        compare(m, verts, reallinks, realunis, tag)

    # a round trip, then keep building on the copy
    if rng.random() < 0.3 and realunis:
        name = rng.choice(sorted(realunis))
        if not model_closed(m, name):
            return
        uni = realunis[name]
        if rng.random() < 0.5:
            cuni = copy.deepcopy(uni)
        else:
            cuni = pickle.loads(pickle.dumps(uni))
        cverts = cuni.vertices
        check([x.name for x in cverts] == m.unis[name], "copy: members")
        if cverts:
            a = cverts[0]
            nb_before = helpers.neighbors(a)
            uni5 = adjlist.load_adj_dict({a: [a, cverts[-1]]}, DirectedEdge)
            same_seq(helpers.neighbors(a), nb_before + [a, cverts[-1]],
                     "copy: further building")
            same_seq(uni5.vertices, [a] if a is cverts[-1] else [a, cverts[-1]],
                     "copy: new universe")
        compare(m, verts, reallinks, realunis, f"round {rnd} after copy")


def model_closed(m, name):
    """Always true; kept to make the intent explicit (copies drag along the
    whole connected structure, which is fine)."""
    return True


def random_part():
    rng = random.Random(0xC11)
    for rnd in range(260):
        Vertex.NEIGHBOR_CACHING = bool(rnd % 3 == 1)
        try:
            random_round(rng, rnd)
        finally:
            Vertex.NEIGHBOR_CACHING = False


###############################################################################


def main():
    scripted = [
        scripted_adjdict_doc_example,
        scripted_adjdict_empty_and_order,
        scripted_adjdict_preexisting,
        scripted_adjdict_trace,
        scripted_adjdict_failures,
        scripted_linktype_is_any_callable,
        scripted_matrix_doc_example,
        scripted_matrix_truthiness,
        scripted_matrix_trace,
        scripted_matrix_rejection,
        scripted_matrix_failures,
        scripted_equal_vertices,
        scripted_slots_and_attrs,
        scripted_caching,
        scripted_copies,
        scripted_link_from_to,
        scripted_threads,
        scripted_random_module_untouched,
        scripted_late_generators,
    ]
    for fn in scripted:
        fn()
    random_part()
    print(f"equiv.py: all {CHECKS} checks passed")
    return 0


if __name__ == "__main__":
    sys.exit(main())
