#!/usr/bin/python3
# -*- coding: utf-8 -*-
"""
Equivalence / property check for C18 (true singletons).

Uses only the public API of edgegraph.structure.singleton (TrueSingleton,
clear_true_singleton) plus the public graph API for the vertex-singleton part.
Exits 0 when every check passes, 1 otherwise.

Run:  PYTHONPATH=<worktree> /venv/bin/python equiv.py
"""

import copy
import gc
import importlib
import pickle
import random
import sys
import threading
import warnings
import weakref

warnings.simplefilter("error")

from edgegraph.structure import singleton, vertex, universe, directededge
from edgegraph.structure.singleton import TrueSingleton, clear_true_singleton
from edgegraph.traversal import helpers
from edgegraph.output import nrpickler

FAILS = []
NCHECKS = [0]


def check(cond, msg):
    NCHECKS[0] += 1
    if not cond:
        FAILS.append(msg)
        print("FAIL:", msg)


def raises(exc, fn, *a, **k):
    try:
        fn(*a, **k)
    except exc as e:  # noqa
        return type(e) is exc or isinstance(e, exc)
    except BaseException as e:  # pylint: disable=broad-except
        print("   unexpected", type(e), e)
        return False
    return False


def in_thread(fn, *a, **k):
    box = {}

    def run():
        try:
            box["r"] = fn(*a, **k)
        except BaseException as e:  # pylint: disable=broad-except
            box["e"] = e

    t = threading.Thread(target=run)
    t.start()
    t.join()
    if "e" in box:
        raise box["e"]
    return box["r"]


###############################################################################
# scripted part


def scripted_basic():
    clear_true_singleton()
    calls = []

    class S(metaclass=TrueSingleton):
        def __init__(self, foo, bar=False):
            calls.append((foo, bar))
            self.foo = foo
            self.bar = bar

    s1 = S(8, True)
    s2 = S(8, True)
    s3 = S(512, bar=2**32)
    s4 = S(foo="x")
    check(s1 is s2 and s2 is s3 and s3 is s4, "basic: identity")
    check(calls == [(8, True)], "basic: __init__ once with first args")
    check(s3.foo == 8 and s3.bar is True, "basic: first args kept")
    check(type(s1) is S, "basic: type")
    check(sorted(vars(s1)) == ["bar", "foo"], "basic: vars of instance")

    # even arguments that __init__ would reject are ignored once live
    check(S() is s1, "basic: bad args ignored when live")
    check(S(1, 2, 3, 4, nope=1) is s1, "basic: bad args ignored when live 2")

    # the metaclass call binds its first parameter as ``cls``: a keyword of
    # that name collides, live instance or not
    check(raises(TypeError, lambda: S(1, cls=2)), "basic: cls= kw, live")
    check(S(1, args=2, kwargs=3, self=4) is s1, "basic: other kw fine")

    check(clear_true_singleton(S) is None, "basic: clear returns None")
    check(raises(TypeError, lambda: S(1, cls=2)), "basic: cls= kw, not live")
    # bad args now matter, and leave no instance behind
    check(raises(TypeError, S), "basic: bad args raise when not live")
    check(calls == [(8, True)], "basic: failed ctor did not run init body")
    n1 = S(1)
    check(n1 is not s1 and S(2) is n1, "basic: fresh after clear")
    check(calls == [(8, True), (1, False)], "basic: init twice overall")
    check(s1.foo == 8, "basic: old instance untouched")

    # clearing again and again / clearing when absent
    clear_true_singleton(S)
    clear_true_singleton(S)
    clear_true_singleton(S)
    n2 = S(3)
    check(n2 is not n1 and n2 is not s1, "basic: fresh after repeated clear")
    check(calls[-1] == (3, False) and len(calls) == 3, "basic: init thrice")
    clear_true_singleton()


def scripted_classes_independent():
    clear_true_singleton()
    inits = []

    class A(metaclass=TrueSingleton):
        def __init__(self, *a, **k):
            inits.append((type(self).__name__, a, k))

    class B(A):
        pass

    class C(B):
        __slots__ = ("q",)

    class D(metaclass=TrueSingleton):
        __slots__ = ()

    class Plain:
        pass

    # subclass first, then base
    c = C(1)
    b = B(2)
    a = A(3)
    d = D()
    check(len({id(a), id(b), id(c), id(d)}) == 4, "indep: four instances")
    check(type(a) is A and type(b) is B and type(c) is C, "indep: types")
    check(
        inits == [("C", (1,), {}), ("B", (2,), {}), ("A", (3,), {})],
        "indep: init log",
    )
    check(A() is a and B() is b and C() is c and D() is d, "indep: stable")

    clear_true_singleton(B)
    check(A() is a and C() is c and D() is d, "indep: others survive clear(B)")
    b2 = B("again")
    check(b2 is not b and B() is b2, "indep: B fresh")
    check(inits[-1] == ("B", ("again",), {}) and len(inits) == 4, "indep: log")

    # clearing a class with no instance / a non-singleton / odd things
    class Never(metaclass=TrueSingleton):
        pass

    clear_true_singleton(Never)
    clear_true_singleton(Plain)
    clear_true_singleton(int)
    clear_true_singleton(7)
    clear_true_singleton("some string")
    clear_true_singleton((1, 2))
    clear_true_singleton(a)  # an instance, not a class
    clear_true_singleton(TrueSingleton)
    check(
        A() is a and B() is b2 and C() is c and D() is d,
        "indep: harmless clears",
    )
    # an unhashable truthy argument is rejected and leaves everything in place
    check(raises(TypeError, clear_true_singleton, [1]), "indep: unhashable")
    check(raises(TypeError, clear_true_singleton, {1: 2}), "indep: unhashable")
    check(
        A() is a and B() is b2 and C() is c and D() is d,
        "indep: still there after TypeError",
    )

    # clear all
    clear_true_singleton()
    a3, b3, c3, d3 = A(), B(), C(), D()
    check(
        a3 is not a and b3 is not b2 and c3 is not c and d3 is not d,
        "indep: clear-all makes all fresh",
    )
    check(A() is a3 and B() is b3 and C() is c3 and D() is d3, "indep: stable2")
    clear_true_singleton(None)
    check(A() is not a3, "indep: clear(None) is clear-all")
    # any falsy argument behaves like "no argument"
    for falsy in (0, False, "", (), [], {}, 0.0):
        x = (A(), B(), C(), D())
        clear_true_singleton(falsy)
        y = (A(), B(), C(), D())
        check(
            all(p is not q for p, q in zip(x, y)),
            f"indep: falsy {falsy!r} clears all",
        )
    clear_true_singleton()


def scripted_exceptions():
    clear_true_singleton()

    class MyBase(BaseException):
        pass

    log = []

    class S(metaclass=TrueSingleton):
        def __init__(self, exc=None, tag=None):
            log.append(tag)
            self.tag = tag
            if exc is not None:
                raise exc

    class Other(metaclass=TrueSingleton):
        pass

    o = Other()
    for i, exc in enumerate(
        [
            ValueError("v"),
            KeyError("k"),
            KeyboardInterrupt(),
            SystemExit(3),
            GeneratorExit(),
            MyBase(),
            StopIteration(),
            RecursionError(),
        ]
    ):
        try:
            S(exc, i)
        except BaseException as e:  # pylint: disable=broad-except
            check(e is exc, f"exc: same exception object {i}")
        else:
            check(False, f"exc: did not raise {i}")
        check(Other() is o, "exc: other class untouched")
    check(log == list(range(8)), "exc: every attempt ran __init__")
    good = S(None, "good")
    check(good.tag == "good" and log[-1] == "good", "exc: first good one wins")
    # now live: no more raising, whatever is passed
    check(S(ValueError("x"), "ignored") is good, "exc: live -> no raise")
    check(log[-1] == "good" and len(log) == 9, "exc: init not rerun")

    # __new__ raising
    class N(metaclass=TrueSingleton):
        fail = True

        def __new__(cls, *a, **k):
            if cls.fail:
                raise MyBase()
            return super().__new__(cls)

    check(raises(MyBase, N), "exc: __new__ raising")
    check(raises(MyBase, N), "exc: __new__ raising again")
    N.fail = False
    n = N()
    N.fail = True
    check(N() is n, "exc: __new__ not rerun once live")
    clear_true_singleton()


def scripted_odd_new():
    clear_true_singleton()
    inits = []

    # __new__ returning a foreign object: __init__ is skipped by type.__call__,
    # and that object (even None / a falsy one) is *the* instance
    class RetNone(metaclass=TrueSingleton):
        calls = 0

        def __new__(cls, *a):
            cls.calls += 1
            return None

        def __init__(self, *a):
            inits.append(a)

    class RetZero(metaclass=TrueSingleton):
        calls = 0

        def __new__(cls):
            cls.calls += 1
            return 0

    class RetList(metaclass=TrueSingleton):
        calls = 0

        def __new__(cls):
            cls.calls += 1
            return []

    class RetNaN(metaclass=TrueSingleton):
        def __new__(cls):
            return float("nan")

    check(RetNone(1) is None and RetNone(2) is None, "oddnew: None")
    check(RetNone.calls == 1 and inits == [], "oddnew: None built once")
    check(RetZero() == 0 and RetZero() == 0 and RetZero.calls == 1, "oddnew: 0")
    lst = RetList()
    check(lst == [] and RetList() is lst and RetList.calls == 1, "oddnew: []")
    nan = RetNaN()
    check(nan != nan and RetNaN() is nan, "oddnew: nan identity")
    clear_true_singleton(RetNone)
    check(RetNone() is None and RetNone.calls == 2, "oddnew: None rebuilt")
    check(RetList() is lst, "oddnew: list survived")
    clear_true_singleton()
    check(RetList() is not lst, "oddnew: list rebuilt")
    clear_true_singleton()


def scripted_reentrancy():
    clear_true_singleton()

    # __init__ constructing its own class again (bounded)
    class Rec(metaclass=TrueSingleton):
        depth = 0
        made = []

        def __init__(self):
            cls = type(self)
            cls.made.append(self)
            self.inner = None
            if cls.depth < 3:
                cls.depth += 1
                self.inner = cls()

    outer = Rec()
    check(len(Rec.made) == 4, "reent: four objects built")
    check(outer is Rec.made[0], "reent: outermost returned")
    check(outer.inner is Rec.made[1], "reent: inner calls return own object")
    check(Rec.made[1].inner is Rec.made[2], "reent: inner 2")
    check(Rec.made[2].inner is Rec.made[3], "reent: inner 3")
    check(Rec() is outer and len(Rec.made) == 4, "reent: outermost is the one")

    # __init__ clearing its own class: instance still recorded afterwards
    class SelfClear(metaclass=TrueSingleton):
        n = 0

        def __init__(self):
            type(self).n += 1
            clear_true_singleton(type(self))

    class Bystander(metaclass=TrueSingleton):
        pass

    by = Bystander()
    sc = SelfClear()
    check(SelfClear() is sc and SelfClear.n == 1, "reent: self-clear")
    check(Bystander() is by, "reent: bystander kept")

    # __init__ clearing everything: the new instance is still recorded,
    # everything else is gone
    class AllClear(metaclass=TrueSingleton):
        n = 0

        def __init__(self):
            type(self).n += 1
            clear_true_singleton()

    ac = AllClear()
    check(AllClear() is ac and AllClear.n == 1, "reent: all-clear recorded")
    check(Bystander() is not by, "reent: bystander cleared by all-clear")
    check(SelfClear() is not sc, "reent: self-clear class cleared too")
    by2 = Bystander()
    clear_true_singleton(AllClear)
    ac2 = AllClear()
    check(ac2 is not ac and AllClear() is ac2, "reent: all-clear again")
    check(Bystander() is not by2, "reent: bystander cleared again")

    # __init__ building *another* singleton class
    class Leaf(metaclass=TrueSingleton):
        n = 0

        def __init__(self):
            type(self).n += 1

    class Root(metaclass=TrueSingleton):
        def __init__(self):
            self.leaf = Leaf()

    r = Root()
    check(r.leaf is Leaf() and Leaf.n == 1, "reent: nested other class")
    clear_true_singleton(Root)
    r2 = Root()
    check(r2 is not r and r2.leaf is r.leaf and Leaf.n == 1, "reent: leaf kept")

    # a failing __init__ that built a nested singleton first leaves the nested
    # one in place and nothing for itself
    class Half(metaclass=TrueSingleton):
        def __init__(self, fail):
            self.leaf = Leaf()
            if fail:
                raise RuntimeError("half")

    clear_true_singleton(Leaf)
    check(raises(RuntimeError, Half, True), "reent: half raises")
    check(Leaf.n == 2, "reent: leaf rebuilt by failing ctor")
    lf = Leaf()
    check(Leaf.n == 2, "reent: leaf kept after failing ctor")
    h = Half(False)
    check(h.leaf is lf and Half(True) is h, "reent: half ok")
    clear_true_singleton()


def scripted_metaclasses():
    clear_true_singleton()
    order = []

    # sub-metaclass with its own __call__
    class Loud(TrueSingleton):
        def __call__(cls, *a, **k):
            order.append(("loud", cls.__name__, a))
            return super().__call__(*a, **k)

    class L(metaclass=Loud):
        def __init__(self, *a):
            order.append(("init", a))

    l1 = L(1)
    l2 = L(2)
    check(l1 is l2, "meta: sub-metaclass identity")
    check(
        order == [("loud", "L", (1,)), ("init", (1,)), ("loud", "L", (2,))],
        "meta: call order",
    )

    # cooperative metaclass between TrueSingleton and type
    del order[:]

    class Tail(type):
        def __call__(cls, *a, **k):
            order.append(("tail", a))
            return super().__call__(*a, **k)

    class Both(TrueSingleton, Tail):
        pass

    class Q(metaclass=Both):
        def __init__(self, *a):
            order.append(("init", a))

    q = Q("x")
    check(Q("y") is q, "meta: cooperative identity")
    check(order == [("tail", ("x",)), ("init", ("x",))], "meta: tail once")

    # metaclass whose classes are falsy: clear(cls) then means clear-all
    class Falsy(TrueSingleton):
        def __len__(cls):
            return 0

    class F(metaclass=Falsy):
        pass

    f = F()
    check(F() is f, "meta: falsy class identity")
    clear_true_singleton(L)
    check(F() is f and Q() is q, "meta: precise clear leaves others")
    clear_true_singleton(F)
    check(F() is not f and Q() is not q, "meta: falsy class clears all")

    # metaclass with counted __hash__: the table is keyed by the class itself
    class Counted(TrueSingleton):
        hashes = 0
        bools = 0

        def __hash__(cls):
            type(cls).hashes += 1
            return type.__hash__(cls)

        def __bool__(cls):
            type(cls).bools += 1
            return True

    class H(metaclass=Counted):
        pass

    Counted.hashes = 0
    h = H()
    miss = Counted.hashes
    Counted.hashes = 0
    check(H() is h, "meta: counted identity")
    hit = Counted.hashes
    Counted.hashes = 0
    Counted.bools = 0
    clear_true_singleton(H)
    clr = (Counted.hashes, Counted.bools)
    Counted.hashes = 0
    Counted.bools = 0
    clear_true_singleton(H)
    clr_absent = (Counted.hashes, Counted.bools)
    check(H() is not h, "meta: counted cleared")
    check(
        (miss, hit, clr, clr_absent) == (3, 2, (2, 1), (1, 1)),
        f"meta: hash/bool call counts {(miss, hit, clr, clr_absent)}",
    )

    # __bool__ raising: nothing happens
    class Grumpy(TrueSingleton):
        def __bool__(cls):
            raise OverflowError("no")

    class G(metaclass=Grumpy):
        pass

    g = G()
    check(raises(OverflowError, clear_true_singleton, G), "meta: bool raises")
    check(G() is g and F() is F(), "meta: untouched after bool raised")
    clear_true_singleton()
    check(G() is not g, "meta: grumpy cleared by clear-all")
    clear_true_singleton()


def scripted_lifetime():
    # a clear drops the table's reference to the instance: with no other
    # reference it dies right away (refcounting), both for clear(cls) and
    # clear-all; classes are not kept alive by a cleared table either
    clear_true_singleton()

    class W(metaclass=TrueSingleton):
        pass

    class V(metaclass=TrueSingleton):
        pass

    rw = weakref.ref(W())
    rv = weakref.ref(V())
    gc.collect()
    check(rw() is not None and rv() is not None, "life: table keeps alive")
    clear_true_singleton(W)
    check(rw() is None and rv() is not None, "life: clear(cls) releases")
    clear_true_singleton()
    check(rv() is None, "life: clear-all releases")

    def scope():
        class Temp(metaclass=TrueSingleton):
            pass

        Temp()
        return weakref.ref(Temp)

    rt = scope()
    gc.collect()
    check(rt() is not None, "life: class kept by table")
    clear_true_singleton()
    gc.collect()
    check(rt() is None, "life: class released by clear-all")


def scripted_threads_and_generators():
    clear_true_singleton()
    inits = []

    class T(metaclass=TrueSingleton):
        def __init__(self, tag):
            inits.append((tag, threading.current_thread().name))
            self.tag = tag

    t0 = in_thread(T, "worker")
    check(T("main") is t0 and t0.tag == "worker", "thr: built in worker")
    res = []
    ths = [
        threading.Thread(target=lambda i=i: res.append(T(i))) for i in range(16)
    ]
    for t in ths:
        t.start()
    for t in ths:
        t.join()
    check(len(res) == 16 and all(r is t0 for r in res), "thr: all same")
    check(len(inits) == 1, "thr: one init")
    in_thread(clear_true_singleton, T)
    t1 = T("again")
    check(t1 is not t0 and in_thread(T, "x") is t1, "thr: clear in worker")
    in_thread(clear_true_singleton)
    check(T("third") is not t1, "thr: clear-all in worker")

    # generator created long before consumption
    clear_true_singleton()

    def later():
        while True:
            yield T("gen")

    g = later()
    a = T("first")
    check(next(g) is a, "gen: sees live instance")
    clear_true_singleton(T)
    b = next(g)
    check(b is not a and b.tag == "gen" and T("z") is b, "gen: builds afresh")
    lazy = (T(i) for i in range(5))
    clear_true_singleton()
    got = list(lazy)
    check(all(x is got[0] for x in got) and got[0].tag == 0, "gen: genexpr")
    clear_true_singleton()


class SingleTex(vertex.Vertex, metaclass=TrueSingleton):
    def __init__(self, i, *args, **kwargs):
        super().__init__(*args, **kwargs)
        self.i = i


class SubTex(SingleTex):
    __slots__ = ("extra",)


def scripted_vertices():
    for caching in (False, True):
        vertex.Vertex.NEIGHBOR_CACHING = caching
        try:
            clear_true_singleton()
            uni = universe.Universe()
            st = SingleTex(1, universes=[uni], attributes={"nan": float("nan")})
            st_b = SingleTex(2)
            sub = SubTex(3, universes=[uni])
            plain = vertex.Vertex(universes=[uni])
            check(st is st_b and st.i == 1, "vert: singleton vertex")
            check(sub is not st and SubTex(9) is sub, "vert: sub vertex")
            check(st.nan != st.nan, "vert: nan attribute")
            directededge.DirectedEdge(st, plain)
            directededge.DirectedEdge(plain, sub)
            directededge.DirectedEdge(st, st)  # self loop
            directededge.DirectedEdge(SingleTex("ignored"), SubTex("ignored"))
            nb = helpers.neighbors(st)
            check(
                len(nb) == 3 and nb[0] is plain and nb[1] is st and nb[2] is sub,
                f"vert: neighbors {caching}",
            )
            check(st in uni.vertices and sub in uni.vertices, "vert: in uni")

            vnames = sorted(n for n in vars(st) if not n.startswith("_"))
            for dumper in (
                lambda o: pickle.loads(pickle.dumps(o)),
                lambda o: pickle.loads(nrpickler.dumps(o)),
                copy.deepcopy,
            ):
                cp = dumper([st, SingleTex(5), sub, plain, uni])
                check(cp[0] is cp[1], "vert: copy keeps sharing")
                check(cp[0] is not st and cp[2] is not sub, "vert: copy is new")
                check(type(cp[0]) is SingleTex and cp[0].i == 1, "vert: copy ty")
                check(SingleTex(7) is st, "vert: copy did not replace the one")
                check(SubTex(7) is sub, "vert: copy did not replace the sub")
                check(
                    sorted(n for n in vars(cp[0]) if not n.startswith("_"))
                    == vnames,
                    "vert: copy vars",
                )
                # mutate + query the copy
                cnb = helpers.neighbors(cp[0])
                check(
                    len(cnb) == 3
                    and cnb[0] is cp[3]
                    and cnb[1] is cp[0]
                    and cnb[2] is cp[2],
                    "vert: copy neighbors",
                )
                extra = vertex.Vertex(universes=[cp[4]])
                directededge.DirectedEdge(cp[0], extra)
                check(helpers.neighbors(cp[0])[-1] is extra, "vert: copy mut")
                check(len(helpers.neighbors(st)) == 3, "vert: orig unchanged")
                cp[0].i = "changed"
                check(st.i == 1, "vert: orig attr unchanged")

            clear_true_singleton(SingleTex)
            st2 = SingleTex(10)
            check(st2 is not st and st2.i == 10, "vert: fresh vertex")
            check(SubTex(0) is sub, "vert: sub survived")
            check(len(helpers.neighbors(st2)) == 0, "vert: fresh has no links")
            check(len(helpers.neighbors(st)) == 3, "vert: old keeps links")
        finally:
            vertex.Vertex.NEIGHBOR_CACHING = False
            clear_true_singleton()


###############################################################################
# random differential part: an independent model of the property statement


class Boom(BaseException):
    pass


def build_pool():
    counts = {}

    def init(self, *args, **kwargs):
        cls = type(self)
        counts[cls] = counts.get(cls, 0) + 1
        self.init_args = (args, dict(kwargs))
        exc = kwargs.get("boom")
        if exc is not None:
            raise exc

    class A(metaclass=TrueSingleton):
        __init__ = init

    class B(A):
        pass

    class C(B):
        __slots__ = ("zzz",)

    class B2(A):
        pass

    class D(metaclass=TrueSingleton):
        __init__ = init

    class Sub(TrueSingleton):
        pass

    class E(metaclass=Sub):
        __init__ = init

    class F(E, D):
        pass

    class VS(vertex.Vertex, metaclass=TrueSingleton):
        def __init__(self, *args, **kwargs):
            super().__init__()
            init(self, *args, **kwargs)

    class Plain:
        pass

    return [A, B, C, B2, D, E, F, VS], counts, Plain


def rand_args(rng):
    pool = [0, 1, -1, None, "s", (), float("nan"), 3.5, "boomless", b"x"]
    args = tuple(rng.choice(pool) for _ in range(rng.randrange(0, 4)))
    kwargs = {
        rng.choice(["k", "foo", "bar", "self_", "args", "kwargs"]): rng.choice(pool)
        for _ in range(rng.randrange(0, 3))
    }
    return args, kwargs


def random_history(seed, nops):
    rng = random.Random(seed)
    clear_true_singleton()
    classes, counts, Plain = build_pool()
    live = {}  # the model: class -> its one instance
    expected_counts = {}
    everything = []  # keep every object alive so ids / identities stay unique
    pending_gens = []

    def run(fn, *a, **k):
        if rng.random() < 0.15:
            return in_thread(fn, *a, **k)
        return fn(*a, **k)

    def do_construct(cls, args, kwargs, where):
        exc = kwargs.get("boom")
        try:
            got = run(cls, *args, **kwargs)
        except BaseException as e:  # pylint: disable=broad-except
            if cls in live or exc is None or e is not exc:
                check(False, f"[{seed}] {where}: unexpected {e!r}")
                return
            expected_counts[cls] = expected_counts.get(cls, 0) + 1
            check(cls not in live, f"[{seed}] {where}: raise only when absent")
            return
        if cls in live:
            check(got is live[cls], f"[{seed}] {where}: same object")
        else:
            check(exc is None, f"[{seed}] {where}: boom must raise when absent")
            check(
                all(got is not o for o in everything),
                f"[{seed}] {where}: fresh object",
            )
            check(type(got) is cls, f"[{seed}] {where}: exact type")
            expected_counts[cls] = expected_counts.get(cls, 0) + 1
            ia = got.init_args
            check(
                len(ia[0]) == len(args)
                and all(x is y for x, y in zip(ia[0], args))
                and list(ia[1]) == list(kwargs)
                and all(ia[1][q] is kwargs[q] for q in kwargs),
                f"[{seed}] {where}: init saw this call's arguments",
            )
            live[cls] = got
            everything.append(got)

    for step in range(nops):
        where = f"step {step}"
        r = rng.random()
        cls = rng.choice(classes)
        if r < 0.45:
            args, kwargs = rand_args(rng)
            do_construct(cls, args, kwargs, where)
        elif r < 0.55:
            args, kwargs = rand_args(rng)
            kwargs["boom"] = rng.choice(
                [Boom(), ValueError("b"), KeyboardInterrupt(), GeneratorExit()]
            )
            do_construct(cls, args, kwargs, where)
        elif r < 0.75:
            run(clear_true_singleton, cls)
            live.pop(cls, None)
        elif r < 0.80:
            how = rng.randrange(4)
            if how == 0:
                run(clear_true_singleton)
            elif how == 1:
                run(clear_true_singleton, None)
            elif how == 2:
                run(clear_true_singleton, cls=None)
            else:
                run(clear_true_singleton, rng.choice([0, "", False, ()]))
            live.clear()
        elif r < 0.88:
            # harmless clears
            junk = rng.choice(
                [Plain, Plain(), 17, "txt", int, TrueSingleton, (cls,), object]
            )
            run(clear_true_singleton, junk)
            if live and rng.random() < 0.5:
                # an instance is not its class
                run(clear_true_singleton, rng.choice(list(live.values())))
        elif r < 0.94:
            # a generator made now, consumed later
            gcls = cls

            def gen(gcls=gcls):
                got = gcls("from-gen")
                yield got

            pending_gens.append((gcls, gen()))
        else:
            if pending_gens:
                gcls, g = pending_gens.pop(rng.randrange(len(pending_gens)))
                got = next(g)
                if gcls in live:
                    check(got is live[gcls], f"[{seed}] {where}: gen same")
                else:
                    check(
                        all(got is not o for o in everything),
                        f"[{seed}] {where}: gen fresh",
                    )
                    check(
                        got.init_args == (("from-gen",), {}),
                        f"[{seed}] {where}: gen args",
                    )
                    expected_counts[gcls] = expected_counts.get(gcls, 0) + 1
                    live[gcls] = got
                    everything.append(got)

        if step % 7 == 0:
            # probing a live class is side-effect free
            for c in classes:
                if c in live:
                    check(c("probe") is live[c], f"[{seed}] {where}: probe")
            check(
                {c: n for c, n in counts.items()} == expected_counts,
                f"[{seed}] {where}: init counts {counts} vs {expected_counts}",
            )

    # final sweep: every class answers as the model says
    for c in classes:
        do_construct(c, ("final",), {}, "final")
    for c in classes:
        check(c() is live[c], f"[{seed}] final: stable")
    check(counts == expected_counts, f"[{seed}] final: init counts")
    check(len(set(map(id, live.values()))) == len(classes), "final: distinct")
    clear_true_singleton()
    for c in classes:
        check(c("post") is not live[c], f"[{seed}] final: clear-all")
    clear_true_singleton()


###############################################################################
# reload: kept last, since it replaces the module's objects


def scripted_reload():
    clear_true_singleton()

    class Old(metaclass=TrueSingleton):
        pass

    old = Old()
    mod = importlib.reload(singleton)
    check(mod.TrueSingleton is not TrueSingleton, "reload: new metaclass")
    # classes of the earlier metaclass keep their instance, and the reloaded
    # module's clear does not reach them
    check(Old() is old, "reload: old class keeps instance")
    mod.clear_true_singleton()
    mod.clear_true_singleton(Old)
    check(Old() is old, "reload: new clear does not reach old table")

    class New(metaclass=mod.TrueSingleton):
        pass

    n = New()
    check(New() is n, "reload: new class works")
    mod.clear_true_singleton(New)
    check(New() is not n, "reload: new clear works")
    mod.clear_true_singleton()


def main():
    scripted_basic()
    scripted_classes_independent()
    scripted_exceptions()
    scripted_odd_new()
    scripted_reentrancy()
    scripted_metaclasses()
    scripted_lifetime()
    scripted_threads_and_generators()
    scripted_vertices()
    for seed in range(60):
        random_history(1800 + seed, 400)
    random_history(18, 5000)
    scripted_reload()
    print(f"{NCHECKS[0]} checks, {len(FAILS)} failures")
    return 1 if FAILS else 0


if __name__ == "__main__":
    sys.exit(main())
