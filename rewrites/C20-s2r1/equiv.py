#!/usr/bin/env python3
# -*- coding: utf-8 -*-
"""
Equivalence / conformance program for property C20

    "randgraph always returns a universe of exactly `count` well-formed
     vertices"

and for the two functions it is built from:

    edgegraph.builder.randgraph.randgraph
    edgegraph.builder.adjlist.load_adj_dict

Only the public API of edgegraph (and of the stdlib ``random`` module) is used.
The program has a scripted part (corner cases, callbacks that observe or raise,
odd-but-legal arguments) and a seeded random differential part.  The oracle is
written from the property statement and from the documentation of the two
functions; it never imports anything from the library:

* ``predict_rows`` replays the documented sampling mechanism on a *private*
  ``random.Random`` instance cloned from the global generator, drawing indices
  from ``range(count)`` instead of vertices;
* ``simulate`` replays the documented adjacency-dictionary semantics on plain
  integers (order of universe membership, order of each vertex' links, who
  shares which link).

Run from the worktree root:

    PYTHONPATH=/tmp/r2/C20 /venv/bin/python equiv.py

Exit status 0 <=> everything matched.
"""

from __future__ import annotations

import collections
import inspect
import pickle
import random
import sys
import types
from fractions import Fraction

from edgegraph.structure import (
    Vertex,
    Universe,
    DirectedEdge,
    UnDirectedEdge,
    TwoEndedLink,
)
from edgegraph.builder import adjlist
from edgegraph.builder import randgraph as rgmod
from edgegraph.builder.randgraph import randgraph
from edgegraph.builder.adjlist import load_adj_dict
from edgegraph.traversal import helpers
from edgegraph.output import nrpickler

CHECKS = 0


def check(cond, msg):
    """Count and enforce one expectation."""
    global CHECKS
    CHECKS += 1
    if not cond:
        raise AssertionError(msg)


def same_objects(actual, expected):
    """Both sequences hold the very same objects in the same order."""
    actual = list(actual)
    expected = list(expected)
    return len(actual) == len(expected) and all(
        a is b for a, b in zip(actual, expected)
    )


###############################################################################
# oracle
###############################################################################


def clone_global():
    """A private generator in the same state as the module-level one."""
    rnd = random.Random()
    rnd.setstate(random.getstate())
    return rnd


def predict_rows(rnd, count, connectivity, ensurelink):
    """
    Replay the sampling mechanism of the property statement on ``rnd``.

    Returns ``(rows, mid_states)``: ``rows[i]`` is the list of vertex numbers
    vertex ``i`` gets linked to; ``mid_states[i]`` is the generator state
    between the randint and the sample of vertex ``i``.  Raises whatever the
    mechanism raises, at the same point of the random stream.
    """
    total = len(range(count))
    if connectivity is None:
        connectivity = 5 / count
    rows = []
    mid_states = []
    for i in range(total):
        upper = i if i > 1 else 1
        draw = rnd.randrange(1, upper + 1)  # == randint(1, upper)
        want = int(draw * connectivity)
        mid_states.append(rnd.getstate())
        if ensurelink and want < 1:
            want = 1
        if count < want:
            want = count
        rows.append(rnd.sample(range(total), want))
    return rows, mid_states


class Sim:
    """
    Replay of the adjacency-dictionary semantics on hashable tokens.

    ``order``  -- membership order of the new universe
    ``links``  -- (src, dst) per created link, in creation order
    ``per``    -- token -> numbers of the links appended to that vertex
    ``snaps``  -- (src, position, links-of-src-so-far, members-so-far) taken
                  each time the value iterable of ``src`` is asked for its
                  next element (including the final, exhausting request)
    ``events`` -- ("add", token) / ("link", src, dst) in call order
    """

    def __init__(self):
        self.order = []
        self.links = []
        self.per = collections.defaultdict(list)
        self.snaps = []
        self.events = []

    def add(self, tok):
        self.events.append(("add", tok))
        if tok not in self.order:
            self.order.append(tok)

    def link(self, src, dst):
        self.events.append(("link", src, dst))
        num = len(self.links)
        self.links.append((src, dst))
        self.per[src].append(num)
        if dst != src:
            self.per[dst].append(num)

    def run(self, rows, stop_after_events=None):
        """rows: iterable of (src, [dst, ...])."""
        for src, targets in rows:
            self.add(src)
            pos = -1
            for pos, dst in enumerate(targets):
                self.snaps.append(
                    (src, pos, len(self.per[src]), len(self.order))
                )
                self.link(src, dst)
                self.add(dst)
            self.snaps.append(
                (src, pos + 1, len(self.per[src]), len(self.order))
            )
        return self


def verify_graph(uni, objs, sim, linktype, pre_links=None, pre_unis=None):
    """
    Compare a real universe against a simulation.

    ``objs`` maps simulation tokens to the real vertex objects.
    """
    pre_links = pre_links or {}
    pre_unis = pre_unis or {}
    check(
        same_objects(uni.vertices, [objs[t] for t in sim.order]),
        "universe membership / order differs from the adjacency semantics",
    )
    seen = {}
    for tok, vert in objs.items():
        before = pre_links.get(tok, ())
        actual = vert.links
        expected_nums = sim.per.get(tok, [])
        check(
            len(actual) == len(before) + len(expected_nums),
            f"vertex {tok!r}: {len(actual)} links, expected "
            f"{len(before) + len(expected_nums)}",
        )
        check(
            same_objects(actual[: len(before)], before),
            f"vertex {tok!r}: pre-existing links disturbed",
        )
        for lnk, num in zip(actual[len(before) :], expected_nums):
            src, dst = sim.links[num]
            check(type(lnk) is linktype, f"link {num} has type {type(lnk)}")
            check(
                same_objects(lnk.vertices, (objs[src], objs[dst])),
                f"link {num} has the wrong ends",
            )
            check(lnk.v1 is objs[src] and lnk.v2 is objs[dst], "v1/v2 wrong")
            check(lnk.universes == [], "links are not put into universes")
            if num in seen:
                check(seen[num] is lnk, f"link {num} not shared by its ends")
            else:
                seen[num] = lnk
        if tok in sim.order:
            check(
                same_objects(vert.universes, list(pre_unis.get(tok, [])) + [uni]),
                f"vertex {tok!r}: universes wrong",
            )
        else:
            check(
                same_objects(vert.universes, list(pre_unis.get(tok, []))),
                f"vertex {tok!r}: universes wrong (not a member)",
            )
    check(len(seen) == len(sim.links), "some link was never seen on a vertex")
    check(
        len({id(x) for x in seen.values()}) == len(sim.links),
        "two created links are the same object",
    )
    return seen


def verify_universe_shell(uni):
    """What a freshly built universe looks like from outside."""
    check(type(uni) is Universe, "result is not a plain Universe")
    check(uni.links == (), "the universe itself must not be linked")
    check(uni.universes == [], "the universe must not be inside a universe")
    check(uni.laws is not None and uni.laws.applies_to is uni, "laws wrong")
    check(
        {k for k in vars(uni) if not k.startswith("_")} == set(),
        "public attributes appeared on the universe",
    )


def verify_randgraph(uni, count, rows, edge, linktype=None):
    """Full check of a randgraph result against predicted rows."""
    total = len(range(count))
    verify_universe_shell(uni)
    members = uni.vertices
    # --- the property statement, literally
    check(len(members) == total, f"{len(members)} vertices, wanted {total}")
    check(
        sorted(v.i for v in members) == list(range(total)),
        "vertices do not carry i = 0 .. count-1",
    )
    inside = {id(v) for v in members}
    for vert in members:
        check(type(vert) is Vertex, "member is not a plain Vertex")
        check(
            {k: v for k, v in vars(vert).items() if not k.startswith("_")}
            == {"i": vert.i},
            "public attributes of a member are not exactly {'i': i}",
        )
        for lnk in vert.links:
            check(isinstance(lnk, TwoEndedLink), "not a two-ended link")
            check(len(lnk.vertices) == 2, "link does not have two ends")
            check(
                id(lnk.v1) in inside and id(lnk.v2) in inside,
                "link end outside the universe",
            )
    # --- exact shape
    objs = {v.i: v for v in members}
    sim = Sim().run(list(enumerate(rows)))
    seen = verify_graph(uni, objs, sim, linktype or edge)
    return objs, sim, seen


def shape_of(uni):
    """Identity-free description of a randgraph universe."""
    return [
        (v.i, [(type(l).__name__, l.v1.i, l.v2.i) for l in v.links])
        for v in uni.vertices
    ]


def outcome(func, *args, **kwargs):
    """('ok', value) or ('exc', exception class)."""
    try:
        return ("ok", func(*args, **kwargs))
    # the whole point is to compare arbitrary failures
    except BaseException as exc:  # pylint: disable=broad-except
        return ("exc", type(exc))


###############################################################################
# randgraph: scripted part
###############################################################################


def rg_case(seed, count, edge, connectivity, ensurelink, how="kw"):
    """One differential run of randgraph against the oracle."""
    random.seed(seed)
    rnd = clone_global()
    want = outcome(predict_rows, rnd, count, connectivity, ensurelink)

    random.seed(seed)
    if how == "kw":
        got = outcome(
            randgraph,
            count=count,
            edge=edge,
            connectivity=connectivity,
            ensurelink=ensurelink,
        )
    else:
        got = outcome(randgraph, count, edge, connectivity, ensurelink)

    check(
        got[0] == want[0],
        f"randgraph{(count, edge, connectivity, ensurelink)}: {got} vs {want}",
    )
    check(
        random.getstate() == rnd.getstate(),
        "randgraph consumed the random stream differently from the mechanism "
        f"for {(seed, count, connectivity, ensurelink)}",
    )
    if got[0] == "exc":
        check(got[1] is want[1], f"exception {got[1]} instead of {want[1]}")
        return None
    rows = want[1][0]
    uni = got[1]
    verify_randgraph(uni, count, rows, edge)
    if ensurelink:
        for vert in uni.vertices:
            check(
                any(l.v1 is vert for l in vert.links),
                "ensurelink: a vertex is v1 of no link",
            )
    return uni


def scripted_randgraph():
    """Corner cases of randgraph."""
    # public signature is part of the API
    sig = inspect.signature(randgraph)
    check(
        [
            (p.name, p.kind, p.default)
            for p in sig.parameters.values()
        ]
        == [
            ("count", inspect.Parameter.POSITIONAL_OR_KEYWORD, 15),
            ("edge", inspect.Parameter.POSITIONAL_OR_KEYWORD, DirectedEdge),
            ("connectivity", inspect.Parameter.POSITIONAL_OR_KEYWORD, None),
            ("ensurelink", inspect.Parameter.POSITIONAL_OR_KEYWORD, True),
        ],
        "randgraph signature changed",
    )
    check(rgmod.randgraph is randgraph, "module attribute differs")

    # defaults
    random.seed(1234)
    rnd = clone_global()
    rows, _ = predict_rows(rnd, 15, None, True)
    random.seed(1234)
    uni = randgraph()
    check(random.getstate() == rnd.getstate(), "default call: stream differs")
    verify_randgraph(uni, 15, rows, DirectedEdge)

    # each call gives a new universe, reproducible by seeding
    random.seed(99)
    uni_a = randgraph(20)
    random.seed(99)
    uni_b = randgraph(20)
    check(uni_a is not uni_b, "same universe returned twice")
    check(shape_of(uni_a) == shape_of(uni_b), "not reproducible under seeding")
    check(
        not {id(v) for v in uni_a.vertices} & {id(v) for v in uni_b.vertices},
        "two calls share vertices",
    )

    # degenerate counts
    for count in (0, -1, -7, False):
        for conn in (0, 0.5, 1):
            for ens in (True, False):
                uni = rg_case(5, count, DirectedEdge, conn, ens)
                check(uni is not None and uni.vertices == [], "not empty")
    # default connectivity divides by count
    for how in ("kw", "pos"):
        random.seed(3)
        before = random.getstate()
        got = outcome(randgraph, 0)
        check(got == ("exc", ZeroDivisionError), f"randgraph(0): {got}")
        check(random.getstate() == before, "randgraph(0) drew random numbers")
        rg_case(3, 0, DirectedEdge, None, True, how)
        # negative count, default connectivity: no vertices, no error
        uni = rg_case(3, -4, DirectedEdge, None, True, how)
        check(uni.vertices == [], "negative count")
    # bool count
    rg_case(8, True, UnDirectedEdge, None, True)
    rg_case(8, True, UnDirectedEdge, 1, False)
    rg_case(8, True, UnDirectedEdge, 0, False)

    # counts that are not integers at all
    for bad in (2.0, None, "3", [3], 2.5, object()):
        random.seed(4)
        before = random.getstate()
        got = outcome(randgraph, bad, DirectedEdge, 0.5, True)
        check(got == ("exc", TypeError), f"randgraph({bad!r}): {got}")
        check(random.getstate() == before, "bad count drew random numbers")
        got = outcome(randgraph, count=bad)
        check(got == ("exc", TypeError), f"randgraph(count={bad!r}): {got}")

    # small counts, every flag combination, many seeds
    edges = (DirectedEdge, UnDirectedEdge, TwoEndedLink)
    conns = (None, 0, 0.0, 1, 1.0, 0.5, 0.25, 1e-9, 0.999999, True, False,
             Fraction(1, 3), Fraction(1, 1))
    flags = (True, False, None, 1, 0, "yes", "", [0], [])
    for count in range(1, 9):
        for conn in conns:
            for ens in flags:
                edge = edges[(count + len(repr(conn))) % 3]
                rg_case(count * 31 + len(repr(ens)), count, edge, conn, ens,
                        "kw" if count % 2 else "pos")

    # connectivity outside the documented range, and non-numbers
    weird = (
        2.5, 3, 100, 1e6, 10**30,          # more than the population: capped
        -1.0, -0.3, -5, Fraction(-7, 2),   # negative
        float("nan"), float("inf"), float("-inf"),
        "ab", "1", "", [1], (), b"2", object(), 1j, {},
    )
    for conn in weird:
        for ens in (True, False):
            for count in (1, 2, 5, 12):
                rg_case(17 + count, count, DirectedEdge, conn, ens)

    # bigger graphs: both branches of random.sample (pool / set tracking)
    for count, conn in ((30, 0.1), (64, 0.05), (64, 1), (120, None),
                        (200, 0.02), (200, 0.5), (333, None)):
        for ens in (True, False):
            rg_case(count, count, UnDirectedEdge, conn, ens)


class IntLike:
    """Not an int, but usable wherever randgraph uses ``count``."""

    def __init__(self, val):
        self.val = val

    def __index__(self):
        return self.val

    def __rtruediv__(self, other):
        return other / self.val

    def __lt__(self, other):
        return self.val < other

    def __gt__(self, other):
        return self.val > other


def scripted_intlike_count():
    """A count that merely implements __index__ (like numpy integers)."""
    for seed in range(6):
        for conn in (None, 0.2, 0):
            for ens in (True, False):
                random.seed(seed)
                rnd = clone_global()
                rows, _ = predict_rows(rnd, 9, conn, ens)
                random.seed(seed)
                uni = randgraph(IntLike(9), UnDirectedEdge, conn, ens)
                check(random.getstate() == rnd.getstate(), "IntLike: stream")
                verify_randgraph(uni, 9, rows, UnDirectedEdge)


def scripted_random_spies():
    """Which random.* functions are called, in which order, with what."""
    names = [
        n
        for n in dir(random)
        if not n.startswith("_")
        and isinstance(getattr(random, n), types.MethodType)
        and n not in ("getstate", "setstate", "seed")
    ]
    originals = {n: getattr(random, n) for n in names}
    for count, conn, ens in (
        (1, None, True), (2, 0, False), (7, None, True), (7, 1, False),
        (25, 0.3, True), (40, None, False), (0, 1, True),
    ):
        calls = []

        def make_spy(name, calls=calls):
            def spy(*args, **kwargs):
                calls.append((name, args, kwargs, random.getstate()))
                return originals[name](*args, **kwargs)

            return spy

        random.seed(count * 7 + 1)
        rnd = clone_global()
        rows, mids = predict_rows(rnd, count, conn, ens)
        random.seed(count * 7 + 1)
        start_state = random.getstate()
        try:
            for name in names:
                setattr(random, name, make_spy(name))
            uni = randgraph(count, DirectedEdge, conn, ens)
        finally:
            for name in names:
                setattr(random, name, originals[name])

        check(random.getstate() == rnd.getstate(), "spied call: stream")
        verify_randgraph(uni, count, rows, DirectedEdge)
        check(len(calls) == 2 * count, f"{len(calls)} random.* calls")
        population = None
        for i in range(count):
            name, args, kwargs, _state = calls[2 * i]
            check(name == "randint", f"call {2 * i} is {name}")
            check(args == (1, max(1, i)) and not kwargs, f"randint{args}")
            check(type(args[1]) is int, "randint upper bound type")
            name, args, kwargs, state = calls[2 * i + 1]
            check(name == "sample", f"call {2 * i + 1} is {name}")
            check(len(args) == 2 and not kwargs, "sample call shape")
            check(state == mids[i], "sample called at another stream point")
            if population is None:
                population = args[0]
            check(args[0] is population, "population list is not reused")
            check(type(args[0]) is list, "population is not a list")
            check(args[1] == len(rows[i]), "sample size differs")
            check(type(args[1]) is int, "sample size is not an int")
        if count:
            check(calls[0][3] == start_state, "something drew before randint")
            check(
                same_objects(
                    population, sorted(uni.vertices, key=lambda v: v.i)
                ),
                "population is not the list of vertices 0 .. count-1",
            )


class Flag:
    """An ensurelink argument that watches its own truth tests."""

    def __init__(self, value):
        self.value = value
        self.seen = []

    def __bool__(self):
        self.seen.append(random.getstate())
        return self.value


class Conn:
    """A connectivity argument that watches its multiplications."""

    def __init__(self, factor):
        self.factor = factor
        self.seen = []

    def __rmul__(self, other):
        self.seen.append((other, type(other), random.getstate()))
        return other * self.factor


def scripted_argument_callbacks():
    """ensurelink.__bool__ and connectivity.__rmul__ are user code."""
    for seed in range(5):
        for count in (0, 1, 2, 6, 19):
            for value in (True, False):
                for factor in (0.0, 0.4, 1.0):
                    random.seed(seed)
                    rnd = clone_global()
                    rows, mids = predict_rows(rnd, count, factor, value)
                    # replay the draws for the expectation on Conn
                    random.seed(seed)
                    flag, conn = Flag(value), Conn(factor)
                    uni = randgraph(count, UnDirectedEdge, conn, flag)
                    check(random.getstate() == rnd.getstate(), "stream")
                    verify_randgraph(uni, count, rows, UnDirectedEdge)
                    check(
                        flag.seen == mids,
                        "ensurelink is not truth-tested once per vertex, "
                        "between randint and sample",
                    )
                    check(
                        [s[2] for s in conn.seen] == mids,
                        "connectivity is not multiplied once per vertex, "
                        "right after randint",
                    )
                    for i, (draw, kind, _) in enumerate(conn.seen):
                        check(kind is int, "randint result type")
                        check(1 <= draw <= max(1, i), "randint result range")


class Grenade:
    """
    Usable as count, connectivity or ensurelink; its n-th use as such raises.

    The exception classes include StopIteration, which must come out
    unchanged (it would not, were it raised inside a generator).
    """

    def __init__(self, value, nth, exc):
        self.value = value
        self.nth = nth
        self.exc = exc
        self.uses = 0

    def _use(self):
        self.uses += 1
        if self.uses == self.nth:
            raise self.exc("grenade")
        return self.value

    def __bool__(self):
        return bool(self._use())

    def __rmul__(self, other):
        return other * self._use()

    def __index__(self):
        return self._use()

    def __lt__(self, other):
        return self.value < other


def scripted_raising_arguments():
    """Argument callbacks that raise: same exception, same stream position."""
    excs = (StopIteration, StopAsyncIteration, GeneratorExit, ZeroDivisionError,
            KeyError)
    for exc in excs:
        for nth in (1, 2, 5, 9):
            for role in ("ensurelink", "connectivity", "count"):
                count = 9
                random.seed(nth)
                rnd = clone_global()
                if role == "count":
                    # uses: range() for the vertices, range() for the rows
                    if nth > 2:
                        continue
                    draws = 0
                    args = (Grenade(count, nth, exc), DirectedEdge, 0.5, True)
                elif role == "connectivity":
                    draws = nth
                    args = (count, DirectedEdge, Grenade(0.5, nth, exc), True)
                else:
                    draws = nth
                    args = (count, DirectedEdge, 0.5, Grenade(True, nth, exc))
                # stream position: `draws` randint calls, `draws - 1` samples
                _, mids = predict_rows(rnd, count, 0.5, True)
                random.seed(nth)
                start = random.getstate()
                got = outcome(randgraph, *args)
                check(got == ("exc", exc), f"{role} raising {exc}: {got}")
                check(
                    random.getstate() == (mids[draws - 1] if draws else start),
                    f"{role} raising on use {nth}: stream position differs",
                )

    # random.* replaced by something that raises
    for exc in (StopIteration, ValueError):
        for name, nth in (("randint", 1), ("randint", 4), ("sample", 1),
                          ("sample", 3)):
            original = getattr(random, name)
            used = []

            def bomb(*args, original=original, used=used, nth=nth, exc=exc):
                used.append(args)
                if len(used) == nth:
                    raise exc("bomb")
                return original(*args)

            random.seed(5)
            rnd = clone_global()
            rows, mids = predict_rows(rnd, 7, None, True)
            random.seed(5)
            start = random.getstate()
            try:
                setattr(random, name, bomb)
                got = outcome(randgraph, 7)
            finally:
                setattr(random, name, original)
            check(got == ("exc", exc), f"raising random.{name}: {got}")
            if name == "sample":
                # the n-th sample comes right after the n-th randint
                want = mids[nth - 1]
            elif nth == 1:
                want = start
            else:
                # the n-th randint comes right after the sample before it
                replay = random.Random()
                replay.setstate(mids[nth - 2])
                replay.sample(range(7), len(rows[nth - 2]))
                want = replay.getstate()
            check(random.getstate() == want, f"raising random.{name}: stream")


class SpyEdge(DirectedEdge):
    """Records every construction, then behaves like a DirectedEdge."""

    log = []
    boom_at = None
    boom_late = False

    def __init__(self, v1=None, v2=None, **kwargs):
        cls = type(self)
        cls.log.append((v1, v2, random.getstate()))
        if cls.boom_at == len(cls.log) and not cls.boom_late:
            raise KeyError("boom-early")
        super().__init__(v1, v2, **kwargs)
        if cls.boom_at == len(cls.log) and cls.boom_late:
            raise LookupError("boom-late")


class DrawEdge(UnDirectedEdge):
    """An edge type that uses the random module itself."""

    def __init__(self, v1=None, v2=None, **kwargs):
        super().__init__(v1, v2, **kwargs)
        self.draw = random.random()


def scripted_edge_callbacks():
    """The edge type is called after *all* sampling; failures leave state."""
    # 1. observing edge
    for seed, count, conn in ((1, 1, None), (2, 5, None), (3, 12, 0.5),
                              (4, 30, None), (5, 9, 1)):
        random.seed(seed)
        rnd = clone_global()
        rows, _ = predict_rows(rnd, count, conn, True)
        SpyEdge.log, SpyEdge.boom_at = [], None
        random.seed(seed)
        uni = randgraph(count, SpyEdge, conn, True)
        _, sim, _ = verify_randgraph(uni, count, rows, SpyEdge)
        check(
            [(a.i, b.i) for a, b, _ in SpyEdge.log] == sim.links,
            "edge constructor calls differ in number or order",
        )
        check(
            all(st == rnd.getstate() for _, _, st in SpyEdge.log),
            "an edge was built before all sampling was finished",
        )

    # 2. edge that raises on its n-th construction (before / after attaching)
    for late in (False, True):
        for seed, count, conn, nth in ((1, 1, None, 1), (2, 6, None, 1),
                                       (3, 6, None, 4), (4, 15, 0.6, 9),
                                       (5, 15, None, 23), (6, 4, 1, 2)):
            random.seed(seed)
            rnd = clone_global()
            rows, _ = predict_rows(rnd, count, conn, True)
            full = Sim().run(list(enumerate(rows)))
            if nth > len(full.links):
                continue
            SpyEdge.log, SpyEdge.boom_at, SpyEdge.boom_late = [], nth, late
            random.seed(seed)
            got = outcome(randgraph, count, SpyEdge, conn, True)
            SpyEdge.boom_at = None
            check(
                got == ("exc", LookupError if late else KeyError),
                f"raising edge: {got}",
            )
            check(
                random.getstate() == rnd.getstate(),
                "raising edge: random stream position differs",
            )
            check(len(SpyEdge.log) == nth, "constructor called after failure")
            check(
                [(a.i, b.i) for a, b, _ in SpyEdge.log] == full.links[:nth],
                "raising edge: constructor calls differ",
            )
            # the half-built graph is reachable through the recorded vertices
            # replay the partial history
            part = Sim()
            done = 0
            try:
                for src, targets in enumerate(rows):
                    part.add(src)
                    for dst in targets:
                        done += 1
                        if done == nth and not late:
                            raise StopIteration
                        part.link(src, dst)
                        if done == nth:
                            raise StopIteration
                        part.add(dst)
            except StopIteration:
                pass
            objs = {}
            for a, b, _ in SpyEdge.log:
                objs[a.i] = a
                objs[b.i] = b
            first = SpyEdge.log[0][0]
            check(len(first.universes) == 1, "origin not in one universe")
            uni = first.universes[0]
            for vert in uni.vertices:
                objs[vert.i] = vert
            check(
                sorted(t for t in objs if t in part.order) == sorted(part.order),
                "partial graph: member missing",
            )
            verify_graph(uni, objs, part, SpyEdge)

    # 3. edge that draws random numbers itself
    for seed, count in ((1, 3), (2, 10), (3, 26)):
        random.seed(seed)
        rnd = clone_global()
        rows, _ = predict_rows(rnd, count, None, True)
        draws = [rnd.random() for row in rows for _ in row]
        random.seed(seed)
        uni = randgraph(count, DrawEdge)
        check(random.getstate() == rnd.getstate(), "DrawEdge: stream")
        _, _, seen = verify_randgraph(uni, count, rows, DrawEdge)
        check(
            [seen[n].draw for n in range(len(draws))] == draws,
            "sampling and edge construction are interleaved differently",
        )

    # 4. callables that are not classes, and non-callables
    made = []

    def factory(one, two):
        made.append((one.i, two.i))
        return UnDirectedEdge(one, two)

    random.seed(11)
    rnd = clone_global()
    rows, _ = predict_rows(rnd, 8, None, True)
    random.seed(11)
    uni = randgraph(8, factory)
    _, sim, _ = verify_randgraph(uni, 8, rows, factory, UnDirectedEdge)
    check(made == sim.links, "factory calls differ")

    for edge in (None, 5, "DirectedEdge"):
        random.seed(12)
        rnd = clone_global()
        predict_rows(rnd, 6, None, True)
        random.seed(12)
        got = outcome(randgraph, 6, edge)
        check(got == ("exc", TypeError), f"edge={edge!r}: {got}")
        check(random.getstate() == rnd.getstate(), "non-callable edge: stream")
        # without any link to build the edge type is never used
        random.seed(12)
        uni = randgraph(6, edge, 0, False)
        check(shape_of(uni) == [(i, []) for i in range(6)], "unused edge")

    # 5. an edge class that is not a vertex-checking TwoEndedLink subclass
    #    but has a narrower signature
    class Narrow(DirectedEdge):
        def __init__(self, v1, v2):
            super().__init__(v1, v2)

    rg_case(21, 10, Narrow, None, True)


def scripted_caching_and_pickle():
    """NEIGHBOR_CACHING on / off; pickling of results."""
    saved = Vertex.NEIGHBOR_CACHING
    try:
        shapes = {}
        for caching in (False, True):
            Vertex.NEIGHBOR_CACHING = caching
            for edge in (DirectedEdge, UnDirectedEdge):
                random.seed(77)
                rnd = clone_global()
                rows, _ = predict_rows(rnd, 18, None, True)
                random.seed(77)
                uni = randgraph(18, edge)
                verify_randgraph(uni, 18, rows, edge)
                nbs = {}
                for vert in uni.vertices:
                    first = helpers.neighbors(vert)
                    again = helpers.neighbors(vert)
                    check(same_objects(first, again), "neighbors unstable")
                    nbs[vert.i] = [n.i for n in first]
                    if edge is DirectedEdge:
                        check(nbs[vert.i] == rows[vert.i], "neighbors != row")
                shapes[(caching, edge)] = (shape_of(uni), nbs)

                for dump in (pickle.dumps, nrpickler.dumps):
                    clone = pickle.loads(dump(uni))
                    check(clone is not uni, "pickle returned the original")
                    check(shape_of(clone) == shape_of(uni), "pickle shape")
                    cobjs = {v.i: v for v in clone.vertices}
                    sim = Sim().run(list(enumerate(rows)))
                    verify_graph(clone, cobjs, sim, edge)
        for edge in (DirectedEdge, UnDirectedEdge):
            check(
                shapes[(False, edge)] == shapes[(True, edge)],
                "caching changes the result",
            )
    finally:
        Vertex.NEIGHBOR_CACHING = saved


###############################################################################
# load_adj_dict
###############################################################################


class Rec(Vertex):
    """A vertex whose add_to_universe is observable user code."""

    log = []
    boom_at = None
    hook = None

    def add_to_universe(self, universe):
        cls = Rec
        cls.log.append(("add", self.tag))
        if cls.boom_at == len([e for e in cls.log if e[0] == "add"]):
            raise OSError("add-boom")
        super().add_to_universe(universe)
        if cls.hook is not None:
            cls.hook(self, universe)


class RecEdge(UnDirectedEdge):
    """An edge whose construction is logged next to Rec's events."""

    boom_at = None

    def __init__(self, v1=None, v2=None, **kwargs):
        Rec.log.append(("link", v1.tag, v2.tag))
        if RecEdge.boom_at == len([e for e in Rec.log if e[0] == "link"]):
            raise MemoryError("link-boom")
        super().__init__(v1, v2, **kwargs)


class ItemsOnly:
    """Not a dict; has .items() yielding 2-lists, possibly repeated keys."""

    def __init__(self, pairs):
        self.pairs = pairs

    def items(self):
        for key, val in self.pairs:
            yield [key, val]


def watching(src, targets, log, base=0):
    """
    A value iterable that records what it can see when asked to go on.

    ``base`` is the number of links ``src`` had before the load started.
    """

    def gen():
        pos = 0
        for pos, item in enumerate(targets):
            log.append(snapshot(src, pos))
            yield item
        log.append(snapshot(src, len(targets)))

    def snapshot(src, pos):
        unis = src.universes
        return (src.tag, pos, len(src.links) - base, len(unis[-1].vertices))

    return gen()


def scripted_adjlist():
    """Corner cases of load_adj_dict."""
    sig = inspect.signature(load_adj_dict)
    check(
        [(p.name, p.kind, p.default) for p in sig.parameters.values()]
        == [
            ("adjdict", inspect.Parameter.POSITIONAL_OR_KEYWORD,
             inspect.Parameter.empty),
            ("linktype", inspect.Parameter.POSITIONAL_OR_KEYWORD,
             UnDirectedEdge),
        ],
        "load_adj_dict signature changed",
    )
    check(adjlist.load_adj_dict is load_adj_dict, "module attribute differs")

    # empty
    uni = load_adj_dict({})
    verify_universe_shell(uni)
    check(uni.vertices == [], "empty dict")
    check(load_adj_dict({}) is not uni, "universe reused")

    # documented example, default link type, keyword form
    v = [Vertex(attributes={"tag": i}) for i in range(6)]
    rows = [(0, [1, 2, 3]), (1, [2, 3, 4]), (2, [3, 4, 5]), (3, [3]), (5, [])]
    uni = load_adj_dict(adjdict={v[a]: [v[b] for b in bs] for a, bs in rows})
    verify_universe_shell(uni)
    verify_graph(uni, dict(enumerate(v)), Sim().run(rows), UnDirectedEdge)

    # every kind of iterable as value; repeated targets; self loops; a
    # universe used as vertex; vertices with history
    other = Universe()
    v = [Vertex(attributes={"tag": i}) for i in range(5)]
    v.append(Universe(attributes={"tag": 5}))
    v[0].add_to_universe(other)
    v[3].add_to_universe(other)
    old1 = DirectedEdge(v[0], v[1])
    old2 = UnDirectedEdge(v[3], v[3])
    pre_links = {0: (old1,), 1: (old1,), 3: (old2,)}
    pre_unis = {0: [other], 3: [other]}
    rows = [
        (0, [0, 0, 1, 1, 0]),
        (5, [5, 4]),
        (2, []),
        (3, [2, 3, 2, 5]),
        (1, [0]),
    ]
    adj = {
        v[0]: (v[0], v[0], v[1], v[1], v[0]),
        v[5]: iter([v[5], v[4]]),
        v[2]: "",
        v[3]: (x for x in [v[2], v[3], v[2], v[5]]),
        v[1]: {v[0]: "ignored"},
    }
    uni = load_adj_dict(adj, DirectedEdge)
    verify_universe_shell(uni)
    verify_graph(
        uni, dict(enumerate(v)), Sim().run(rows), DirectedEdge,
        pre_links, pre_unis,
    )
    check(same_objects(other.vertices, [v[0], v[3]]), "other universe changed")

    # load the same dictionary twice: links are duplicated, new universe
    v = [Vertex(attributes={"tag": i}) for i in range(3)]
    adj = {v[0]: [v[1]], v[1]: [v[2], v[0]]}
    rows = [(0, [1]), (1, [2, 0])]
    uni1 = load_adj_dict(adj, TwoEndedLink)
    links1 = {i: v[i].links for i in range(3)}
    uni2 = load_adj_dict(adj, TwoEndedLink)
    check(uni1 is not uni2, "same universe")
    verify_graph(
        uni2, dict(enumerate(v)), Sim().run(rows), TwoEndedLink,
        links1, {i: [uni1] for i in range(3)},
    )
    check(same_objects(uni1.vertices, v), "first universe changed")

    # call order of user code; lazily consumed values
    for linktype in (RecEdge,):
        Rec.log, Rec.boom_at, Rec.hook, RecEdge.boom_at = [], None, None, None
        r = [Rec(attributes={"tag": i}) for i in range(5)]
        rows = [(2, [2, 1, 1]), (0, [4, 2]), (4, []), (1, [3, 0, 1])]
        glog = []
        adj = ItemsOnly(
            [(r[a], watching(r[a], [r[b] for b in bs], glog)) for a, bs in rows]
        )
        uni = load_adj_dict(adj, linktype)
        sim = Sim().run(rows)
        verify_graph(uni, dict(enumerate(r)), sim, linktype)
        check(Rec.log == sim.events, "user code called in another order")
        check(glog == sim.snaps, "value iterables are not consumed lazily")

    # repeated key through a custom items()
    Rec.log = []
    r = [Rec(attributes={"tag": i}) for i in range(3)]
    rows = [(0, [1]), (0, [2, 0]), (1, [0]), (0, [])]
    uni = load_adj_dict(
        ItemsOnly([(r[a], [r[b] for b in bs]) for a, bs in rows]), RecEdge
    )
    sim = Sim().run(rows)
    verify_graph(uni, dict(enumerate(r)), sim, RecEdge)
    check(Rec.log == sim.events, "repeated key: call order")

    # failures: what is left behind
    rows = [(0, [1, 2]), (3, [0, 3, 1]), (2, [4])]
    full = Sim().run(rows)
    n_add = len([e for e in full.events if e[0] == "add"])
    n_link = len(full.links)
    for kind, total in (("add", n_add), ("link", n_link)):
        for nth in range(1, total + 1):
            Rec.log, Rec.hook = [], None
            Rec.boom_at = nth if kind == "add" else None
            RecEdge.boom_at = nth if kind == "link" else None
            r = [Rec(attributes={"tag": i}) for i in range(5)]
            glog = []
            adj = {
                r[a]: watching(r[a], [r[b] for b in bs], glog) for a, bs in rows
            }
            got = outcome(load_adj_dict, adj, RecEdge)
            Rec.boom_at = RecEdge.boom_at = None
            check(
                got == ("exc", OSError if kind == "add" else MemoryError),
                f"failing {kind} #{nth}: {got}",
            )
            # expected prefix of the history
            seen = 0
            cut = None
            for pos, event in enumerate(full.events):
                if event[0] == kind:
                    seen += 1
                    if seen == nth:
                        cut = pos
                        break
            check(Rec.log == full.events[: cut + 1], "history after failure")
            part = Sim()
            for event in full.events[:cut]:
                if event[0] == "add":
                    part.add(event[1])
                else:
                    part.link(event[1], event[2])
            # find the universe through any member
            members = [x for x in r if x.universes]
            if kind == "add" and nth == 1:
                check(members == [], "failed first add left a member")
                continue
            uni = members[0].universes[0]
            verify_graph(uni, dict(enumerate(r)), part, RecEdge)

    # StopIteration out of user code is not swallowed or converted
    class StopEdge(UnDirectedEdge):
        def __init__(self, v1=None, v2=None, **kwargs):
            if v2.tag == 2:
                raise StopIteration("edge")
            super().__init__(v1, v2, **kwargs)

    class StopVertex(Vertex):
        def add_to_universe(self, universe):
            if self.tag == 3:
                raise StopIteration("vertex")
            super().add_to_universe(universe)

    class StopValues:
        def __init__(self, items):
            self.items = items

        def __iter__(self):
            return self

        def __next__(self):
            if not self.items:
                raise StopIteration
            if self.items[0] is None:
                raise StopAsyncIteration("values")
            return self.items.pop(0)

    s = [StopVertex(attributes={"tag": i}) for i in range(5)]
    got = outcome(load_adj_dict, {s[0]: [s[1], s[2], s[4]], s[4]: [s[0]]},
                  StopEdge)
    check(got == ("exc", StopIteration), f"StopIteration from edge: {got}")
    verify_graph(s[0].universes[0], dict(enumerate(s)),
                 Sim().run([(0, [1])]), StopEdge)
    s = [StopVertex(attributes={"tag": i}) for i in range(5)]
    got = outcome(load_adj_dict, {s[0]: [s[1], s[3], s[4]], s[4]: [s[0]]},
                  StopEdge)
    check(got == ("exc", StopIteration), f"StopIteration from vertex: {got}")
    part = Sim()
    part.add(0), part.link(0, 1), part.add(1), part.link(0, 3)
    verify_graph(s[0].universes[0], dict(enumerate(s)), part, StopEdge)
    s = [StopVertex(attributes={"tag": i}) for i in range(5)]
    got = outcome(load_adj_dict,
                  {s[0]: StopValues([s[1], s[4], None, s[1]]), s[4]: [s[0]]},
                  StopEdge)
    check(got == ("exc", StopAsyncIteration), f"raising values: {got}")
    verify_graph(s[0].universes[0], dict(enumerate(s)),
                 Sim().run([(0, [1, 4])]), StopEdge)
    # ... and an iterator that simply ends is the end of that row only
    s = [StopVertex(attributes={"tag": i}) for i in range(5)]
    uni = load_adj_dict({s[0]: StopValues([s[1], s[4]]), s[4]: [s[0]]}, StopEdge)
    verify_graph(uni, dict(enumerate(s)),
                 Sim().run([(0, [1, 4]), (4, [0])]), StopEdge)

    # a value that is not iterable: the key is already a member
    a = Vertex()
    got = outcome(load_adj_dict, {a: None})
    check(got == ("exc", TypeError), f"None as value: {got}")
    check(len(a.universes) == 1 and a.universes[0].vertices == [a], "key lost")
    check(a.links == (), "link appeared")

    # None as target: the link exists, then the failure
    a, b = Vertex(), Vertex()
    got = outcome(load_adj_dict, {a: [b, None, b]}, DirectedEdge)
    check(got == ("exc", AttributeError), f"None as target: {got}")
    check(len(a.links) == 2 and len(b.links) == 1, "links after None target")
    check(a.links[0] is b.links[0], "first link")
    check(a.links[1].vertices == (a, None), "half-open link")
    check(a.universes[0].vertices == [a, b], "members after None target")

    # a target that is no vertex: refused by the link, nothing half-done
    a, b = Vertex(), Vertex()
    got = outcome(load_adj_dict, {a: [b, 7, b]}, UnDirectedEdge)
    check(got == ("exc", TypeError), f"int as target: {got}")
    check(len(a.links) == 1 and len(b.links) == 1, "links after bad target")
    check(a.universes[0].vertices == [a, b], "members after bad target")

    # a key that is no vertex
    got = outcome(load_adj_dict, {"k": []})
    check(got == ("exc", AttributeError), f"str as key: {got}")
    a = Vertex()
    got = outcome(load_adj_dict, {a: [], 3: [a]})
    check(got == ("exc", AttributeError), f"int as key: {got}")
    check(a.universes[0].vertices == [a] and a.links == (), "before bad key")

    # things without items(), items() of the wrong shape
    for bad in ([], None, 5, "ab", [(1, 2)]):
        got = outcome(load_adj_dict, bad)
        check(got == ("exc", AttributeError), f"no items(): {got}")
    a = Vertex()
    for pairs in ([(a, [], 1)], [(a,)]):
        class Odd:  # pylint: disable=too-few-public-methods
            def items(self, pairs=pairs):
                return iter(pairs)
        got = outcome(load_adj_dict, Odd())
        check(got == ("exc", ValueError), f"odd items(): {got}")
        check(a.universes == [], "odd items(): state")

    # linktype that is not callable / wrong arity
    a, b = Vertex(), Vertex()
    got = outcome(load_adj_dict, {a: [b]}, None)
    check(got == ("exc", TypeError), f"linktype None: {got}")
    check(a.universes[0].vertices == [a] and b.universes == [], "linktype None")
    got = outcome(load_adj_dict, {a: []}, None)
    check(got[0] == "ok" and got[1].vertices == [a], "unused linktype")

    # the dictionary changes while being loaded
    Rec.log, Rec.boom_at, RecEdge.boom_at = [], None, None
    r = [Rec(attributes={"tag": i}) for i in range(4)]
    adj = {r[0]: [r[1], r[2]], r[1]: [r[0]]}

    def grow(vert, _universe):
        if vert is r[2]:
            adj[r[3]] = [r[0]]

    Rec.hook = grow
    got = outcome(load_adj_dict, adj, RecEdge)
    Rec.hook = None
    check(got == ("exc", RuntimeError), f"growing dict: {got}")
    part = Sim().run([(0, [1, 2])])
    check(Rec.log == part.events, "growing dict: history")
    verify_graph(r[0].universes[0], dict(enumerate(r)), part, RecEdge)

    # values replaced (same size) while loading: the live dict is read
    Rec.log = []
    r = [Rec(attributes={"tag": i}) for i in range(4)]
    adj = {r[0]: [r[1]], r[1]: [r[0]]}

    def swap(vert, _universe):
        if vert is r[0] and adj[r[1]] != [r[3], r[2]]:
            adj[r[1]] = [r[3], r[2]]

    Rec.hook = swap
    uni = load_adj_dict(adj, RecEdge)
    Rec.hook = None
    sim = Sim().run([(0, [1]), (1, [3, 2])])
    verify_graph(uni, dict(enumerate(r)), sim, RecEdge)
    check(Rec.log == sim.events, "swapped values: history")


def cache_numbers():
    """Parse the public cache statistics."""
    out = {}
    for line in Vertex.total_cache_stats().splitlines():
        if ":" in line:
            key, val = line.split(":")
            out[key.strip()] = int(val)
    return out


def scripted_adjlist_caching():
    """Neighbor caches stay correct when vertices are (re)loaded."""
    saved = Vertex.NEIGHBOR_CACHING
    try:
        results = {}
        for caching in (True, False):
            Vertex.NEIGHBOR_CACHING = caching
            v = [Vertex(attributes={"tag": i}) for i in range(5)]
            first = {v[0]: [v[1], v[0]], v[2]: [v[0]]}
            second = {v[1]: [v[2], v[2], v[1]], v[0]: [v[4]], v[3]: []}
            load_adj_dict(first, DirectedEdge)
            seen = []
            seen.append([[n.tag for n in helpers.neighbors(x)] for x in v])
            seen.append([[n.tag for n in helpers.neighbors(x)] for x in v])
            before = cache_numbers()
            load_adj_dict(second, DirectedEdge)
            after = cache_numbers()
            seen.append([[n.tag for n in helpers.neighbors(x)] for x in v])
            seen.append(
                [
                    [n.tag for n in helpers.neighbors(x, helpers.DIR_SENS_ANY)]
                    for x in v
                ]
            )
            results[caching] = seen
            check(seen[0] == [[1, 0], [], [0], [], []], f"nbs: {seen[0]}")
            check(seen[0] == seen[1], "cached answer differs")
            check(
                seen[2] == [[1, 0, 4], [2, 2, 1], [0], [], []],
                f"stale neighbors after second load: {seen[2]}",
            )
            if caching:
                # 3 ordinary links (5 invalidations each), 1 self loop (4)
                check(
                    after["Invalidations"] - before["Invalidations"] == 19,
                    "number of cache invalidations during a load changed: "
                    f"{after['Invalidations'] - before['Invalidations']}",
                )
                check(after["Hits"] == before["Hits"], "load read the cache")
                check(after["Misses"] == before["Misses"], "load read cache")
        check(results[True] == results[False], "caching changes neighbors")
    finally:
        Vertex.NEIGHBOR_CACHING = saved


###############################################################################
# random differential parts
###############################################################################


def fuzz_randgraph(rounds):
    """Seeded differential run of randgraph against the oracle."""
    rng = random.Random(20200)
    edges = (DirectedEdge, UnDirectedEdge, TwoEndedLink, SpyEdge, DrawEdge)
    saved = Vertex.NEIGHBOR_CACHING
    try:
        for rnd_no in range(rounds):
            Vertex.NEIGHBOR_CACHING = rng.random() < 0.5
            count = rng.choice(
                [1, 1, 2, 2, 3, 4, 5, 6, 7, 8, 9, 10, 12, 15, 16, 20, 21, 22,
                 23, 26, 31, 40, 55, 90]
            )
            conn = rng.choice(
                [None, None, 0, 1, 0.0, 1.0, rng.random(), rng.random() / 5,
                 rng.random() ** 3, 5 / count, 1 / count, Fraction(2, 7), True,
                 1.5, -0.01]
            )
            ens = rng.choice([True, True, False, None, 1, 0, "x", ""])
            edge = rng.choice(edges[:3] if rnd_no % 3 else edges[:4])
            SpyEdge.log, SpyEdge.boom_at = [], None
            rg_case(rng.getrandbits(40), count, edge, conn, ens,
                    rng.choice(["kw", "pos"]))
    finally:
        Vertex.NEIGHBOR_CACHING = saved


def fuzz_adjlist(rounds):
    """Seeded differential run of load_adj_dict against the simulation."""
    rng = random.Random(4242)
    saved = Vertex.NEIGHBOR_CACHING
    try:
        for _ in range(rounds):
            Vertex.NEIGHBOR_CACHING = rng.random() < 0.5
            size = rng.randint(1, 9)
            Rec.log, Rec.boom_at, Rec.hook, RecEdge.boom_at = [], None, None, None
            verts = []
            for i in range(size):
                verts.append(Rec(attributes={"tag": i}))
            # some history
            pre_links = collections.defaultdict(tuple)
            pre_unis = collections.defaultdict(list)
            elsewhere = Universe()
            for i in range(size):
                if rng.random() < 0.3:
                    verts[i].add_to_universe(elsewhere)
                    pre_unis[i] = [elsewhere]
            for _ in range(rng.randint(0, 3)):
                a, b = rng.randrange(size), rng.randrange(size)
                old = DirectedEdge(verts[a], verts[b])
                pre_links[a] += (old,)
                if a != b:
                    pre_links[b] += (old,)
            Rec.log = []

            keys = rng.sample(range(size), rng.randint(0, size))
            rows = []
            for key in keys:
                width = rng.choice([0, 0, 1, 1, 2, 3, 5])
                rows.append((key, [rng.randrange(size) for _ in range(width)]))
            if rng.random() < 0.2 and rows:
                rows.append((rows[0][0], [rng.randrange(size)]))
                mapping_kind = "items"
            else:
                mapping_kind = rng.choice(["dict", "items", "ordered", "proxy"])

            glog = []
            watched = rng.random() < 0.5

            def value(src, targets):
                objs = [verts[t] for t in targets]
                if watched:
                    return watching(
                        verts[src], objs, glog, len(pre_links[src])
                    )
                pick = rng.randrange(4)
                if pick == 0:
                    return objs
                if pick == 1:
                    return tuple(objs)
                if pick == 2:
                    return iter(objs)
                return (o for o in objs)

            pairs = [(verts[src], value(src, targets)) for src, targets in rows]
            if mapping_kind == "dict":
                adj = dict(pairs)
            elif mapping_kind == "ordered":
                adj = collections.OrderedDict(pairs)
            elif mapping_kind == "proxy":
                adj = types.MappingProxyType(dict(pairs))
            else:
                adj = ItemsOnly(pairs)

            linktype = rng.choice([RecEdge, RecEdge, None])
            if linktype is None:
                uni = load_adj_dict(adj)
                linktype = UnDirectedEdge
                sim = Sim().run(rows)
                check(
                    Rec.log == [e for e in sim.events if e[0] == "add"],
                    "fuzz: add_to_universe calls differ",
                )
            else:
                uni = (
                    load_adj_dict(adj, linktype)
                    if rng.random() < 0.5
                    else load_adj_dict(linktype=linktype, adjdict=adj)
                )
                sim = Sim().run(rows)
                check(Rec.log == sim.events, "fuzz: call order differs")
            verify_universe_shell(uni)
            verify_graph(
                uni, dict(enumerate(verts)), sim, linktype, pre_links, pre_unis
            )
            if watched:
                check(glog == sim.snaps, "fuzz: values not consumed lazily")
            # neighbors agree with a cache-free recomputation
            for vert in verts:
                cached = helpers.neighbors(vert, helpers.DIR_SENS_ANY)
                keep = Vertex.NEIGHBOR_CACHING
                Vertex.NEIGHBOR_CACHING = False
                fresh = helpers.neighbors(vert, helpers.DIR_SENS_ANY)
                Vertex.NEIGHBOR_CACHING = keep
                check(same_objects(cached, fresh), "fuzz: stale neighbor cache")
    finally:
        Vertex.NEIGHBOR_CACHING = saved


def main():
    """Run everything."""
    scripted_randgraph()
    scripted_intlike_count()
    scripted_random_spies()
    scripted_argument_callbacks()
    scripted_raising_arguments()
    scripted_edge_callbacks()
    scripted_caching_and_pickle()
    scripted_adjlist()
    scripted_adjlist_caching()
    fuzz_randgraph(700)
    fuzz_adjlist(700)
    print(f"equiv.py: all {CHECKS} checks passed")
    return 0


if __name__ == "__main__":
    sys.exit(main())
