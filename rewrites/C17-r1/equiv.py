#!/usr/bin/python3
# -*- coding: utf-8 -*-
"""
Behavioural check for edgegraph.structure.singleton semi-singletons (C17).

Uses the public API only.  Exit status 0 == everything as expected.
"""

import gc
import pickle
import random
import sys
import types
import weakref

from edgegraph.structure import singleton
from edgegraph.structure.singleton import (
    semi_singleton_metaclass,
    add_mapping,
    drop_semi_singleton_mapping,
    check_semi_singleton_entry_exists,
    get_all_semi_singleton_instances,
    clear_semi_singleton,
)

CHECKS = 0


def check(cond, what):
    global CHECKS
    CHECKS += 1
    if not cond:
        print("FAILED:", what)
        sys.exit(1)


def raises(exc, func, *args, **kwargs):
    try:
        func(*args, **kwargs)
    except BaseException as e:  # pylint: disable=broad-except
        return type(e) is exc
    return False


def ids(cls):
    return [id(x) for x in get_all_semi_singleton_instances(cls)]


# ---------------------------------------------------------------------------
# classes under test

M = semi_singleton_metaclass()


class Base:
    inits = 0

    def __init__(self, *args, **kwargs):
        type(self).inits += 1
        self.args = args
        self.kwargs = kwargs


class A(Base, metaclass=M):
    inits = 0


class B(A):  # subclass of a semi-singleton class: same metaclass object
    inits = 0


class C(Base, metaclass=M):  # unrelated class sharing the metaclass object
    inits = 0


class D(Base, metaclass=semi_singleton_metaclass()):  # own metaclass
    inits = 0


HASHCALLS = []


def first_arg_mod3(args, kwargs):
    HASHCALLS.append((args, dict(kwargs)))
    return args[0] % 3


class E(Base, metaclass=semi_singleton_metaclass(first_arg_mod3)):
    inits = 0


class PickleMe(metaclass=semi_singleton_metaclass()):
    def __init__(self, n=0):
        self.n = n


ALL = [A, B, C, D, E]


def reset():
    for cls in ALL:
        clear_semi_singleton(cls)
        cls.inits = 0
    del HASHCALLS[:]


# ---------------------------------------------------------------------------
def test_basic_identity():
    reset()
    a1 = A(1, x=2)
    check(type(a1) is A and A.inits == 1, "first construction runs __init__")
    check(A(1, x=2) is a1 and A.inits == 1, "same key -> same instance, no init")
    a2 = A(2, x=2)
    check(a2 is not a1 and A.inits == 2, "different key -> different instance")
    # keyword order
    k1 = A(p=1, q=2, r=[1, {"z": None}])
    k2 = A(r=[1, {"z": None}], q=2, p=1)
    check(k1 is k2 and A.inits == 3, "keyword order permutations")
    check(A(1, 2) is not A(1, y=2), "positional vs keyword differ")
    # equal hashes, different values
    m1, m2 = A(-1), A(-2)
    check(hash(-1) == hash(-2) and m1 is not m2, "-1 / -2 distinct")
    check(A(-1) is m1 and A(-2) is m2, "-1 / -2 stable")
    check(A(x=-1) is not A(x=-2), "-1 / -2 as kwargs")
    # equal-but-not-identical values share a key
    n1 = A(7, "s" * 3, (1, 2))
    check(A(7.0, "sss", (1.0, 2)) is n1, "equal args give same instance")
    check(A(True) is A(1) and A(1.0) is A(1), "1 == 1.0 == True")
    check(A(True, k=1) is not A(True, k=True), "json distinguishes 1 / true")
    # nan is found by identity only
    nan = float("nan")
    check(A(nan) is A(nan), "identical nan")
    check(A(float("nan")) is not A(nan), "distinct nan objects")
    check(A(k=float("nan")) is A(k=float("nan")), "nan in kwargs via json")
    # the default key sees keyword arguments the way the json encoder does
    check(A(k=(1, 2)) is A(k=[1, 2]), "tuple / list alike in kwargs")
    check(A((1, 2)) is not A(k=(1, 2)), "but not positional vs keyword")
    check(A(k={"b": 1, "a": [2]}) is A(k={"a": [2], "b": 1}), "nested order")
    check(A(k={1: 2}) is A(k={"1": 2}), "json coerces dict keys")
    check(A(k=1.0) is not A(k=1) and A(1.0, k=1) is A(1, k=1), "1.0 vs 1")
    check(A(k="\u00e9") is A(k="\xe9") and A(k="e") is not A(k="\xe9"), "text")
    check(A(k=float("inf")) is A(k=float("inf")), "infinity")
    check(A(k=float("inf")) is not A(k=float("-inf")), "signed infinity")
    check(A(k=None) is not A(k="null") and A(k=None) is not A(), "None kwarg")
    check(A(k=10**40) is A(k=10**40) and A(k=10**40) is not A(k=1e40), "big")
    check(A(a=1, b=2) is not A(a=2, b=1), "values matter")
    # falsy / None arguments
    check(A() is A() and A(None) is A(None), "no-arg and None")
    check(A() is not A(None) and A(0) is not A(None), "falsy args distinct")
    check(A(()) is not A() and A("") is not A(), "empty containers distinct")
    check(A(0) is A(False) and A(0) is not A(""), "0/False equal; '' not")


def test_classes_independent():
    reset()
    objs = {cls: cls(1) for cls in ALL}
    for cls, obj in objs.items():
        check(type(obj) is cls, "instance of the class called: %r" % cls)
        check(cls(1) is obj and cls.inits == 1, "stable: %r" % cls)
    check(len({id(o) for o in objs.values()}) == len(ALL), "all distinct")
    check(isinstance(objs[B], A) and not isinstance(objs[A], B), "subclassing")
    for cls in ALL:
        check(ids(cls) == [id(objs[cls])], "get_all per class: %r" % cls)
    # clearing one class leaves the others alone
    clear_semi_singleton(A)
    check(ids(A) == [] and ids(B) == [id(objs[B])], "clear(A) keeps B")
    check(ids(C) == [id(objs[C])] and ids(D) == [id(objs[D])], "keeps C, D")
    check(B(1) is objs[B] and C(1) is objs[C] and D(1) is objs[D], "stable")
    na = A(1)
    check(na is not objs[A] and A.inits == 2, "A recreated after clear")
    clear_semi_singleton(B)
    check(A(1) is na and ids(B) == [], "clear(B) keeps A")
    # add_mapping / drop on one class do not leak into the others
    add_mapping(objs[C], "alias")
    check(C("alias") is objs[C], "alias works on C")
    check(check_semi_singleton_entry_exists(A, "alias") is None, "not on A")
    check(check_semi_singleton_entry_exists(B, "alias") is None, "not on B")
    check(check_semi_singleton_entry_exists(D, "alias") is None, "not on D")
    drop_semi_singleton_mapping(C, 1)
    check(A(1) is na and D(1) is objs[D], "drop on C only")
    check(C("alias") is objs[C] and C(1) is not objs[C], "alias survives drop")


def test_custom_hashfunc():
    reset()
    e0 = E(0, "whatever", k=1)
    check(HASHCALLS == [((0, "whatever"), {"k": 1})], "hashfunc called once")
    check(E(3) is e0 and E(300, 1, 2, z=None) is e0, "same residue, same obj")
    check(E.inits == 1 and len(HASHCALLS) == 3, "one hashfunc call each")
    e1 = E(1)
    check(e1 is not e0 and E(4) is e1 and E.inits == 2, "other residue")
    check(check_semi_singleton_entry_exists(E, 6) is e0, "check uses hashfunc")
    check(check_semi_singleton_entry_exists(E, 5) is None, "check: absent")
    check(len(HASHCALLS) == 7 and E.inits == 2, "check does not create")
    add_mapping(e1, 2)
    check(HASHCALLS[-1] == ((2,), {}), "add_mapping uses hashfunc once")
    check(E(5) is e1 and ids(E) == [id(e0), id(e1), id(e1)], "alias listed")
    drop_semi_singleton_mapping(E, 7)
    check(ids(E) == [id(e0), id(e1)] and E(2) is e1, "drop by residue")
    check(raises(IndexError, E), "hashfunc exception propagates (call)")
    check(raises(IndexError, check_semi_singleton_entry_exists, E), "(check)")
    check(raises(IndexError, drop_semi_singleton_mapping, E), "(drop)")
    check(raises(IndexError, add_mapping, e0), "(add_mapping)")
    check(E.inits == 2 and ids(E) == [id(e0), id(e1)], "nothing changed")


def test_helpers_and_order():
    reset()
    objs = [A(i) for i in range(5)]
    gen = get_all_semi_singleton_instances(A)
    check(isinstance(gen, types.GeneratorType), "get_all returns a generator")
    check([id(x) for x in gen] == [id(o) for o in objs], "insertion order")
    # aliasing and overwriting
    add_mapping(objs[4], 0)  # overwrite key (0,): keeps its position
    check(A(0) is objs[4], "overwritten mapping")
    check(ids(A) == [id(objs[i]) for i in (4, 1, 2, 3, 4)], "position kept")
    drop_semi_singleton_mapping(A, 2)
    add_mapping(objs[2], 2)  # dropped and re-added: moves to the end
    check(ids(A) == [id(objs[i]) for i in (4, 1, 3, 4, 2)], "re-add at end")
    # foreign object mapped by add_mapping: key is type(obj)
    b = B("b")
    add_mapping(b, "b2", k=[1])
    check(B("b2", k=[1]) is b, "alias with kwargs")
    check(check_semi_singleton_entry_exists(A, "b2", k=[1]) is None, "B only")
    # check does not create, returns identical object
    before = ids(A), A.inits
    check(check_semi_singleton_entry_exists(A, "nope") is None, "absent")
    check(check_semi_singleton_entry_exists(A, 1) is objs[1], "present")
    check(check_semi_singleton_entry_exists(A, 1.0) is objs[1], "equal key")
    check((ids(A), A.inits) == before, "check creates nothing")
    # the generator takes its snapshot at the first next(), not at call time
    gen = get_all_semi_singleton_instances(A)
    late = A("late")
    first = next(gen)
    later = A("later")
    rest = [first] + list(gen)
    check(late in rest and later not in rest, "snapshot on first next()")
    clear_semi_singleton(A)
    gen = get_all_semi_singleton_instances(A)
    check(list(gen) == [] and list(gen) == [], "empty after clear")
    clear_semi_singleton(A)  # clearing an empty class is fine
    check(B("b") is b and ids(B) == [id(b), id(b)], "B untouched by clear(A)")


def test_errors():
    reset()
    a = A(1)
    state = ids(A), A.inits
    # unhashable positional argument: TypeError *before* __init__ runs
    check(raises(TypeError, A, [1]), "unhashable arg (call)")
    check(raises(TypeError, A, ([],)), "nested unhashable arg (call)")
    check(raises(TypeError, check_semi_singleton_entry_exists, A, [1]), "chk")
    check(raises(TypeError, drop_semi_singleton_mapping, A, [1]), "(drop)")
    check(raises(TypeError, add_mapping, a, [1]), "(add_mapping)")
    check(raises(TypeError, B, [1]), "unhashable arg, class without entries")
    check(raises(TypeError, add_mapping, a, {1}), "(add_mapping, set)")
    check(raises(TypeError, check_semi_singleton_entry_exists, B, [1]), "chkB")
    check(raises(TypeError, drop_semi_singleton_mapping, B, [1]), "(dropB)")
    # kwargs the json encoder cannot handle
    check(raises(TypeError, A, k=object()), "non-json kwargs")
    check(raises(TypeError, A, k={1, 2}), "set in kwargs")
    check(raises(TypeError, A, k={1: 1, "a": 2}), "unsortable dict keys")
    check(raises(TypeError, A, k={(1, 2): 1}), "tuple as dict key")
    check(raises(TypeError, A, k=b"bytes"), "bytes in kwargs")
    circ = []
    circ.append(circ)
    check(raises(ValueError, A, k=circ), "circular kwargs")
    check(raises(TypeError, add_mapping, a, k=object()), "(add_mapping)")
    check((ids(A), A.inits, ids(B), B.inits) == state + ([], 0), "no change")
    # dropping something that is not there
    check(raises(KeyError, drop_semi_singleton_mapping, A, 2), "drop absent")
    check(raises(KeyError, drop_semi_singleton_mapping, B, 1), "drop, no B")
    check(raises(KeyError, drop_semi_singleton_mapping, C, 1), "drop, no C")
    drop_semi_singleton_mapping(A, 1)
    check(raises(KeyError, drop_semi_singleton_mapping, A, 1), "drop twice")
    check(ids(A) == [], "dropped")

    # things that are not semi-singletons
    class Plain:
        pass

    check(raises(AttributeError, add_mapping, Plain(), 1), "add: plain")
    check(raises(AttributeError, add_mapping, None), "add: None")
    check(raises(AttributeError, add_mapping, A, 1), "add: a class")
    check(raises(AttributeError, drop_semi_singleton_mapping, Plain, 1), "d")
    # an *instance* handed in where a class is expected: the default hash
    # function ends up bound (TypeError); clear / get_all find nothing
    check(raises(TypeError, drop_semi_singleton_mapping, a, 1), "d inst")
    check(raises(TypeError, check_semi_singleton_entry_exists, a, 1), "c inst")
    a = A(1)
    check(clear_semi_singleton(a) is None and A(1) is a, "clear: instance")
    check(list(get_all_semi_singleton_instances(a)) == [], "get_all: inst")

    class Unhashable(metaclass=semi_singleton_metaclass(lambda *a: 0)):
        __hash__ = None

    u = Unhashable()
    check(clear_semi_singleton(u) is None, "clear: unhashable instance")
    check(list(get_all_semi_singleton_instances(u)) == [], "get_all: same")
    check(Unhashable() is u, "still mapped")
    check(raises(TypeError, check_semi_singleton_entry_exists, u, 1), "hash")
    check(raises(TypeError, drop_semi_singleton_mapping, u, 1), "hash (drop)")
    check(check_semi_singleton_entry_exists(Unhashable) is u, "class is fine")
    h = E(0)
    check(raises(TypeError, check_semi_singleton_entry_exists, h), "E inst")
    clear_semi_singleton(Unhashable)
    clear_semi_singleton(A)
    check(raises(AttributeError, check_semi_singleton_entry_exists, Plain), "c")
    check(raises(AttributeError, check_semi_singleton_entry_exists, 5, [1]), "c")
    check(raises(AttributeError, clear_semi_singleton, Plain), "clear: plain")
    gen = get_all_semi_singleton_instances(Plain)  # lazily evaluated
    check(isinstance(gen, types.GeneratorType), "generator even if bogus")
    check(raises(AttributeError, next, gen), "error on first next()")
    check(raises(StopIteration, next, gen), "then exhausted")

    # a constructor that fails leaves no mapping behind
    class Boom(metaclass=M):
        fail = True

        def __init__(self, n):
            if Boom.fail:
                raise ZeroDivisionError(n)
            self.n = n

    check(raises(ZeroDivisionError, Boom, 1), "failing __init__")
    check(ids(Boom) == [], "no mapping after failure")
    check(check_semi_singleton_entry_exists(Boom, 1) is None, "none exists")
    check(raises(KeyError, drop_semi_singleton_mapping, Boom, 1), "none")
    Boom.fail = False
    b1 = Boom(1)
    Boom.fail = True
    check(Boom(1) is b1 and raises(ZeroDivisionError, Boom, 2), "afterwards")
    check(ids(Boom) == [id(b1)], "only the good one")
    clear_semi_singleton(Boom)


def test_hash_and_eq_traffic():
    """
    User-defined __hash__ sees the same traffic.  (How often __eq__ runs on
    colliding keys depends on the dictionary's probe sequence, hence on
    addresses and string hash randomisation; only its presence is checked.)
    """
    reset()
    log = []

    class K:
        def __init__(self, v):
            self.v = v

        def __hash__(self):
            log.append("h")
            return 99

        def __eq__(self, other):
            log.append("e")
            return isinstance(other, K) and self.v == other.v

    def traffic(func, *args):
        del log[:]
        res = func(*args)
        return res, log.count("h"), log.count("e")

    k1, k1b, k2 = K(1), K(1), K(2)
    a1, h, e = traffic(A, k1)
    check((h, e) == (3, 0), "miss on empty: %d %d" % (h, e))
    r, h, e = traffic(A, k1)
    check(r is a1 and (h, e) == (2, 0), "identical hit: %d %d" % (h, e))
    r, h, e = traffic(A, k1b)
    check(r is a1 and h == 2 and e >= 2, "equal hit: %d %d" % (h, e))
    a2, h, e = traffic(A, k2)
    check(a2 is not a1 and h == 3 and e >= 3, "colliding miss: %d %d" % (h, e))
    r, h, e = traffic(check_semi_singleton_entry_exists, A, k1b)
    check(r is a1 and h == 2 and e >= 2, "check hit: %d %d" % (h, e))
    r, h, e = traffic(check_semi_singleton_entry_exists, A, K(3))
    check(r is None and h == 1 and e >= 2, "check miss: %d %d" % (h, e))
    r, h, e = traffic(check_semi_singleton_entry_exists, B, k1)
    check(r is None and (h, e) == (1, 0), "check, other class: %d %d" % (h, e))
    _, h, e = traffic(add_mapping, a2, K(1))
    check(A(k1) is a2 and h == 1 and e >= 1, "add, overwrite: %d %d" % (h, e))
    _, h, e = traffic(drop_semi_singleton_mapping, A, K(2))
    check(h == 1 and e >= 1, "drop: %d %d" % (h, e))
    check(ids(A) == [id(a2)] and A.inits == 2, "state after traffic")
    _, h, e = traffic(clear_semi_singleton, B)
    check((h, e) == (0, 0), "clear of another class: %d %d" % (h, e))
    _, h, e = traffic(list, get_all_semi_singleton_instances(A))
    check((h, e) == (0, 0), "get_all touches no key: %d %d" % (h, e))
    _, h, e = traffic(clear_semi_singleton, A)
    check((h, e) == (1, 0), "clear, one mapping: %d %d" % (h, e))
    check(ids(A) == [], "cleared")


def test_reentrancy_and_lifetime():
    reset()

    # constructing the same key from inside __init__: outer instance wins
    class Rec(metaclass=M):
        made = []

        def __init__(self, n, again=True):
            Rec.made.append(self)
            if n == "x" and len(Rec.made) == 1:
                self.inner = Rec("x")

    outer = Rec("x")
    check(len(Rec.made) == 2 and Rec.made[0] is outer, "two constructions")
    check(outer.inner is Rec.made[1] and Rec("x") is outer, "outer wins")
    check(ids(Rec) == [id(outer)], "one mapping")
    clear_semi_singleton(Rec)
    Rec.made = []

    # clearing the class from inside __init__
    class Clr(metaclass=M):
        def __init__(self, n, wipe=False):
            if wipe:
                clear_semi_singleton(Clr)

    c1, c2 = Clr(1), Clr(2)
    c3 = Clr(3, wipe=True)
    check(ids(Clr) == [id(c3)] and Clr(3, wipe=True) is c3, "kept after wipe")
    check(Clr(1) is not c1, "others wiped")
    clear_semi_singleton(Clr)

    # registering oneself under an alias from inside __init__
    class Ali(metaclass=M):
        def __init__(self, n):
            add_mapping(self, n + 100)
            add_mapping(self, n)

    x = Ali(1)
    check(Ali(101) is x and Ali(1) is x and ids(Ali) == [id(x)] * 2, "self")
    clear_semi_singleton(Ali)

    # finalisers observe the table while it is being cleared
    seen = []

    class Fin(metaclass=semi_singleton_metaclass()):
        def __init__(self, n):
            self.n = n

        def __del__(self):
            seen.append(
                (self.n, [o.n for o in get_all_semi_singleton_instances(Fin)])
            )

    for i in range(4):
        Fin(i)
    gc.collect()
    check(seen == [], "table keeps instances alive")
    clear_semi_singleton(Fin)
    gc.collect()
    check(
        seen == [(0, [1, 2, 3]), (1, [2, 3]), (2, [3]), (3, [])],
        "removed one at a time in insertion order: %r" % (seen,),
    )
    del seen[:]
    Fin(7)
    Fin(8)
    drop_semi_singleton_mapping(Fin, 7)
    gc.collect()
    check(seen == [(7, [8])], "drop finalises immediately: %r" % (seen,))
    f8 = Fin(8)
    add_mapping(f8, 9)
    Fin(10)
    add_mapping(f8, 10)  # replaces (and finalises) instance 10
    gc.collect()
    check(seen == [(7, [8]), (10, [8, 8, 8])], "overwrite: %r" % (seen,))
    clear_semi_singleton(Fin)
    del f8, seen[:]

    # a cleared class (and its metaclass) can be garbage collected
    def scope():
        class Tmp(metaclass=semi_singleton_metaclass()):
            def __init__(self, n):
                self.n = n

        class Tmp2(Tmp):
            pass

        t = Tmp(1)
        Tmp2(1)
        Tmp2(2)
        add_mapping(t, 5)
        refs = [weakref.ref(Tmp), weakref.ref(Tmp2), weakref.ref(t)]
        del t
        gc.collect()
        alive = [r() is not None for r in refs]
        clear_semi_singleton(Tmp)
        drop_semi_singleton_mapping(Tmp2, 2)
        drop_semi_singleton_mapping(Tmp2, 1)
        return refs, alive

    refs, alive = scope()
    gc.collect()
    check(alive == [True, True, True], "alive while mapped")
    check([r() for r in refs] == [None, None, None], "collected afterwards")


def test_metaclass_subclassing():
    reset()
    M1 = semi_singleton_metaclass()
    M2 = semi_singleton_metaclass(lambda args, kwargs: "const")

    class Sub(M1):  # plain subclass of a generated metaclass
        pass

    class P(Base, metaclass=Sub):
        inits = 0

    class Q(Base, metaclass=M1):
        inits = 0

    p, q = P(1), Q(1)
    check(p is not q and P(1) is p and Q(1) is q, "metaclass subclass")
    check(ids(P) == [id(p)] and ids(Q) == [id(q)], "listed separately")
    add_mapping(p, 2)
    check(P(2) is p and check_semi_singleton_entry_exists(Q, 2) is None, "")
    clear_semi_singleton(Q)
    check(P(1) is p and Q(1) is not q, "clear through metaclass subclass")

    class Both(M1, M2):  # diamond of two generated metaclasses
        pass

    class Z(Base, metaclass=Both):
        inits = 0

    z = Z(1, k=2)
    check(type(z) is Z and Z.inits == 1, "created once")
    check(Z(1, k=2) is z, "stable")
    check(check_semi_singleton_entry_exists(Z, 1, k=2) is z, "check")
    check(ids(Z) == [id(z), id(z)], "both metaclass layers registered")
    z2 = Z(2)
    check(z2 is z and Z.inits == 1, "second layer's constant key wins")
    check(ids(Z) == [id(z), id(z), id(z)], "three mappings: %r" % ids(Z))
    clear_semi_singleton(Z)
    check(ids(Z) == [] and Z(1, k=2) is not z, "cleared")
    clear_semi_singleton(Z)
    clear_semi_singleton(P)
    clear_semi_singleton(Q)


def test_pickle():
    clear_semi_singleton(PickleMe)
    p = PickleMe(3)
    p2 = pickle.loads(pickle.dumps(p))
    check(type(p2) is PickleMe and p2.n == 3 and p2 is not p, "pickle copy")
    check(ids(PickleMe) == [id(p)] and PickleMe(3) is p, "not registered")
    check(pickle.loads(pickle.dumps(PickleMe)) is PickleMe, "class by ref")
    clear_semi_singleton(PickleMe)


def test_random_against_model():
    """Random histories compared with a straightforward model."""
    rng = random.Random(1717)
    values = [-1, -2, 0, 1, 1.0, True, None, "a", (1, 2), (-1,), "", 2**70]
    kwpool = [{}, {"k": 1}, {"k": 1, "j": 2}, {"j": 2, "k": 1}, {"k": [1, 2]},
              {"k": -1}, {"k": -2}, {"k": None}, {"k": True}]

    def model_key(cls, args, kwargs):
        if cls is E:
            return args[0] % 3
        return (args, tuple(sorted((k, repr(v)) for k, v in kwargs.items())))

    for _round in range(30):
        reset()
        model = {cls: {} for cls in ALL}  # insertion ordered, like the docs say
        inits = {cls: 0 for cls in ALL}
        for _step in range(120):
            cls = rng.choice(ALL)
            if cls is E:
                args = (rng.randrange(-5, 6),) + tuple(
                    rng.sample(values, rng.randrange(0, 2))
                )
            else:
                args = tuple(rng.choice(values) for _ in range(rng.randrange(3)))
            kwargs = dict(rng.choice(kwpool))
            key = model_key(cls, args, kwargs)
            op = rng.random()
            if op < 0.45:
                obj = cls(*args, **kwargs)
                if key in model[cls]:
                    check(obj is model[cls][key], "model: existing instance")
                else:
                    check(
                        all(obj is not o for m in model.values() for o in m.values()),
                        "model: fresh instance",
                    )
                    model[cls][key] = obj
                    inits[cls] += 1
                check(type(obj) is cls, "model: class of result")
            elif op < 0.60:
                got = check_semi_singleton_entry_exists(cls, *args, **kwargs)
                check(got is model[cls].get(key), "model: check")
            elif op < 0.75:
                if model[cls]:
                    obj = rng.choice(list(model[cls].values()))
                    add_mapping(obj, *args, **kwargs)
                    model[cls][key] = obj
            elif op < 0.90:
                if key in model[cls]:
                    drop_semi_singleton_mapping(cls, *args, **kwargs)
                    del model[cls][key]
                else:
                    check(
                        raises(KeyError, drop_semi_singleton_mapping, cls,
                               *args, **kwargs),
                        "model: drop absent",
                    )
            elif op < 0.95:
                clear_semi_singleton(cls)
                model[cls].clear()
            for c in ALL:
                check(
                    ids(c) == [id(o) for o in model[c].values()],
                    "model: get_all of %r" % c,
                )
                check(c.inits == inits[c], "model: __init__ count of %r" % c)


def main():
    check(singleton.semi_singleton_metaclass is semi_singleton_metaclass, "")
    check(isinstance(M, type) and issubclass(M, type), "metaclass is a type")
    public = sorted(n for n in vars(singleton) if not n.startswith("_"))
    check(
        public
        == [
            "Callable",
            "Generator",
            "Hashable",
            "TrueSingleton",
            "add_mapping",
            "annotations",
            "check_semi_singleton_entry_exists",
            "clear_semi_singleton",
            "clear_true_singleton",
            "drop_semi_singleton_mapping",
            "get_all_semi_singleton_instances",
            "json",
            "semi_singleton_metaclass",
        ],
        "public names of the module: %r" % (public,),
    )
    check(M is not semi_singleton_metaclass(), "fresh metaclass per call")
    test_basic_identity()
    test_classes_independent()
    test_custom_hashfunc()
    test_helpers_and_order()
    test_errors()
    test_hash_and_eq_traffic()
    test_reentrancy_and_lifetime()
    test_metaclass_subclassing()
    test_pickle()
    test_random_against_model()
    reset()
    print("equiv.py: all %d checks passed" % CHECKS)
    return 0


if __name__ == "__main__":
    sys.exit(main())
