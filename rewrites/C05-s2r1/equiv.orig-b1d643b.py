#!/usr/bin/env python3
# -*- coding: utf-8 -*-
"""
Equivalence / property harness for C05 ("neighbor caching is transparent").

Run from the worktree root:

    PYTHONPATH=/tmp/r2/C05 /venv/bin/python equiv.py

Only the public API of edgegraph is used (structure classes, explicit /
adjlist / adjmatrix / randgraph builders, helpers.neighbors / find_links, the
breadth- and depth-first traversals and searches, Vertex.NEIGHBOR_CACHING,
Vertex.total_cache_stats, pickle / nrpickler / copy on the objects).

Three layers of checking:

1. PROPERTY: at every point of every history the answer given with caching on
   (first call and repeated call) is identical (same vertices, same order,
   same identity; or same exception) to the answer with caching off and to an
   independent oracle (``oracle_neighbors`` and oracle traversals, written from
   the documentation using only ``Vertex.links`` / ``Link.vertices``).

2. DOCUMENTED BEHAVIOUR: scripted corner cases (hits do not call the filter,
   the caller owns the returned list, failing callbacks leave nothing behind,
   pickled graphs behave in a fresh interpreter, ...).

3. TRACE DIGEST: everything observable that happens during the run (results,
   exception classes and library messages, callback call counts, the text of
   Vertex.total_cache_stats(), public vars() names, recursion head-room) is
   appended to a trace whose SHA-256 must equal EXPECTED_DIGEST, which was
   recorded on the unchanged code.  ``--dump FILE`` writes the trace so two
   runs can be diffed; ``--print-digest`` prints the digest instead of
   checking it.

Exit status 0 = all good.
"""

import copy
import hashlib
import os
import pickle
import random
import subprocess
import sys
import tempfile

from edgegraph.structure import (
    Vertex,
    Universe,
    Link,
    TwoEndedLink,
    DirectedEdge,
    UnDirectedEdge,
)
from edgegraph.traversal import helpers, breadthfirst, depthfirst
from edgegraph.builder import explicit, adjlist, adjmatrix, randgraph
from edgegraph.output import nrpickler

EXPECTED_DIGEST = "98b907c47233b8a5c7152ff444e0422762e90a03165f5767b65b2806fa8fd84b"

FWD = helpers.DIR_SENS_FORWARD
ANY = helpers.DIR_SENS_ANY
BWD = helpers.DIR_SENS_BACKWARD
U_NON = helpers.LNK_UNKNOWN_NONNEIGHBOR
U_NB = helpers.LNK_UNKNOWN_NEIGHBOR
U_ERR = helpers.LNK_UNKNOWN_ERROR

TRACE = []
FAILS = []


def T(*parts):
    """Append one line to the trace."""
    TRACE.append(" ".join(str(p) for p in parts))


def check(cond, msg):
    """Record a failed expectation (and keep going)."""
    if not cond:
        FAILS.append(msg)
        if len(FAILS) <= 25:
            print("FAIL:", msg, file=sys.stderr)


# --------------------------------------------------------------------------
# user-defined classes and callbacks (module level so that they pickle)
# --------------------------------------------------------------------------


class OddLink(TwoEndedLink):
    """Neither directed nor undirected: an "unknown" link class."""


class MyVertex(Vertex):
    """A vertex subclass."""


class MyDirected(DirectedEdge):
    """A directed edge subclass."""


class BothWays(UnDirectedEdge, DirectedEdge):
    """Inherits from both: the undirected test comes first."""


class HyperLink(Link):
    """A link of any number of vertices which knows its 'other' end."""

    def other(self, end):
        for v in self.vertices:
            if v is not end:
                return v
        return None


class BareLink(Link):
    """A link without an ``other`` method."""


def ff_even(link, far):
    return far is not None and getattr(far, "i", 1) % 2 == 0


def ff_directed(link, far):
    return isinstance(link, DirectedEdge)


def ff_never(link, far):
    return False


class CountingFilter:
    """Hashable callable which counts its calls and may raise / mutate."""

    def __init__(self, fail_at=None, action=None, answer=True):
        self.calls = []
        self.fail_at = fail_at
        self.action = action
        self.answer = answer

    def __call__(self, link, far):
        self.calls.append((link, far))
        if self.fail_at is not None and len(self.calls) == self.fail_at:
            raise KeyError("filter gave up")
        if self.action is not None:
            self.action(link, far, len(self.calls))
        return self.answer


class UnhashableFilter:
    """Callable that cannot be used as (part of) a dictionary key."""

    __hash__ = None

    def __call__(self, link, far):
        return True


class Truthy:
    """Filter result whose truth value is asked for, and counted."""

    def __init__(self, val, log):
        self.val = val
        self.log = log

    def __bool__(self):
        self.log.append(self.val)
        return self.val


# dill (used by nrpickler) pickles functions and classes of __main__ by value,
# which would turn the filters above into copies on every round trip.  Give
# this file a second, importable name so that everything pickles by reference
# (the child interpreter runs this same file and so does the same).
_ALIAS = "equiv_c05_main"
sys.modules.setdefault(_ALIAS, sys.modules[__name__])
for _obj in (
    OddLink,
    MyVertex,
    MyDirected,
    BothWays,
    HyperLink,
    BareLink,
    ff_even,
    ff_directed,
    ff_never,
    CountingFilter,
    UnhashableFilter,
    Truthy,
):
    _obj.__module__ = _ALIAS


# --------------------------------------------------------------------------
# naming, outcomes
# --------------------------------------------------------------------------


def nm(obj):
    """Stable printable name of a vertex / link / None."""
    if obj is None:
        return "None"
    if isinstance(obj, Vertex):
        return "v%s" % (getattr(obj, "i", "?"),)
    if isinstance(obj, Link):
        return "%s#%s" % (type(obj).__name__, getattr(obj, "n", "?"))
    return repr(obj)


def names(seq):
    return "[" + ",".join(nm(x) for x in seq) + "]"


LIB_EXC = (NotImplementedError, ValueError)


def outcome(fn, *args, **kwargs):
    """
    Run ``fn`` and describe what happened: ("ok", value) or
    ("exc", classname, message-if-raised-by-the-library).
    """
    try:
        return ("ok", fn(*args, **kwargs))
    except RecursionError:
        return ("exc", "RecursionError", "")
    except Exception as exc:  # pylint: disable=broad-except
        msg = str(exc) if isinstance(exc, LIB_EXC + (KeyError,)) else ""
        return ("exc", type(exc).__name__, msg)


def same_outcome(a, b):
    """Outcomes are the same: same exception, or identical value(s)."""
    if a[0] != b[0]:
        return False
    if a[0] == "exc":
        return a[1:] == b[1:]
    x, y = a[1], b[1]
    if isinstance(x, list) and isinstance(y, list):
        return len(x) == len(y) and all(p is q for p, q in zip(x, y))
    return x is y


def show(out):
    if out[0] == "exc":
        return "!%s(%s)" % (out[1], out[2])
    if isinstance(out[1], list):
        return names(out[1])
    return nm(out[1])


class caching:
    """Context manager: run a block with the flag set to a given value."""

    def __init__(self, flag):
        self.flag = flag

    def __enter__(self):
        self.prev = Vertex.NEIGHBOR_CACHING
        Vertex.NEIGHBOR_CACHING = self.flag

    def __exit__(self, *exc):
        Vertex.NEIGHBOR_CACHING = self.prev
        return False


# --------------------------------------------------------------------------
# the oracle: neighbours and traversals from the documentation, looking only
# at Vertex.links and Link.vertices
# --------------------------------------------------------------------------


def oracle_neighbors(vert, direction=FWD, unknown=U_ERR, ff=None):
    out = []
    for link in vert.links:
        if not hasattr(link, "other"):
            raise AttributeError("other")
        if isinstance(link, TwoEndedLink):
            ends = link.vertices
            first, second = ends[0], ends[1]
            if vert is first:
                far = second
            elif vert is second:
                far = first
            else:
                far = None
        else:
            far = link.other(vert)
            first = second = None

        kind = type(link)
        if direction == FWD or direction == BWD:
            if issubclass(kind, UnDirectedEdge):
                follow = True
            else:
                tail, head = (first, second) if direction == FWD else (second, first)
                if issubclass(kind, DirectedEdge) and tail is vert:
                    follow = True
                elif issubclass(kind, DirectedEdge) and head is vert:
                    follow = False
                elif unknown == U_NON:
                    follow = False
                elif unknown == U_NB:
                    follow = True
                else:
                    raise NotImplementedError(f"Unknown link class {kind}")
        elif direction == ANY:
            follow = True
        else:
            raise ValueError(
                f"Unknown option for direction_sensitive = {direction}"
            )
        if follow and (ff is None or ff(link, far)):
            out.append(far)
    return out


def oracle_bft(uni, start, direction=FWD, unknown=U_ERR, ff=None):
    if uni is not None and len(uni.vertices) == 0:
        return []
    if uni is not None and start not in uni.vertices:
        raise ValueError("Start vertex not in specified universe!")
    order = [start]
    queue = [start]
    while queue:
        cur = queue.pop(0)
        for nb in oracle_neighbors(cur, direction, unknown, ff):
            if uni is not None and nb not in uni.vertices:
                continue
            if not any(nb is seen for seen in order):
                order.append(nb)
                queue.append(nb)
    return order


def oracle_dft(uni, start, direction=FWD, unknown=U_ERR, ff=None):
    if uni is not None and len(uni.vertices) == 0:
        raise ValueError("Universe is empty; cannot perform this operation!")
    if uni is not None and start not in uni.vertices:
        raise ValueError("Start vertex not in specified universe!")
    order = []

    def visit(cur):
        order.append(cur)
        for nb in oracle_neighbors(cur, direction, unknown, ff):
            if uni is not None and nb not in uni.vertices:
                continue
            if not any(nb is seen for seen in order):
                visit(nb)

    visit(start)
    return order


# --------------------------------------------------------------------------
# the property check itself
# --------------------------------------------------------------------------

DIRECTIONS = (FWD, ANY, BWD)
UNKNOWNS = (U_NON, U_NB, U_ERR)
FILTERS = (None, ff_even, ff_directed)


def check_vertex(vert, direction, unknown, ff, where, trace=True):
    """
    neighbors() with caching on (twice), with caching off, and the oracle must
    all agree.  The flag is left on.
    """
    with caching(True):
        on1 = outcome(helpers.neighbors, vert, direction, unknown, ff)
        on2 = outcome(
            helpers.neighbors,
            vert,
            direction_sensitive=direction,
            unknown_handling=unknown,
            filterfunc=ff,
        )
    with caching(False):
        off = outcome(helpers.neighbors, vert, direction, unknown, ff)
    orc = outcome(oracle_neighbors, vert, direction, unknown, ff)
    tag = "%s %s d=%s u=%s f=%s" % (
        where,
        nm(vert),
        direction,
        unknown,
        getattr(ff, "__name__", ff),
    )
    check(same_outcome(on1, off), "cached != uncached at " + tag)
    check(same_outcome(on2, off), "cached(2nd) != uncached at " + tag)
    check(same_outcome(orc, off), "oracle != uncached at " + tag)
    if on1[0] == "ok":
        check(on1[1] is not on2[1], "same list handed out twice at " + tag)
        check(on1[1] is not off[1], "list shared at " + tag)
    if trace:
        T("nb", tag, show(on1))
    return on1


def check_all(verts, where, rng=None, prob=1.0, trace=True):
    for vert in verts:
        for direction in DIRECTIONS:
            for unknown in UNKNOWNS:
                for ff in FILTERS:
                    if rng is not None and rng.random() > prob:
                        continue
                    check_vertex(vert, direction, unknown, ff, where, trace)


TRAVERSALS = (
    ("bft", breadthfirst.bft, oracle_bft),
    ("dft_recursive", depthfirst.dft_recursive, oracle_dft),
    ("dft_iterative", depthfirst.dft_iterative, None),
)
SEARCHES = (
    ("bfs", breadthfirst.bfs),
    ("dfs_recursive", depthfirst.dfs_recursive),
    ("dfs_iterative", depthfirst.dfs_iterative),
)


def check_traversals(uni, start, direction, unknown, ff, where, target=None):
    for label, func, orc_func in TRAVERSALS:
        kwargs = {
            "direction_sensitive": direction,
            "unknown_handling": unknown,
            "ff_via": ff,
        }
        with caching(True):
            on1 = outcome(func, uni, start, **kwargs)
            on2 = outcome(func, uni, start, **kwargs)
        with caching(False):
            off = outcome(func, uni, start, **kwargs)
        tag = "%s %s from %s d=%s u=%s f=%s uni=%s" % (
            where,
            label,
            nm(start),
            direction,
            unknown,
            getattr(ff, "__name__", ff),
            uni is not None,
        )
        check(same_outcome(on1, off), "cached != uncached at " + tag)
        check(same_outcome(on2, off), "cached(2nd) != uncached at " + tag)
        if orc_func is not None:
            orc = outcome(orc_func, uni, start, direction, unknown, ff)
            check(same_outcome(orc, off), "oracle != uncached at " + tag)
        T("trav", tag, show(on1))
    if target is not None:
        for label, func in SEARCHES:
            with caching(True):
                on1 = outcome(func, uni, start, "i", target)
                on2 = outcome(func, uni, start, "i", target)
            with caching(False):
                off = outcome(func, uni, start, "i", target)
            tag = "%s %s from %s for %s uni=%s" % (
                where,
                label,
                nm(start),
                target,
                uni is not None,
            )
            check(same_outcome(on1, off), "cached != uncached at " + tag)
            check(same_outcome(on2, off), "cached(2nd) != uncached at " + tag)
            T("search", tag, show(on1))


def stats(where):
    T("stats", where, Vertex.total_cache_stats().replace("\n", " | "))


def public_vars(obj):
    return sorted(k for k in vars(obj) if not k.startswith("_"))


def mkverts(count, base=0, cls=Vertex, uid0=None):
    out = []
    for k in range(count):
        kwargs = {"attributes": {"i": base + k}}
        if uid0 is not None:
            kwargs["uid"] = uid0 + k
        out.append(cls(**kwargs))
    return out


_LINK_NO = [0]


def tag_link(link):
    """Give a link a serial number (BaseObject is a namespace)."""
    if link is not None and not hasattr(link, "n"):
        _LINK_NO[0] += 1
        link.n = _LINK_NO[0]
    return link


# --------------------------------------------------------------------------
# scripted corner cases
# --------------------------------------------------------------------------


def scripted_basics():
    Vertex.NEIGHBOR_CACHING = True
    a, b, c, d = mkverts(4, uid0=100)
    e1 = tag_link(explicit.link_directed(a, b))
    check_all([a, b, c, d], "basic/1")

    # the caller owns the returned list
    got = helpers.neighbors(a)
    got.append(c)
    got.reverse()
    check(helpers.neighbors(a) == [b], "mutating the result poisoned the memo")
    again = helpers.neighbors(a)
    check(again is not got and again is not helpers.neighbors(a), "list reuse")

    # every public way of changing the graph, asked from both ends
    e2 = tag_link(explicit.link_undirected(b, c))
    check_all([a, b, c, d], "basic/2")
    e3 = tag_link(explicit.link_from_to(c, OddLink, d))
    check_all([a, b, c, d], "basic/3")
    same = explicit.link_directed(a, b, dontdup=True)
    check(same is e1, "dontdup made a new link")
    check_all([a, b, c, d], "basic/4")

    e1.v2 = c  # a -> c
    check_all([a, b, c, d], "basic/5 v2=")
    e1.v1 = d  # d -> c
    check_all([a, b, c, d], "basic/6 v1=")
    e1.v1 = d  # the same again
    check_all([a, b, c, d], "basic/7 v1= same")
    e1.v2 = d  # self loop d -> d
    check_all([a, b, c, d], "basic/8 self loop")
    e1.v1 = a  # a -> d
    check_all([a, b, c, d], "basic/9 loop undone")
    e2.v1 = a  # a -- c
    check_all([a, b, c, d], "basic/10")
    e2.v2 = None  # a -- nothing
    check_all([a, b, c, d], "basic/11 None end")
    T("ends", names(e2.vertices), names(a.links), names(c.links))
    e2.v2 = b
    check_all([a, b, c, d], "basic/12")
    e2.v1 = None
    e2.v1 = None
    check_all([a, b, c, d], "basic/13 None end twice")
    e2.v1 = c
    check_all([a, b, c, d], "basic/14")

    # vertex-side and link-side detaching
    a.remove_from_link(e1)
    check_all([a, b, c, d], "basic/15 remove_from_link")
    T("ends", names(e1.vertices), names(a.links), names(d.links))
    e1.unlink_from(d)
    check_all([a, b, c, d], "basic/16 unlink_from")
    e1.unlink_from(d)  # nothing to do
    a.remove_from_link(e1)  # nothing to do
    check_all([a, b, c, d], "basic/17 idempotent")
    T("ends", names(e1.vertices), names(a.links), names(d.links))

    # builders
    explicit.unlink(c, d)
    check_all([a, b, c, d], "basic/18 unlink")
    removed = explicit.unlink(b, c, destroy=False)
    check(removed == {e2}, "unlink(destroy=False) returned %r" % (removed,))
    check_all([a, b, c, d], "basic/19 unlink keep")
    check(explicit.unlink(a, d) is None, "unlink returns None")
    check_all([a, b, c, d], "basic/20 nothing to unlink")

    # attaching through the constructors / add_to_link / add_vertex
    e4 = tag_link(DirectedEdge(a, b))
    x = Vertex(attributes={"i": 4}, links=[e4], uid=104)
    check_all([a, b, x], "basic/21 third end via Vertex(links=)")
    T("ends", names(e4.vertices), names(x.links))
    x.remove_from_link(e4)
    check_all([a, b, x], "basic/22")
    e4.add_vertex(x)
    check_all([a, b, x], "basic/23 add_vertex")
    e4.add_vertex(x)  # listed twice now
    check_all([a, b, x], "basic/24 add_vertex twice")
    T("ends", names(e4.vertices), names(x.links))
    e4.unlink_from(x)
    check_all([a, b, x], "basic/25")
    T("ends", names(e4.vertices), names(x.links))
    x.add_to_link(e4)
    x.add_to_link(e4)
    check_all([a, b, x], "basic/26 add_to_link twice")
    e4.unlink_from(None)
    e4.add_vertex(None)
    check_all([a, b, x], "basic/27 None listed")
    e4.unlink_from(None)
    check_all([a, b, x], "basic/28 None unlisted")
    T("ends", names(e4.vertices))

    # self loops and parallel links
    s = Vertex(attributes={"i": 6}, uid=106)
    l1 = tag_link(explicit.link_directed(s, s))
    l2 = tag_link(explicit.link_undirected(s, s))
    l3 = tag_link(explicit.link_directed(s, a))
    l4 = tag_link(explicit.link_directed(s, a))
    check_all([s, a], "basic/29 loops")
    l1.v1 = a
    check_all([s, a], "basic/30 loop opened")
    l1.v1 = s
    s.remove_from_link(l1)
    check_all([s, a], "basic/31 loop removed from vertex")
    T("ends", names(l1.vertices), names(s.links))
    l2.unlink_from(s)
    check_all([s, a], "basic/32 loop removed from link")
    T("ends", names(l2.vertices), names(s.links))
    explicit.unlink(s, a)
    check_all([s, a], "basic/33 parallel unlinked")
    T("ends", names(l3.vertices), names(l4.vertices), names(s.links))

    # nobody and nothing
    lone = TwoEndedLink()
    tag_link(lone)
    T("ends", names(lone.vertices))
    lone.v1 = a
    lone.v2 = a
    check_all([a], "basic/34 filled empty link")
    lone.v2 = None
    lone.v1 = None
    check_all([a], "basic/35 emptied link")
    T("ends", names(lone.vertices), names(a.links))

    T("vars", public_vars(a), public_vars(e1), public_vars(Universe()))
    stats("basics")
    Vertex.NEIGHBOR_CACHING = False


def scripted_errors():
    """Odd arguments, odd classes."""
    Vertex.NEIGHBOR_CACHING = True
    a, b, c = mkverts(3, base=10, uid0=200)

    # no links: nothing is looked at, not even the direction
    for direction in (7, None, "x", True, False, 2.0, -1):
        for flag in (True, False):
            with caching(flag):
                T("nolinks", direction, flag, show(outcome(helpers.neighbors, a, direction)))
    tag_link(explicit.link_directed(a, b))
    tag_link(explicit.link_undirected(a, c))
    tag_link(explicit.link_from_to(a, OddLink, c))
    for direction in (7, None, "x", True, False, 2.0, -1):
        for unknown in (0, 1, 2, True, False, None, 9, "x"):
            for flag in (True, False, True):
                with caching(flag):
                    T(
                        "oddargs",
                        direction,
                        unknown,
                        flag,
                        show(outcome(helpers.neighbors, a, direction, unknown)),
                        show(outcome(helpers.neighbors, c, direction, unknown, ff_even)),
                    )
    for flag in (True, False, True):
        with caching(flag):
            T("unhashable-ff", flag, show(outcome(helpers.neighbors, a, ANY, U_NB, UnhashableFilter())))
            T("unhashable-dir", flag, show(outcome(helpers.neighbors, a, [1], U_NB)))
            T("unhashable-unk", flag, show(outcome(helpers.neighbors, a, ANY, {})))
            T("unhashable-dir-nolinks", flag, show(outcome(helpers.neighbors, Vertex(uid=299), [1])))
            T("not-a-vertex", flag, show(outcome(helpers.neighbors, None)), show(outcome(helpers.neighbors, "v")))

    # subclasses
    va, vb, vc = mkverts(3, base=20, cls=MyVertex, uid0=220)
    tag_link(MyDirected(va, vb))
    tag_link(BothWays(vb, vc))
    tag_link(BothWays(vc, va))
    check_all([va, vb, vc], "subclasses")
    check_traversals(None, va, FWD, U_ERR, None, "subclasses", target=22)

    # a directed edge with a third vertex: that vertex is on neither end
    e = tag_link(DirectedEdge(va, vb))
    vc.add_to_link(e)
    check_all([va, vb, vc], "third wheel")
    vc.remove_from_link(e)
    check_all([va, vb, vc], "third wheel gone")

    # links that are not two-ended
    h1, h2, h3 = mkverts(3, base=30, uid0=230)
    tag_link(HyperLink(vertices=[h1, h2, h3]))
    check_all([h1, h2, h3], "hyper")
    tag_link(BareLink(vertices=[h1, h2]))
    check_all([h1, h2, h3], "bare")

    # broken two-ended links (one end missing) raise the same thing
    p, q = mkverts(2, base=40, uid0=240)
    e = tag_link(explicit.link_directed(p, q))
    p.remove_from_link(e)
    check_all([p, q], "one-ended")
    for flag in (True, False):
        with caching(flag):
            def set1():
                e.v1 = p

            def set2():
                e.v2 = p

            T("set end of one-ended", flag, show(outcome(set1)), show(outcome(set2)), names(e.vertices))
    check_all([p, q], "one-ended after failed set")
    e.add_vertex(p)
    check_all([p, q], "two-ended again")
    T("ends", names(e.vertices))

    # things that are not vertices
    for flag in (True, False):
        with caching(flag):
            T("bad ctor", flag, show(outcome(DirectedEdge, a, "b")), show(outcome(UnDirectedEdge, 3, a)), show(outcome(Link)))
            lk = tag_link(explicit.link_directed(a, b))

            def setbad():
                lk.v2 = "nope"

            def setgood():
                lk.v2 = b

            T("bad end", flag, show(outcome(setbad)), names(lk.vertices[:1]), names(a.links), names(b.links))
            T("after bad end", show(outcome(helpers.neighbors, a, ANY, U_NB)), show(outcome(helpers.neighbors, b, ANY, U_NB)))
            T("bad end repair", flag, show(outcome(setgood)), names(lk.vertices[:1]), names(a.links), names(b.links))
            check_all([a, b], "bad end repaired %s" % flag)
            T("bad end unlink", flag, show(outcome(explicit.unlink, a, b)), show(outcome(lk.unlink_from, a)), names(a.links), names(b.links))
            check_all([a, b], "bad end cleaned %s" % flag)
            T("bad add_vertex", flag, show(outcome(lk.add_vertex, 5)), len(lk.vertices))
    stats("errors")
    Vertex.NEIGHBOR_CACHING = False


def scripted_callbacks():
    """Number / order of filter calls; filters that raise or change things."""
    Vertex.NEIGHBOR_CACHING = True
    hub, *spokes = mkverts(6, base=50, uid0=300)
    links = [tag_link(explicit.link_directed(hub, s)) for s in spokes[:3]]
    links.append(tag_link(explicit.link_directed(spokes[3], hub)))
    links.append(tag_link(explicit.link_undirected(spokes[4], hub)))
    links.append(tag_link(explicit.link_from_to(hub, OddLink, spokes[0])))

    for direction in DIRECTIONS:
        for unknown in (U_NON, U_NB):
            ff = CountingFilter()
            first = helpers.neighbors(hub, direction, unknown, ff)
            seen = [(nm(l), nm(v)) for l, v in ff.calls]
            T("ff calls", direction, unknown, seen, names(first))
            expected = [
                (nm(l), nm(l.other(hub)))
                for l in hub.links
                if oracle_neighbors(hub, direction, unknown, lambda x, y, l=l: x is l)
            ]
            check(seen == expected, "filter calls %r != %r" % (seen, expected))
            second = helpers.neighbors(hub, direction, unknown, ff)
            check(len(ff.calls) == len(seen), "a cache hit called the filter")
            check(same_outcome(("ok", first), ("ok", second)), "hit differs")
            with caching(False):
                third = helpers.neighbors(hub, direction, unknown, ff)
            check(len(ff.calls) == 2 * len(seen), "uncached call count")
            check(same_outcome(("ok", first), ("ok", third)), "uncached differs")

    # truth value of the filter's answer is asked exactly once per call
    log = []
    res = helpers.neighbors(hub, ANY, U_NB, lambda l, v: Truthy(v.i % 2 == 1, log))
    T("truthy", log, names(res))
    check(len(log) == len(hub.links), "truth value asked %d times" % len(log))

    # a filter that raises: the exception comes out, nothing is remembered
    for flag in (True, False):
        with caching(flag):
            for fail_at in (1, 2, 6):
                ff = CountingFilter(fail_at=fail_at)
                res1 = outcome(helpers.neighbors, hub, ANY, U_NB, ff)
                n1 = len(ff.calls)
                res2 = outcome(helpers.neighbors, hub, ANY, U_NB, ff)
                n2 = len(ff.calls)
                res3 = outcome(helpers.neighbors, hub, ANY, U_NB, ff)
                n3 = len(ff.calls)
                T("raising ff", flag, fail_at, show(res1), n1, show(res2), n2, show(res3), n3)
                check(res1[0] == "exc" and res1[1] == "KeyError", "KeyError expected")
                check(n1 == fail_at, "stopped at the failing call")
                check(res2[0] == "ok" and n2 == fail_at + 6, "recomputed after failure")
                check(n3 == (n2 if flag else n2 + 6), "then served from the memo")
    check_all([hub] + spokes, "after raising filters")

    # unknown link class error is raised before the filter sees that link
    ff = CountingFilter()
    res = outcome(helpers.neighbors, hub, FWD, U_ERR, ff)
    T("error position", show(res), [(nm(l), nm(v)) for l, v in ff.calls])

    # a filter that changes the graph while neighbors() is running
    def cutter(link, far, count):
        if count == 2:
            explicit.unlink(hub, spokes[2])

    for flag in (True, False):
        with caching(flag):
            tag_link(explicit.link_directed(hub, spokes[2], dontdup=True))
            ff = CountingFilter(action=cutter)
            res1 = outcome(helpers.neighbors, hub, ANY, U_NB, ff)
            res2 = outcome(helpers.neighbors, hub, ANY, U_NB, ff)
            res3 = outcome(helpers.neighbors, hub, ANY, U_NB, None)
            T("cutting ff", flag, show(res1), show(res2), show(res3), len(ff.calls), names(hub.links))

    # a filter that flips the flag while neighbors() is running
    def flipper(link, far, count):
        Vertex.NEIGHBOR_CACHING = not Vertex.NEIGHBOR_CACHING

    for flag in (True, False):
        Vertex.NEIGHBOR_CACHING = flag
        for who in (spokes[3], spokes[0], spokes[3]):
            ff = CountingFilter(action=flipper)
            res1 = outcome(helpers.neighbors, who, ANY, U_NB, ff)
            mid = Vertex.NEIGHBOR_CACHING
            res2 = outcome(helpers.neighbors, who, ANY, U_NB, ff)
            T("flipping ff", flag, nm(who), mid, Vertex.NEIGHBOR_CACHING, show(res1), show(res2), len(ff.calls))
    Vertex.NEIGHBOR_CACHING = True
    check_all([hub] + spokes, "after odd filters")

    # ff_via / ff_result of the traversals
    calls = []

    def via(link, far):
        calls.append(("via", nm(link), nm(far)))
        return far.i != 52

    def result(vert):
        calls.append(("res", nm(vert)))
        return vert.i % 2 == 0

    for label, func, _ in TRAVERSALS:
        per_flag = []
        for flag in (True, False):
            with caching(flag):
                del calls[:]
                got = outcome(func, None, hub, direction_sensitive=ANY, unknown_handling=U_NB, ff_via=via, ff_result=result)
                per_flag.append((show(got), list(calls)))
        T("ff_via/ff_result", label, per_flag)
        check(per_flag[0][0] == per_flag[1][0], "ff_result/ff_via differ for " + label)
    stats("callbacks")
    Vertex.NEIGHBOR_CACHING = False


def scripted_flag():
    """Switching the flag at awkward moments."""
    Vertex.NEIGHBOR_CACHING = False
    a, b, c, d = mkverts(4, base=60, uid0=400)
    uni = Universe(vertices=[a, b, c, d])
    T("disabled stats", Vertex.total_cache_stats())
    e1 = tag_link(explicit.link_directed(a, b))
    T("off", names(helpers.neighbors(a)))
    Vertex.NEIGHBOR_CACHING = True
    T("on", names(helpers.neighbors(a)), names(helpers.neighbors(a)))
    Vertex.NEIGHBOR_CACHING = False
    e2 = tag_link(explicit.link_directed(a, c))  # changed while off
    e1.v2 = d
    Vertex.NEIGHBOR_CACHING = True
    check_all([a, b, c, d], "flag/1 changed while off")
    check_traversals(uni, a, FWD, U_ERR, None, "flag/1", target=63)
    Vertex.NEIGHBOR_CACHING = False
    explicit.unlink(a, d)
    Vertex.NEIGHBOR_CACHING = True
    check_all([a, b, c, d], "flag/2 unlinked while off")
    Vertex.NEIGHBOR_CACHING = False
    e2.v1 = b
    b.remove_from_link(e2)
    Vertex.NEIGHBOR_CACHING = True
    check_all([a, b, c, d], "flag/3")

    # flag set on one instance / on a subclass only
    Vertex.NEIGHBOR_CACHING = False
    p, q, r = mkverts(3, base=70, uid0=470)
    m1, m2 = mkverts(2, base=75, cls=MyVertex, uid0=475)
    tag_link(explicit.link_directed(p, q))
    tag_link(explicit.link_directed(m1, m2))
    p.NEIGHBOR_CACHING = True
    MyVertex.NEIGHBOR_CACHING = True
    try:
        ff = CountingFilter()
        r1 = helpers.neighbors(p, ANY, U_NB, ff)
        r2 = helpers.neighbors(p, ANY, U_NB, ff)
        r3 = helpers.neighbors(m1, ANY, U_NB, ff)
        r4 = helpers.neighbors(m1, ANY, U_NB, ff)
        r5 = helpers.neighbors(q, ANY, U_NB, ff)
        r6 = helpers.neighbors(q, ANY, U_NB, ff)
        T("instance flag", names(r1), names(r2), names(r3), names(r4), names(r5), names(r6), len(ff.calls))
        tag_link(explicit.link_directed(p, r))
        tag_link(explicit.link_directed(m1, r))
        T("instance flag after change", names(helpers.neighbors(p, ANY, U_NB, ff)), names(helpers.neighbors(m1, ANY, U_NB, ff)), len(ff.calls))
        T("subclass stats", MyVertex.total_cache_stats().replace("\n", " | "))
        T("class stats", Vertex.total_cache_stats().replace("\n", " | "))
        T("vars", public_vars(p), public_vars(q))
    finally:
        del p.NEIGHBOR_CACHING
        del MyVertex.NEIGHBOR_CACHING
    Vertex.NEIGHBOR_CACHING = True
    stats("flag")
    Vertex.NEIGHBOR_CACHING = False


SPY_LOG = []


class SpyDirected(DirectedEdge):
    """Directed edge that reports every look at its ends."""

    @property
    def v1(self):
        SPY_LOG.append("%s.v1" % nm(self))
        return super().v1

    @v1.setter
    def v1(self, new):
        super()._set_v1(new)

    @property
    def v2(self):
        SPY_LOG.append("%s.v2" % nm(self))
        return super().v2

    @v2.setter
    def v2(self, new):
        super()._set_v2(new)

    def other(self, end):
        SPY_LOG.append("%s.other(%s)" % (nm(self), nm(end)))
        return super().other(end)


class SpyUndirected(UnDirectedEdge):
    """Undirected edge that reports every look at its ends."""

    @property
    def v1(self):
        SPY_LOG.append("%s.v1" % nm(self))
        return super().v1

    @property
    def v2(self):
        SPY_LOG.append("%s.v2" % nm(self))
        return super().v2

    def other(self, end):
        SPY_LOG.append("%s.other(%s)" % (nm(self), nm(end)))
        return super().other(end)


class SpyOdd(OddLink):
    """Unknown link class that reports every look at its ends."""

    def other(self, end):
        SPY_LOG.append("%s.other(%s)" % (nm(self), nm(end)))
        return super().other(end)


class SpyValue:
    """Stands in for an option constant; reports what it is compared with."""

    def __init__(self, value):
        self.value = value

    def __eq__(self, other):
        SPY_LOG.append("%r==%r" % (self, other))
        return self.value == other

    def __hash__(self):
        SPY_LOG.append("hash(%r)" % (self,))
        return hash(self.value)

    def __repr__(self):
        return "Spy(%r)" % (self.value,)


def scripted_internals():
    """
    What neighbors() asks of the links and of its own arguments, in which
    order and how often (user subclasses can see all of this).
    """
    a, b, c, d = mkverts(4, base=120, uid0=900)
    made = [
        SpyDirected(a, b),
        SpyDirected(c, a),
        SpyUndirected(a, d),
        SpyOdd(a, c),
        SpyDirected(a, a),
        SpyOdd(b, a),
    ]
    for link in made:
        tag_link(link)
    third = SpyDirected(b, c)
    tag_link(third)
    a.add_to_link(third)  # a is on neither end of this one
    spy_ff = CountingFilter()

    for flag in (False, True, True):
        Vertex.NEIGHBOR_CACHING = flag
        for direction in (FWD, ANY, BWD, 5):
            for unknown in (U_NON, U_NB, U_ERR, 5):
                for ff in (None, spy_ff):
                    del SPY_LOG[:]
                    del spy_ff.calls[:]
                    res = outcome(helpers.neighbors, a, direction, unknown, ff)
                    T("spy", flag, direction, unknown, ff is not None, show(res), SPY_LOG, [(nm(l), nm(v)) for l, v in spy_ff.calls])
        for direction in (FWD, ANY, BWD, 5):
            for unknown in (U_NON, U_NB, U_ERR, 5):
                del SPY_LOG[:]
                sd, su = SpyValue(direction), SpyValue(unknown)
                res = outcome(helpers.neighbors, a, sd, su)
                res2 = outcome(helpers.neighbors, a, sd, su)
                T("spyargs", flag, direction, unknown, show(res), show(res2), SPY_LOG)
                del SPY_LOG[:]
                res = outcome(helpers.neighbors, d, direction_sensitive=SpyValue(direction), unknown_handling=SpyValue(unknown), filterfunc=None)
                T("spyargs2", flag, direction, unknown, show(res), SPY_LOG)
        # searches / traversals over spied links
        del SPY_LOG[:]
        T("spytrav", flag, show(outcome(breadthfirst.bft, None, a, unknown_handling=U_NB)), show(outcome(depthfirst.dft_iterative, None, a, unknown_handling=U_NON)), show(outcome(depthfirst.dfs_recursive, None, c, "i", 121)), SPY_LOG)
    del SPY_LOG[:]
    Vertex.NEIGHBOR_CACHING = True
    check_all([a, b, c, d], "spied graph")
    made[0].v2 = d
    made[1].v1 = b
    check_all([a, b, c, d], "spied graph rewired")
    del SPY_LOG[:]
    stats("internals")
    Vertex.NEIGHBOR_CACHING = False


class NosyUniverse(Universe):
    """A universe that looks at the neighbors of everything it is given."""

    seen = []

    def add_vertex(self, vert):
        self.seen.append(show(outcome(helpers.neighbors, vert, ANY, U_NB)))
        super().add_vertex(vert)
        self.seen.append(show(outcome(helpers.neighbors, vert, ANY, U_NB)))


def scripted_construction():
    """Vertices seen while (or without) being constructed, reused uids."""
    for flag in (True, False, True):
        Vertex.NEIGHBOR_CACHING = flag
        a, b = mkverts(2, base=110, uid0=800)
        e = tag_link(explicit.link_directed(a, b))
        del NosyUniverse.seen[:]
        nosy = NosyUniverse()
        res1 = outcome(Vertex, attributes={"i": 112}, universes=[nosy], uid=802)
        res2 = outcome(Vertex, attributes={"i": 113}, universes=[nosy], links=[e], uid=803)
        res3 = outcome(Vertex, attributes={"i": 114}, universes=(u for u in [nosy, nosy]), links=iter([e, e]), uid=804)
        T("nosy", flag, res1[0], res2[0], res3[0], NosyUniverse.seen, names(nosy.vertices), names(e.vertices))
        check_all([a, b] + nosy.vertices, "nosy %s" % flag)
        if flag:
            stats("nosy")

        raw = Vertex.__new__(Vertex)
        T("raw vertex", flag, show(outcome(helpers.neighbors, raw)), show(outcome(raw.add_to_link, e)), show(outcome(raw.remove_from_link, e)))
        T("raw vertex 2", flag, show(outcome(e.add_vertex, raw)), len(e.vertices), show(outcome(helpers.neighbors, a, ANY)))
        T("raw vertex 3", flag, show(outcome(e.unlink_from, raw)), len(e.vertices), show(outcome(helpers.neighbors, a, ANY)))

        # the same uid again: the counters start over
        one = Vertex(uid=850, attributes={"i": 150})
        tag_link(explicit.link_directed(one, a))
        helpers.neighbors(one)
        helpers.neighbors(one)
        if flag:
            stats("uid first")
        two = Vertex(uid=850, attributes={"i": 151})
        if flag:
            stats("uid again")
        helpers.neighbors(one)
        helpers.neighbors(two)
        if flag:
            stats("uid shared")
        T("odd uid", flag, show(outcome(Vertex, uid=[1])), show(outcome(Vertex, uid={})), outcome(Vertex, uid="name")[0], outcome(Vertex, uid=0)[0])
        T("bad kwargs", flag, show(outcome(Vertex, attributes=[1])), show(outcome(Vertex, links=5)), show(outcome(Vertex, links=[5])), show(outcome(Vertex, universes=[5])), show(outcome(Vertex, attributes={"links": 1})))
        if flag:
            stats("odd construction")
    Vertex.NEIGHBOR_CACHING = False


def child_main(path):
    """
    Fresh interpreter: load a pickled graph, query / change / query with the
    cache on, and print what was seen (the parent compares and traces it).
    """
    Vertex.NEIGHBOR_CACHING = True
    with open(path, "rb") as handle:
        verts, links, uni = pickle.load(handle)
    print("stats0", Vertex.total_cache_stats().replace("\n", " | "))
    check_all(verts, "child/loaded")
    check_traversals(uni, verts[0], FWD, U_NB, None, "child/loaded", target=3)
    links[0].v2 = verts[3]
    check_all(verts, "child/v2=")
    explicit.unlink(verts[1], verts[2])
    check_all(verts, "child/unlink")
    tag_link(explicit.link_undirected(verts[4], verts[0]))
    check_all(verts, "child/link")
    verts[2].remove_from_link(verts[2].links[0])
    check_all(verts, "child/remove_from_link")
    check_traversals(uni, verts[0], ANY, U_NB, ff_even, "child/end", target=4)
    stats("child")
    for line in TRACE:
        print(line)
    print("FAILS", len(FAILS))
    return 0 if not FAILS else 1


def scripted_pickling():
    """Round trips in this interpreter and into a fresh one; copies."""
    Vertex.NEIGHBOR_CACHING = True
    verts = mkverts(5, uid0=500)
    uni = Universe(vertices=verts)
    links = [
        tag_link(explicit.link_directed(verts[0], verts[1])),
        tag_link(explicit.link_directed(verts[1], verts[2])),
        tag_link(explicit.link_undirected(verts[2], verts[3])),
        tag_link(explicit.link_from_to(verts[3], OddLink, verts[4])),
        tag_link(explicit.link_directed(verts[2], verts[2])),
    ]
    check_all(verts, "pickle/before")  # memos are full now

    for label, dumper in (
        ("pickle", pickle.dumps),
        ("nrpickler", nrpickler.dumps),
        ("pickle-p2", lambda o: pickle.dumps(o, protocol=2)),
    ):
        blob = dumper((verts, links, uni))
        verts2, links2, uni2 = pickle.loads(blob)
        check(all(x is not y for x, y in zip(verts, verts2)), "copies expected")
        # memo came along and still answers correctly
        check_all(verts2, "pickle/%s loaded" % label)
        links2[0].v2 = verts2[3]
        check_all(verts2, "pickle/%s v2=" % label)
        explicit.unlink(verts2[2], verts2[2])
        check_all(verts2, "pickle/%s unlink loop" % label)
        verts2[3].remove_from_link(links2[2])
        check_all(verts2, "pickle/%s remove" % label)
        links2[2].unlink_from(verts2[2])
        check_all(verts2, "pickle/%s repaired" % label)
        check_traversals(uni2, verts2[0], ANY, U_NB, None, "pickle/" + label, target=4)
        # the originals did not move
        check_all(verts, "pickle/%s originals" % label, trace=False)
        T("vars", label, public_vars(verts2[0]), public_vars(links2[0]), public_vars(uni2))

    # a memo keyed by something that cannot be pickled
    helpers.neighbors(verts[0], ANY, U_NB, lambda l, v: True)
    for flag in (True, False):
        with caching(flag):
            T("lambda in memo", flag, outcome(pickle.dumps, verts[0])[0])
    tag_link(explicit.link_directed(verts[0], verts[4]))  # drops that memo
    T("lambda dropped", show(outcome(lambda: len(pickle.dumps(verts[0])) > 0)))
    explicit.unlink(verts[0], verts[4])

    # fresh interpreter
    fd, path = tempfile.mkstemp(suffix=".pickle")
    try:
        with os.fdopen(fd, "wb") as handle:
            pickle.dump((verts, links, uni), handle)
        env = dict(os.environ)
        proc = subprocess.run(
            [sys.executable, os.path.abspath(__file__), "--child", path],
            capture_output=True,
            text=True,
            env=env,
            check=False,
            timeout=600,
        )
    finally:
        os.unlink(path)
    check(proc.returncode == 0, "child failed: " + proc.stderr[-2000:])
    for line in proc.stdout.splitlines():
        T("child>", line)

    # shallow and deep copies of a vertex
    a, b, c = mkverts(3, base=80, uid0=580)
    tag_link(explicit.link_directed(a, b))
    helpers.neighbors(a)

    def ask(vert, *args):
        return show(outcome(helpers.neighbors, vert, *args))

    twin = copy.copy(a)
    deep = copy.deepcopy(a)
    T("copies", ask(twin), ask(deep), ask(twin, ANY), ask(deep, ANY))
    tag_link(explicit.link_directed(a, c))
    for flag in (True, False, True):
        with caching(flag):
            T(
                "copies after change",
                flag,
                ask(a),
                ask(twin),
                ask(deep),
                ask(a, ANY),
                ask(twin, ANY),
                ask(deep, ANY),
                names(twin.links),
                names(deep.links),
            )
    T("copies shared", ask(a, BWD, U_NB), ask(twin, BWD, U_NB))
    explicit.unlink(a, b)
    T("copies shared 2", ask(a, ANY), ask(twin, ANY), ask(twin), ask(a, BWD, U_NB), ask(twin, BWD, U_NB))
    e = a.links[0]
    twin_e = copy.copy(e)
    e.v2 = b
    T("link copy", names(e.vertices), names(twin_e.vertices), ask(a), ask(b, ANY), ask(c, ANY))
    twin_e.unlink_from(a)
    T("link copy 2", names(e.vertices), names(twin_e.vertices), ask(a), ask(b, ANY), names(a.links))
    stats("pickling")
    Vertex.NEIGHBOR_CACHING = False


def scripted_builders():
    """Graphs made by the other builders, traversed with and without cache."""
    Vertex.NEIGHBOR_CACHING = True
    random.seed(20240501)
    for count, edge in ((1, DirectedEdge), (2, UnDirectedEdge), (9, DirectedEdge), (12, UnDirectedEdge), (7, OddLink)):
        uni = randgraph.randgraph(count=count, edge=edge)
        verts = uni.vertices
        check_all(verts, "randgraph %d %s" % (count, edge.__name__), trace=False)
        for start in verts[:4]:
            check_traversals(uni, start, FWD, U_NB, None, "randgraph %d" % count, target=count - 1)
            check_traversals(None, start, BWD, U_NON, ff_even, "randgraph %d" % count)
        # rewire and go again
        if len(verts) >= 3 and verts[0].links:
            verts[0].links[0].v1 = verts[2]
            explicit.unlink(verts[1], verts[1].links[0].other(verts[1])) if verts[1].links else None
            check_all(verts, "randgraph rewired %d" % count, trace=False)
            check_traversals(uni, verts[2], ANY, U_NB, None, "randgraph rewired %d" % count, target=0)
    T("random state", random.random())

    verts = mkverts(6, base=90, uid0=600)
    adj = {
        verts[0]: (v for v in verts[1:4]),  # a generator
        verts[1]: [verts[2], verts[2], verts[1]],  # repeated, self
        verts[2]: (),
        verts[3]: [verts[0]],
        verts[5]: [],
    }
    uni = adjlist.load_adj_dict(adj, linktype=DirectedEdge)
    for n, link in enumerate(l for v in verts for l in v.links):
        tag_link(link)
    check_all(verts, "adjlist")
    check_traversals(uni, verts[0], FWD, U_ERR, None, "adjlist", target=93)
    verts[1].links[0].v2 = verts[4]
    check_all(verts, "adjlist rewired")
    check_traversals(None, verts[0], FWD, U_ERR, None, "adjlist rewired", target=94)

    verts = mkverts(4, base=100, uid0=700)
    matrix = [[0, 1, 1, 0], [0, 1, 0, 1], [1, 0, 0, 0], [0, 0, 0, 0]]
    uni = adjmatrix.load_adj_matrix(matrix, verts, linktype=UnDirectedEdge)
    check_all(verts, "adjmatrix", trace=False)
    check_traversals(uni, verts[0], FWD, U_ERR, None, "adjmatrix", target=103)
    explicit.unlink(verts[0], verts[2])
    check_all(verts, "adjmatrix unlinked", trace=False)
    check_traversals(uni, verts[0], FWD, U_ERR, None, "adjmatrix unlinked", target=102)

    # vertex outside the universe, empty universe, start not inside
    outsider = Vertex(attributes={"i": 199}, uid=799)
    tag_link(explicit.link_directed(verts[0], outsider))
    tag_link(explicit.link_directed(outsider, verts[3]))
    check_traversals(uni, verts[0], FWD, U_ERR, None, "outsider", target=199)
    check_traversals(uni, outsider, FWD, U_ERR, None, "outsider start", target=100)
    check_traversals(Universe(), outsider, FWD, U_ERR, None, "empty universe", target=100)
    stats("builders")
    Vertex.NEIGHBOR_CACHING = False


def scripted_depth():
    """
    How long a chain can the recursive traversal walk with a fixed amount of
    stack head-room?  (Same with and without the cache, same as before.)
    """
    chain = mkverts(400, base=1000, uid0=5000)
    for x, y in zip(chain, chain[1:]):
        explicit.link_directed(x, y)
    uchain = mkverts(400, base=2000, uid0=6000)
    for x, y in zip(uchain, uchain[1:]):
        explicit.link_undirected(x, y)

    def longest(first, flag):
        def probe():
            depth = 0
            frame = sys._getframe()
            while frame is not None:
                depth += 1
                frame = frame.f_back
            old = sys.getrecursionlimit()
            sys.setrecursionlimit(depth + 300)
            try:
                with caching(flag):
                    lo, hi = 1, 400
                    while lo < hi:
                        mid = (lo + hi + 1) // 2
                        uni = Universe(vertices=first[:mid])
                        res = outcome(depthfirst.dft_recursive, uni, first[0])
                        if res[0] == "ok" and len(res[1]) == mid:
                            lo = mid
                        else:
                            hi = mid - 1
                    found = outcome(depthfirst.dfs_recursive, None, first[0], "i", first[lo - 1].i)
                    return lo, found[0]
            finally:
                sys.setrecursionlimit(old)

        return probe()

    for label, first in (("directed", chain), ("undirected", uchain)):
        cold = longest(first, True)
        warm = longest(first, True)
        off = longest(first, False)
        T("depth", label, cold, warm, off)


# --------------------------------------------------------------------------
# seeded random histories
# --------------------------------------------------------------------------


def random_history(seed, steps, nverts):
    rng = random.Random(seed)
    Vertex.NEIGHBOR_CACHING = True
    verts = mkverts(nverts, uid0=10000 + 100 * (seed % 50))
    uni = Universe(vertices=verts[: nverts - 1])  # one vertex stays outside
    links = []
    where = "rnd%d" % seed

    def pick_link():
        return rng.choice(links) if links else None

    for step in range(steps):
        roll = rng.random()
        a, b = rng.choice(verts), rng.choice(verts)
        desc = "?"
        if roll < 0.22 or not links:
            kind = rng.choice((DirectedEdge, DirectedEdge, UnDirectedEdge, OddLink, MyDirected))
            dontdup = rng.random() < 0.3
            if kind is DirectedEdge:
                res = outcome(explicit.link_directed, a, b, dontdup=dontdup)
            elif kind is UnDirectedEdge:
                res = outcome(explicit.link_undirected, a, b, dontdup=dontdup)
            else:
                res = outcome(explicit.link_from_to, a, kind, b, dontdup=dontdup)
            if res[0] == "ok" and not hasattr(res[1], "n"):
                tag_link(res[1])
                links.append(res[1])
            desc = "link %s %s %s dontdup=%s -> %s" % (nm(a), kind.__name__, nm(b), dontdup, show(res))
        elif roll < 0.36:
            destroy = rng.random() < 0.5
            res = outcome(explicit.unlink, a, b, destroy=destroy)
            desc = "unlink %s %s %s -> %s" % (
                nm(a),
                nm(b),
                destroy,
                sorted(nm(l) for l in res[1]) if res[0] == "ok" and res[1] is not None else show(res),
            )
        elif roll < 0.56:
            link = pick_link()
            end = rng.choice(("v1", "v2"))
            new = rng.choice(verts + [link.vertices[0] if link.vertices else a])
            if rng.random() < 0.03:
                new = None
            res = outcome(setattr, link, end, new)
            desc = "%s.%s = %s -> %s" % (nm(link), end, nm(new), show(res) if res[0] == "exc" else "ok")
        elif roll < 0.62:
            link = pick_link()
            if rng.random() < 0.7 and link.vertices:
                a = rng.choice(link.vertices)
            rest = [v for v in link.vertices if v is not a and v is not None]
            res = outcome(a.remove_from_link, link) if a is not None else ("ok", None)
            desc = "%s.remove_from_link(%s) %s" % (nm(a), nm(link), res[0])
            if rest and rng.random() < 0.85:
                # finish the job from the other side
                if rng.random() < 0.5:
                    res = outcome(rest[0].remove_from_link, link)
                else:
                    res = outcome(link.unlink_from, rest[0])
                desc += "; then %s too %s" % (nm(rest[0]), res[0])
        elif roll < 0.68:
            link = pick_link()
            if rng.random() < 0.7 and link.vertices:
                a = rng.choice(link.vertices)
            rest = [v for v in link.vertices if v is not a and v is not None]
            res = outcome(link.unlink_from, a)
            desc = "%s.unlink_from(%s) %s" % (nm(link), nm(a), res[0])
            if rest and rng.random() < 0.85:
                if rng.random() < 0.5:
                    res = outcome(rest[0].remove_from_link, link)
                else:
                    res = outcome(link.unlink_from, rest[0])
                desc += "; then %s too %s" % (nm(rest[0]), res[0])
        elif roll < 0.74:
            # put a half-detached link back together / take it fully apart
            halves = [l for l in links if len(l.vertices) == 1]
            link = rng.choice(halves) if halves else pick_link()
            if len(link.vertices) == 1:
                if rng.random() < 0.5:
                    link.add_vertex(a)
                    desc = "%s.add_vertex(%s)" % (nm(link), nm(a))
                else:
                    res = outcome(link.unlink_from, link.vertices[0])
                    desc = "%s emptied %s" % (nm(link), res[0])
            elif len(link.vertices) == 0:
                link.add_vertex(a)
                b.add_to_link(link)
                desc = "%s refilled %s %s" % (nm(link), nm(a), nm(b))
            else:
                desc = "noop"
        elif roll < 0.75:
            link = pick_link()
            a.add_to_link(link)
            desc = "%s.add_to_link(%s)" % (nm(a), nm(link))
        elif roll < 0.76:
            link = pick_link()
            if len(link.vertices) > 2:
                extra = link.vertices[2]
                res = outcome(link.unlink_from, extra)
                desc = "%s dropped extra %s %s" % (nm(link), nm(extra), res[0])
            else:
                desc = "noop"
        elif roll < 0.84:
            # do a few things with the cache switched off
            Vertex.NEIGHBOR_CACHING = False
            done = []
            for _ in range(rng.randint(1, 3)):
                sub = rng.random()
                x, y = rng.choice(verts), rng.choice(verts)
                if sub < 0.4:
                    link = tag_link(explicit.link_directed(x, y))
                    links.append(link)
                    done.append("link %s %s" % (nm(x), nm(y)))
                elif sub < 0.7:
                    res = outcome(explicit.unlink, x, y)
                    done.append("unlink %s %s %s" % (nm(x), nm(y), res[0]))
                else:
                    link = pick_link()
                    res = outcome(setattr, link, "v1", x)
                    done.append("%s.v1=%s %s" % (nm(link), nm(x), res[0]))
                if rng.random() < 0.5:
                    done.append(show(outcome(helpers.neighbors, x, ANY, U_NB)))
            Vertex.NEIGHBOR_CACHING = True
            desc = "while off: " + "; ".join(done)
        elif roll < 0.90:
            how = rng.choice(("pickle", "nrpickler"))
            dumper = pickle.dumps if how == "pickle" else nrpickler.dumps
            verts, links, uni = pickle.loads(dumper((verts, links, uni)))
            desc = "round trip through " + how
        elif roll < 0.93:
            link = pick_link()
            new = Vertex(attributes={"i": len(verts)}, links=[link] if rng.random() < 0.5 else None, uid=20000 + 1000 * (seed % 50) + len(verts))
            verts.append(new)
            if rng.random() < 0.7:
                uni.add_vertex(new)
            desc = "new vertex %s links=%s" % (nm(new), names(new.links))
        else:
            desc = "just asking"
        T(where, step, desc)

        check_all(verts, "%s/%d" % (where, step), rng=rng, prob=0.35)
        if step % 5 == 0:
            start = rng.choice(verts)
            check_traversals(
                rng.choice((uni, None)),
                start,
                rng.choice(DIRECTIONS),
                rng.choice(UNKNOWNS),
                rng.choice(FILTERS),
                "%s/%d" % (where, step),
                target=rng.randrange(len(verts)),
            )
        if step % 25 == 0:
            stats("%s/%d" % (where, step))
            # drop dead links now and then so the graph stays interesting
            links = [l for l in links if len(l.vertices) > 0] or links
    check_all(verts, where + "/final")
    stats(where + "/final")
    Vertex.NEIGHBOR_CACHING = False


# --------------------------------------------------------------------------


def main(argv):
    if len(argv) >= 3 and argv[1] == "--child":
        return child_main(argv[2])

    scripted_basics()
    scripted_errors()
    scripted_callbacks()
    scripted_flag()
    scripted_construction()
    scripted_internals()
    scripted_pickling()
    scripted_builders()
    scripted_depth()
    for seed, steps, nverts in ((1, 400, 5), (2, 400, 7), (3, 300, 9), (4, 500, 4), (5, 250, 12)):
        random_history(seed, steps, nverts)

    digest = hashlib.sha256("\n".join(TRACE).encode("utf-8")).hexdigest()
    if "--dump" in argv:
        with open(argv[argv.index("--dump") + 1], "w", encoding="utf-8") as handle:
            handle.write("\n".join(TRACE) + "\n")
    print("trace lines: %d   digest: %s" % (len(TRACE), digest))
    if FAILS:
        print("%d expectation(s) failed" % len(FAILS), file=sys.stderr)
        return 1
    if "--print-digest" in argv:
        return 0
    if digest != EXPECTED_DIGEST:
        print(
            "observable trace differs from the one recorded on the unchanged "
            "code (expected %s); use --dump to compare" % EXPECTED_DIGEST,
            file=sys.stderr,
        )
        return 2
    print("OK")
    return 0


if __name__ == "__main__":
    sys.exit(main(sys.argv))
