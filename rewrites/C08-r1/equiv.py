#!/usr/bin/env python3
"""
equiv.py for C08 / rewrite 1 (search functions in edgegraph.traversal).

Checks that bfs / dfs_recursive / dfs_iterative return the first match of
bft / dft_recursive / dft_iterative (or None), plus a number of edge cases of
the touched code.  Exit status 0 == everything as expected.
"""

import gc
import random
import sys
import weakref

from edgegraph.structure import (
    Vertex,
    Universe,
    DirectedEdge,
    UnDirectedEdge,
)
from edgegraph.traversal import breadthfirst, depthfirst

PAIRS = [
    (breadthfirst.bfs, breadthfirst.bft, "bfs"),
    (depthfirst.dfs_recursive, depthfirst.dft_recursive, "dfs_recursive"),
    (depthfirst.dfs_iterative, depthfirst.dft_iterative, "dfs_iterative"),
]

CHECKS = 0


def check(cond, msg):
    global CHECKS
    CHECKS += 1
    if not cond:
        print("FAIL:", msg)
        sys.exit(1)


class Falsy(Vertex):
    """Vertex whose truth value is False."""

    def __bool__(self):
        return False


class Sized(Vertex):
    """Vertex that is falsy through __len__."""

    def __len__(self):
        return 0


class Prop(Vertex):
    """Vertex which exposes the sought attribute through a property."""

    @property
    def tag(self):
        return self._tag


class Box:
    """Value that compares equal by payload, never by identity."""

    def __init__(self, payload):
        self.payload = payload

    def __eq__(self, other):
        return isinstance(other, Box) and other.payload == self.payload

    def __hash__(self):
        return hash(self.payload)


class Unhashable(Vertex):
    """Vertex that compares by identity but cannot be hashed."""

    __hash__ = None

    def __eq__(self, other):
        return self is other


def oracle(order, attrib, val):
    for v in order:
        if hasattr(v, attrib) and getattr(v, attrib) == val:
            return v
    return None


def build_world(rng, n, m):
    """Random multigraph: mixed classes, loops, parallel edges, a universe that
    covers only part of the vertices, vertices lacking the attribute."""
    classes = [Vertex, Falsy, Sized, Prop]
    verts = []
    for i in range(n):
        cls = rng.choice(classes)
        v = cls()
        kind = rng.randrange(4)
        if cls is Prop:
            v._tag = Box(rng.randrange(4)) if kind else rng.randrange(4)
        elif kind == 0:
            pass  # lacks the attribute
        elif kind == 1:
            v.tag = rng.randrange(4)
        else:
            v.tag = Box(rng.randrange(4))
        v.idx = i
        verts.append(v)
    # a universe is a vertex as well; make one take part in the graph
    inner = Universe()
    inner.tag = 2
    inner.idx = n
    verts.append(inner)

    for _ in range(m):
        a = rng.choice(verts)
        b = a if rng.random() < 0.15 else rng.choice(verts)
        edge = rng.choice([DirectedEdge, UnDirectedEdge])
        edge(a, b)
        if rng.random() < 0.2:
            edge(a, b)  # parallel edge

    uni = Universe()
    members = [v for v in verts if rng.random() < 0.7] or [verts[0]]
    for v in members:
        uni.add_vertex(v)
    return verts, uni, members


def run_worlds():
    rng = random.Random(80808)
    for world in range(60):
        n = rng.randrange(1, 9)
        m = rng.randrange(0, 16)
        verts, uni, members = build_world(rng, n, m)
        sought = [0, 1, 2, 3, Box(0), Box(1), Box(2), Box(3), 99, None, 1.0, True]
        for scope, starts in ((uni, members), (None, verts)):
            before = None if scope is None else scope.vertices
            for start in starts:
                for search, trav, name in PAIRS:
                    order = trav(scope, start)
                    check(order[0] is start, f"{name}: traversal starts at start")
                    for val in sought:
                        for attrib in ("tag", "idx", "nope"):
                            got = search(scope, start, attrib, val)
                            exp = oracle(order, attrib, val)
                            check(
                                got is exp,
                                f"{name} world={world} attrib={attrib} val={val!r}: "
                                f"{got!r} is not {exp!r}",
                            )
                            if got is not None and scope is not None:
                                check(got in members, f"{name}: result outside uni")
            if scope is not None:
                check(scope.vertices == before, "universe changed by a search")


def run_edge_cases():
    # empty universe: bfs -> None, dfs_* -> ValueError
    empty = Universe()
    lone = Vertex(attributes={"x": 1})
    check(breadthfirst.bfs(empty, lone, "x", 1) is None, "bfs empty universe")
    for fn in (depthfirst.dfs_recursive, depthfirst.dfs_iterative):
        try:
            fn(empty, lone, "x", 1)
        except ValueError:
            pass
        else:
            check(False, f"{fn.__name__}: no ValueError on empty universe")

    # start outside of a non-empty universe: ValueError everywhere
    uni = Universe()
    member = Vertex(attributes={"x": 1}, universes=[uni])
    for fn, _, name in PAIRS:
        try:
            fn(uni, lone, "x", 1)
        except ValueError:
            pass
        else:
            check(False, f"{name}: no ValueError for foreign start")
        check(fn(uni, member, "x", 1) is member, f"{name}: start is eligible")
        check(fn(uni, member, "x", 2) is None, f"{name}: absent value")
        check(fn(None, lone, "x", 1.0) is lone, f"{name}: equal, not identical")

    # an edge with a dangling (None) end; inside a universe it is skipped
    uni2 = Universe()
    a = Vertex(attributes={"x": "a"}, universes=[uni2])
    b = Vertex(attributes={"x": "b"}, universes=[uni2])
    DirectedEdge(a, None)
    DirectedEdge(a, b)
    for fn, trav, name in PAIRS:
        check(trav(uni2, a) == [a, b], f"{name}: traversal skips None end")
        check(fn(uni2, a, "x", "b") is b, f"{name}: finds b past a None end")
        check(fn(uni2, a, "x", "zz") is None, f"{name}: None end, no match")

    # a matching vertex outside of the universe is never returned
    uni3 = Universe()
    s = Vertex(attributes={"x": 0}, universes=[uni3])
    out = Vertex(attributes={"x": 7})
    back = Vertex(attributes={"x": 7}, universes=[uni3])
    DirectedEdge(s, out)
    DirectedEdge(out, back)
    UnDirectedEdge(s, s)
    for fn, _, name in PAIRS:
        check(fn(uni3, s, "x", 7) is None, f"{name}: must not leave universe")
        check(fn(None, s, "x", 7) is out, f"{name}: unbounded search finds it")

    # long chain: recursion per level is unchanged, 300 levels are fine
    chain = [Vertex(attributes={"i": i}) for i in range(300)]
    for x, y in zip(chain, chain[1:]):
        DirectedEdge(x, y)
    for fn, _, name in PAIRS:
        check(fn(None, chain[0], "i", 299) is chain[-1], f"{name}: long chain")
        check(fn(None, chain[5], "i", 2) is None, f"{name}: long chain, behind")

    # unhashable vertices: a matching start is returned before anything is
    # hashed; otherwise the set based searches raise TypeError and the list
    # based iterative one works
    u1 = Unhashable(attributes={"x": 1})
    u2 = Unhashable(attributes={"x": 2})
    DirectedEdge(u1, u2)
    for fn, _, name in PAIRS:
        check(fn(None, u1, "x", 1) is u1, f"{name}: unhashable matching start")
    for fn in (breadthfirst.bfs, depthfirst.dfs_recursive):
        try:
            fn(None, u1, "x", 3)
        except TypeError:
            pass
        else:
            check(False, f"{fn.__name__}: expected TypeError (unhashable)")
    check(depthfirst.dfs_iterative(None, u1, "x", 2) is u2, "dfs_iterative list")
    check(depthfirst.dfs_iterative(None, u1, "x", 3) is None, "dfs_iterative list")

    # nothing keeps the vertices alive after a search (no reference cycles
    # are created by the search machinery)
    gc.collect()
    gc.disable()
    try:
        for fn, _, name in PAIRS:
            v = Vertex(attributes={"x": 1})
            ref = weakref.ref(v)
            fn(None, v, "x", 2)
            fn(None, v, "nope", 2)
            # pylint: disable-next=protected-access
            Vertex._CACHE_STATS.pop(v.uid, None)
            del v
            check(ref() is None, f"{name}: vertex kept alive after the search")
    finally:
        gc.enable()

    # a value whose __eq__ result is a non-bool object
    class Weird:
        def __eq__(self, other):
            return [] if other == "no" else [1]

    w1 = Vertex(attributes={"x": "no"})
    w2 = Vertex(attributes={"x": "yes"})
    UnDirectedEdge(w1, w2)
    for fn, _, name in PAIRS:
        check(fn(None, w1, "x", Weird()) is w2, f"{name}: truthiness of ==")


def main():
    for caching in (False, True):
        Vertex.NEIGHBOR_CACHING = caching
        run_worlds()
        run_edge_cases()
    Vertex.NEIGHBOR_CACHING = False
    print(f"equiv.py (C08 r1): {CHECKS} checks OK")
    return 0


if __name__ == "__main__":
    sys.exit(main())
